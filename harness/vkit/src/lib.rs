pub mod hang;
pub mod indep;
pub mod runner;
pub mod sim;
pub mod tape;

pub use runner::{Ctx, Fail, Part, PhaseResult, Prop, RunEnv, Tier};
pub use tape::{Digest, Src};
