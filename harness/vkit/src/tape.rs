//! Choice-tape source of generated values.
//!
//! Every random decision a case makes goes through `Src`. In generate mode the
//! values come from a xoshiro256** stream and are recorded; in replay mode the
//! recorded values are handed back (clamped to the requested maximum, zero once
//! the tape is exhausted). The tape is therefore a complete, shrinkable and
//! replayable description of a case.

#[derive(Clone)]
pub struct Rng {
    s: [u64; 4],
}

fn splitmix(x: &mut u64) -> u64 {
    *x = x.wrapping_add(0x9E3779B97F4A7C15);
    let mut z = *x;
    z = (z ^ (z >> 30)).wrapping_mul(0xBF58476D1CE4E5B9);
    z = (z ^ (z >> 27)).wrapping_mul(0x94D049BB133111EB);
    z ^ (z >> 31)
}

impl Rng {
    pub fn new(seed: u64) -> Rng {
        let mut x = seed;
        let s = [
            splitmix(&mut x),
            splitmix(&mut x),
            splitmix(&mut x),
            splitmix(&mut x),
        ];
        Rng { s }
    }
    pub fn next(&mut self) -> u64 {
        let r = self.s[1].wrapping_mul(5).rotate_left(7).wrapping_mul(9);
        let t = self.s[1] << 17;
        self.s[2] ^= self.s[0];
        self.s[3] ^= self.s[1];
        self.s[1] ^= self.s[2];
        self.s[0] ^= self.s[3];
        self.s[2] ^= t;
        self.s[3] = self.s[3].rotate_left(45);
        r
    }
    /// uniform in 0..=max
    pub fn upto(&mut self, max: u64) -> u64 {
        if max == u64::MAX {
            return self.next();
        }
        let n = max + 1;
        // rejection sampling, unbiased
        let zone = u64::MAX - (u64::MAX % n + 1) % n;
        loop {
            let v = self.next();
            if v <= zone {
                return v % n;
            }
        }
    }
}

pub fn mix(seed: u64, prop: &str, idx: u64) -> u64 {
    let mut h: u64 = 0xcbf29ce484222325 ^ seed.wrapping_mul(0x100000001b3);
    for b in prop.bytes() {
        h ^= b as u64;
        h = h.wrapping_mul(0x100000001b3);
    }
    h ^= idx.wrapping_mul(0x9E3779B97F4A7C15);
    let mut x = h;
    splitmix(&mut x)
}

enum Mode {
    Generate(Rng),
    Replay,
    /// fuzzer bytes: each draw consumes as many bytes as `max` needs
    Bytes(Vec<u8>, usize),
}

pub struct Src {
    mode: Mode,
    /// (value, max) per draw
    pub tape: Vec<(u64, u64)>,
    pos: usize,
    /// number of draws beyond the recorded tape in replay mode
    pub overrun: usize,
}

impl Src {
    pub fn generate(seed: u64) -> Src {
        Src {
            mode: Mode::Generate(Rng::new(seed)),
            tape: Vec::new(),
            pos: 0,
            overrun: 0,
        }
    }
    pub fn replay(values: &[u64]) -> Src {
        Src {
            mode: Mode::Replay,
            tape: values.iter().map(|v| (*v, u64::MAX)).collect(),
            pos: 0,
            overrun: 0,
        }
    }
    pub fn from_bytes(data: &[u8]) -> Src {
        Src {
            mode: Mode::Bytes(data.to_vec(), 0),
            tape: Vec::new(),
            pos: 0,
            overrun: 0,
        }
    }
    /// Inverse of `from_bytes`: the byte string from which `from_bytes` reproduces exactly the
    /// draws made so far (seed corpus of the coverage-guided fuzz targets).
    pub fn to_bytes(&self) -> Vec<u8> {
        let mut out = vec![];
        for (v, max) in self.tape[..self.pos.min(self.tape.len())].iter() {
            let nbytes = ((64 - max.leading_zeros() as usize) + 7) / 8;
            for i in 0..nbytes {
                out.push((*v >> (8 * i)) as u8);
            }
        }
        out
    }
    /// The values actually used by the case (after clamping), for saving.
    pub fn used(&self) -> Vec<u64> {
        self.tape[..self.pos.min(self.tape.len())]
            .iter()
            .map(|t| t.0)
            .collect()
    }

    /// A value in 0..=max.
    pub fn draw(&mut self, max: u64) -> u64 {
        match &mut self.mode {
            Mode::Generate(rng) => {
                let v = rng.upto(max);
                self.tape.push((v, max));
                self.pos += 1;
                v
            }
            Mode::Bytes(data, at) => {
                let nbytes = ((64 - max.leading_zeros() as usize) + 7) / 8;
                let mut v: u64 = 0;
                for i in 0..nbytes {
                    let b = if *at < data.len() { data[*at] } else { 0 };
                    if *at >= data.len() {
                        self.overrun += 1;
                    }
                    *at += 1;
                    v |= (b as u64) << (8 * i);
                }
                let v = if max == u64::MAX { v } else { v % (max + 1) };
                self.tape.push((v, max));
                self.pos += 1;
                v
            }
            Mode::Replay => {
                if self.pos < self.tape.len() {
                    let v = self.tape[self.pos].0.min(max);
                    self.tape[self.pos] = (v, max);
                    self.pos += 1;
                    v
                } else {
                    self.overrun += 1;
                    0
                }
            }
        }
    }
    pub fn range(&mut self, lo: u64, hi: u64) -> u64 {
        debug_assert!(lo <= hi);
        lo + self.draw(hi - lo)
    }
    pub fn usize(&mut self, lo: usize, hi: usize) -> usize {
        self.range(lo as u64, hi as u64) as usize
    }
    pub fn bool(&mut self) -> bool {
        self.draw(1) == 1
    }
    /// true with probability num/den; value 0 (the shrink target) means false.
    pub fn chance(&mut self, num: u64, den: u64) -> bool {
        // map so that small tape values => false
        let v = self.draw(den - 1);
        v >= den - num
    }
    /// "one more element?" decision for list generation; p = num/den of continuing.
    pub fn more(&mut self, num: u64, den: u64) -> bool {
        self.chance(num, den)
    }
    /// index into weights; index 0 is the shrink target.
    pub fn weighted(&mut self, weights: &[u32]) -> usize {
        let total: u64 = weights.iter().map(|w| *w as u64).sum();
        debug_assert!(total > 0);
        let mut v = self.draw(total - 1);
        for (i, w) in weights.iter().enumerate() {
            if v < *w as u64 {
                return i;
            }
            v -= *w as u64;
        }
        weights.len() - 1
    }
    pub fn pick<'a, T>(&mut self, items: &'a [T]) -> &'a T {
        let i = self.draw(items.len() as u64 - 1) as usize;
        &items[i]
    }
    pub fn u8(&mut self) -> u8 {
        self.draw(255) as u8
    }
    pub fn u16(&mut self) -> u16 {
        self.draw(65535) as u16
    }
    pub fn u32(&mut self) -> u32 {
        self.draw(u32::MAX as u64) as u32
    }
    pub fn u64(&mut self) -> u64 {
        self.draw(u64::MAX)
    }
    pub fn bytes(&mut self, n: usize) -> Vec<u8> {
        // 8 bytes per draw keeps tapes short
        let mut out = Vec::with_capacity(n);
        while out.len() < n {
            let left = n - out.len();
            if left >= 8 {
                out.extend_from_slice(&self.draw(u64::MAX).to_le_bytes());
            } else {
                let max = (1u64 << (8 * left)) - 1;
                let v = self.draw(max);
                out.extend_from_slice(&v.to_le_bytes()[..left]);
            }
        }
        out
    }
    /// Boundary-biased integer in lo..=hi.
    pub fn biased(&mut self, lo: u64, hi: u64) -> u64 {
        debug_assert!(lo <= hi);
        match self.weighted(&[4, 2, 2, 1, 1]) {
            0 => self.range(lo, hi),
            1 => lo + self.draw((hi - lo).min(3)),
            2 => hi - self.draw((hi - lo).min(3)),
            3 => {
                // near a power of two inside the range
                let span = hi - lo;
                if span < 4 {
                    self.range(lo, hi)
                } else {
                    let bits = 64 - span.leading_zeros() as u64;
                    let b = self.draw(bits - 1);
                    let p = 1u64 << b;
                    let d = self.draw(2);
                    let v = (lo + p + d).saturating_sub(1);
                    v.clamp(lo, hi)
                }
            }
            _ => {
                // small
                lo + self.draw((hi - lo).min(16))
            }
        }
    }
    /// Pick from a list of special values or uniformly from lo..=hi.
    pub fn special(&mut self, specials: &[u64], lo: u64, hi: u64) -> u64 {
        if !specials.is_empty() && self.chance(1, 2) {
            (*self.pick(specials)).clamp(lo, hi)
        } else {
            self.range(lo, hi)
        }
    }
}

/// FNV-1a 64 digest helper used for "distinct" counting.
#[derive(Clone, Copy)]
pub struct Digest(pub u64);
impl Default for Digest {
    fn default() -> Self {
        Digest(0xcbf29ce484222325)
    }
}
impl Digest {
    pub fn new() -> Digest {
        Digest::default()
    }
    pub fn bytes(&mut self, b: &[u8]) {
        for x in b {
            self.0 ^= *x as u64;
            self.0 = self.0.wrapping_mul(0x100000001b3);
        }
        self.0 ^= 0xff;
        self.0 = self.0.wrapping_mul(0x100000001b3);
    }
    pub fn u64(&mut self, v: u64) {
        self.bytes(&v.to_le_bytes());
    }
    pub fn str(&mut self, s: &str) {
        self.bytes(s.as_bytes());
    }
    pub fn finish(&self) -> u64 {
        let mut x = self.0;
        splitmix(&mut x)
    }
}
