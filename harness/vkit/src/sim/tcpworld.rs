//! Two real smoltcp endpoints joined by a faulty simulated link, with
//! application scripts on both sides. Used by C01 (safety under faults) and C02
//! (progress when driven only by poll_at and arriving frames).

use super::{seed_for_first_isn, us, Hw, Node};
use crate::indep::*;
use crate::runner::{Ctx, Fail};
use crate::sim::tcpbed::prf_bytes;
use crate::tape::Src;
use smoltcp::iface::SocketHandle;
use smoltcp::socket::tcp;
use smoltcp::time::Duration;
use smoltcp::wire::IpCidr;
use std::cmp::Reverse;
use std::collections::BinaryHeap;

#[derive(Clone, Debug)]
pub struct SideCfg {
    pub rx_buf: usize,
    pub tx_buf: usize,
    pub mtu: usize,
    pub cc: u8,
    pub ack_delay_us: Option<i64>,
    pub nagle: bool,
    pub timestamps: bool,
    pub isn: u32,
    /// bytes the application writes in total
    pub total: usize,
    /// close() after writing everything
    pub closes: bool,
    pub stream_seed: u64,
    /// the application does not read during the first 30 s (the whole receive buffer fills up)
    pub late_reader: bool,
}

#[derive(Clone, Debug)]
pub struct LinkCfg {
    /// per-mille probabilities while faults are active
    pub p_drop: u32,
    pub p_dup: u32,
    pub p_corrupt: u32,
    pub base_delay_us: i64,
    pub jitter_us: i64,
    /// faults apply to the first `fault_frames` frames of each direction (u64::MAX = always)
    pub fault_frames: u64,
    /// probability (per mille) that an outage starts at a frame; lasts `outage_len` frames
    pub p_outage: u32,
    pub outage_len: u32,
}

#[derive(Clone, Debug)]
pub struct WorldCfg {
    pub v6: bool,
    pub ethernet: bool,
    pub sides: [SideCfg; 2],
    pub link: LinkCfg,
}

pub fn gen_side(src: &mut Src, v6: bool, ethernet: bool) -> SideCfg {
    let buf = |src: &mut Src| -> usize {
        match src.weighted(&[4, 3, 2]) {
            0 => *src.pick(&[4096usize, 64, 535, 536, 1460, 2048, 65535, 65536, 100_000, 262_144]),
            1 => src.usize(1, 8192),
            _ => src.biased(1, 262_144) as usize,
        }
    };
    let l2 = if ethernet { 14 } else { 0 };
    let mtu = l2
        + if v6 {
            *src.pick(&[1500usize, 1280, 1300])
        } else {
            match src.weighted(&[3, 2, 1]) {
                0 => 1500,
                1 => *src.pick(&[576usize, 296, 100, 68 + 20]),
                _ => src.usize(88, 1500),
            }
        };
    let isn = match src.weighted(&[2, 2, 2, 1]) {
        0 => src.u32(),
        1 => 0u32.wrapping_sub(src.range(1, 100_000) as u32),
        2 => 0x8000_0000u32.wrapping_sub(src.range(1, 100_000) as u32),
        _ => src.range(0, 3) as u32,
    };
    let total = match src.weighted(&[3, 3, 2, 1, 1]) {
        0 => src.usize(0, 2000),
        1 => src.usize(0, 20_000),
        2 => src.usize(0, 120_000),
        3 => 0,
        _ => src.biased(0, 262_144) as usize,
    };
    SideCfg {
        rx_buf: buf(src),
        tx_buf: buf(src),
        mtu,
        cc: src.draw(2) as u8,
        ack_delay_us: match src.draw(2) {
            0 => Some(10_000),
            1 => None,
            _ => Some(src.range(1, 200_000) as i64),
        },
        nagle: src.bool(),
        timestamps: src.chance(1, 3),
        isn,
        total,
        closes: true,
        stream_seed: src.u64(),
        late_reader: false,
    }
}

pub fn gen_link(src: &mut Src, always: bool) -> LinkCfg {
    let intensity = src.weighted(&[2, 3, 3, 2]);
    let (d, u, c) = match intensity {
        0 => (0, 0, 0),
        1 => (src.range(0, 50) as u32, src.range(0, 50) as u32, src.range(0, 30) as u32),
        2 => (src.range(0, 200) as u32, src.range(0, 200) as u32, src.range(0, 100) as u32),
        _ => (src.range(100, 600) as u32, src.range(0, 400) as u32, src.range(0, 300) as u32),
    };
    LinkCfg {
        p_drop: d,
        p_dup: u,
        p_corrupt: c,
        base_delay_us: *src.pick(&[1_000i64, 100, 20_000, 200_000]),
        jitter_us: *src.pick(&[0i64, 500, 5_000, 50_000, 500_000]),
        fault_frames: if always { u64::MAX } else { src.range(0, 400) },
        p_outage: if src.chance(1, 4) { src.range(1, 20) as u32 } else { 0 },
        outage_len: src.range(1, 40) as u32,
    }
}

#[derive(PartialEq, Eq, PartialOrd, Ord)]
enum EvKind {
    Frame(usize, Vec<u8>),
    Deadline(usize, u64),
    AppWake(usize),
}

pub struct App {
    pub written: Vec<u8>,
    pub received: usize,
    pub close_called: bool,
    pub finished_seen: bool,
    pub paused_until: i64,
    pub total: usize,
    pub closes: bool,
    pub stream_seed: u64,
}

pub struct Stats {
    pub frames: [u64; 2],
    pub dropped: u64,
    pub duplicated: u64,
    pub corrupted: u64,
    pub faults_on_seq_space: u64,
    pub retransmissions: u64,
    pub zero_windows: u64,
    pub polls: u64,
    pub max_reorder: i64,
    pub isn_ok: [bool; 2],
    pub wrap32: bool,
    pub wrap31: bool,
    pub ws_active: bool,
    pub last_progress_us: i64,
    pub fault_end_us: i64,
    pub total_pause_us: i64,
    pub spin_suspect: u64,
    /// deadline-triggered polls that did nothing although poll_at had asked for them
    pub idle_repolls: u64,
}

pub struct World {
    /// C02: follow poll_at literally - a deadline at or before `now` is served at exactly `now`
    /// (the contract allows polling "no later than the instant returned"), and three such
    /// polls in a row that do nothing while poll_at does not advance are a stuck connection
    pub strict_schedule: bool,
    idle_same_instant: [u32; 2],
    pub cfg: WorldCfg,
    pub nodes: Vec<Node>,
    pub handles: [SocketHandle; 2],
    pub apps: [App; 2],
    pub now_us: i64,
    heap: BinaryHeap<Reverse<(i64, u64, EvKind)>>,
    evseq: u64,
    deadline_gen: [u64; 2],
    addrs: [Ip; 2],
    macs: [[u8; 6]; 2],
    outage_left: [u32; 2],
    /// highest seq end seen per direction (to classify retransmissions)
    snd_high: [Option<u32>; 2],
    /// last sequence-space-occupying segment sent per node: (seq, len incl. FIN)
    pub last_data: [Option<(u32, u32)>; 2],
    /// last ACK number / window sent per node
    pub last_ack: [Option<(u32, u16)>; 2],
    pub stats: Stats,
    pub events: u64,
    /// check the C02 finite-deadline invariant after every poll
    pub check_deadline_invariant: bool,
}

fn tsgen() -> u32 {
    0x0badcafe
}

impl World {
    pub fn new(cfg: WorldCfg) -> World {
        let addrs = if cfg.v6 {
            [Ip::v6([0xfd00, 0, 0, 0, 0, 0, 0, 1]), Ip::v6([0xfd00, 0, 0, 0, 0, 0, 0, 2])]
        } else {
            [Ip::V4([10, 0, 0, 1]), Ip::V4([10, 0, 0, 2])]
        };
        let macs = [[2, 0, 0, 0, 0, 1], [2, 0, 0, 0, 0, 2]];
        let mut nodes = vec![];
        let mut handles = vec![];
        for i in 0..2 {
            let s = &cfg.sides[i];
            let hw = if cfg.ethernet { Hw::Eth(macs[i]) } else { Hw::Ip };
            let seed = seed_for_first_isn(s.isn, s.stream_seed);
            let mut n = Node::new(hw, s.mtu, seed, false, us(0));
            // one poll may legitimately flush the whole transmit buffer in minimum-size
            // segments (no congestion control, large peer window, tiny MTU): the cap that
            // stands for "the egress loop does not terminate" must lie well above that
            let l2 = if cfg.ethernet { 14 } else { 0 };
            let hdrs = l2 + if cfg.v6 { 40 } else { 20 } + 20 + 12;
            let seg_floor = cfg.sides.iter().map(|x| x.mtu.saturating_sub(hdrs)).min().unwrap_or(1).max(1);
            n.dev.hard_cap = 4096 + 4 * (s.tx_buf / seg_floor + 1);
            n.add_addr(IpCidr::new(addrs[i].to_smol(), if cfg.v6 { 64 } else { 24 }));
            let mut sock = tcp::Socket::new(tcp::SocketBuffer::new(vec![0u8; s.rx_buf]), tcp::SocketBuffer::new(vec![0u8; s.tx_buf]));
            sock.set_congestion_control(match s.cc {
                0 => tcp::CongestionControl::None,
                1 => tcp::CongestionControl::Reno,
                _ => tcp::CongestionControl::Cubic,
            });
            sock.set_ack_delay(s.ack_delay_us.map(|d| Duration::from_micros(d as u64)));
            sock.set_nagle_enabled(s.nagle);
            if s.timestamps {
                sock.set_tsval_generator(Some(tsgen));
            }
            let h = n.sockets.add(sock);
            handles.push(h);
            nodes.push(n);
        }
        let apps = [0, 1].map(|i| App {
            written: vec![],
            received: 0,
            close_called: false,
            finished_seen: false,
            paused_until: if cfg.sides[i].late_reader { 30_000_000 } else { 0 },
            total: cfg.sides[i].total,
            closes: cfg.sides[i].closes,
            stream_seed: cfg.sides[i].stream_seed,
        });
        let mut w = World {
            strict_schedule: false,
            idle_same_instant: [0, 0],
            cfg,
            nodes,
            handles: [handles[0], handles[1]],
            apps,
            now_us: 0,
            heap: BinaryHeap::new(),
            evseq: 0,
            deadline_gen: [0, 0],
            addrs,
            macs,
            outage_left: [0, 0],
            snd_high: [None, None],
            last_data: [None, None],
            last_ack: [None, None],
            stats: Stats {
                frames: [0, 0],
                dropped: 0,
                duplicated: 0,
                corrupted: 0,
                faults_on_seq_space: 0,
                retransmissions: 0,
                zero_windows: 0,
                polls: 0,
                max_reorder: 0,
                isn_ok: [false, false],
                wrap32: false,
                wrap31: false,
                ws_active: false,
                last_progress_us: 0,
                fault_end_us: 0,
                total_pause_us: 0,
                spin_suspect: 0,
                idle_repolls: 0,
            },
            events: 0,
            check_deadline_invariant: false,
        };
        for i in 0..2 {
            if w.cfg.sides[i].late_reader {
                w.push(30_000_000, EvKind::AppWake(i));
            }
        }
        // B listens, A connects
        w.sock(1).listen(80).expect("listen");
        {
            let remote = (w.addrs[1].to_smol(), 80u16);
            let h = w.handles[0];
            let n = &mut w.nodes[0];
            let cx = n.iface.context();
            n.sockets.get_mut::<tcp::Socket>(h).connect(cx, remote, 49152u16).expect("connect");
        }
        w
    }

    pub fn sock(&mut self, i: usize) -> &mut tcp::Socket<'static> {
        let h = self.handles[i];
        self.nodes[i].sockets.get_mut::<tcp::Socket>(h)
    }

    /// Both applications give up the current connection (abort) and open a new one on the SAME
    /// socket objects: whatever the old connection left behind - out-of-order data parked in the
    /// receive buffer, unsent data, negotiated options, timers - must not show in the new one.
    /// Frames still in flight are discarded (an old duplicate reaching the new connection is the
    /// classic hazard TIME-WAIT exists for, not something this world wants to judge) and the
    /// streams are re-keyed, otherwise leaked octets would equal the expected ones.
    pub fn restart(&mut self) {
        for i in 0..2 {
            self.sock(i).abort();
        }
        for i in 0..2 {
            let _ = self.nodes[i].poll(us(self.now_us), None);
        }
        self.heap.clear();
        for i in 0..2 {
            self.deadline_gen[i] += 1;
            let a = &mut self.apps[i];
            a.written.clear();
            a.received = 0;
            a.close_called = false;
            a.finished_seen = false;
            a.paused_until = 0;
            a.stream_seed ^= 0x5a5a_a5a5_3c3c_c3c3;
        }
        self.outage_left = [0, 0];
        self.snd_high = [None, None];
        self.last_data = [None, None];
        self.last_ack = [None, None];
        self.idle_same_instant = [0, 0];
        self.stats.last_progress_us = self.now_us;
        self.sock(1).listen(80).expect("listen again");
        let remote = (self.addrs[1].to_smol(), 80u16);
        let h = self.handles[0];
        let n = &mut self.nodes[0];
        let cx = n.iface.context();
        n.sockets.get_mut::<tcp::Socket>(h).connect(cx, remote, 49152u16).expect("connect again");
    }

    fn push(&mut self, t: i64, k: EvKind) {
        self.evseq += 1;
        self.heap.push(Reverse((t, self.evseq, k)));
    }

    /// Decide the fate of a frame leaving node `from`.
    fn transmit(&mut self, src: &mut Src, from: usize, frame: Vec<u8>, ctx: &mut Ctx) {
        let to = 1 - from;
        let idx = self.stats.frames[from];
        self.stats.frames[from] += 1;
        let l2 = if self.cfg.ethernet { 14 } else { 0 };
        // classify
        let mut occupies_seq = false;
        let mut is_tcp = false;
        let mut tcp_off = 0usize;
        let is_ip = !self.cfg.ethernet || (frame.len() >= 14 && (frame[12..14] == [0x08, 0x00] || frame[12..14] == [0x86, 0xdd]));
        if is_ip && frame.len() > l2 {
            if let Ok(ip) = decode_ip(&frame[l2..], false) {
                if ip.proto() == PROTO_TCP && !ip.is_fragment() {
                    if let Ok(d) = decode_tcp(ip.payload(), &ip.src(), &ip.dst()) {
                        is_tcp = true;
                        tcp_off = frame.len() - ip.payload().len();
                        let t = &d.seg;
                        occupies_seq = t.seg_len() > 0;
                        let end = t.seq.wrapping_add(t.seg_len());
                        if occupies_seq && !t.has(SYN) {
                            self.last_data[from] = Some((t.seq, t.seg_len()));
                        }
                        if t.has(ACK) && !t.has(RST) {
                            self.last_ack[from] = Some((t.ack, t.win));
                        }
                        if occupies_seq {
                            match self.snd_high[from] {
                                Some(h) if !seq_lt(h, end) => {
                                    self.stats.retransmissions += 1;
                                }
                                _ => self.snd_high[from] = Some(end),
                            }
                            if end < t.seq {
                                self.stats.wrap32 = true;
                            }
                            if (t.seq ^ end) & 0x8000_0000 != 0 && end >= t.seq {
                                self.stats.wrap31 = true;
                            }
                        }
                        ctx.note(|| {
                            format!(
                                "  node{} sends [{}] seq={} ack={} win={} len={}",
                                from,
                                flags_str(t.flags),
                                seq_diff(t.seq, self.cfg.sides[from].isn),
                                if t.has(ACK) { seq_diff(t.ack, self.cfg.sides[1 - from].isn) } else { -1 },
                                t.win,
                                t.payload.len()
                            )
                        });
                        if t.has(SYN) && !self.stats.isn_ok[from] {
                            self.stats.isn_ok[from] = t.seq == self.cfg.sides[from].isn;
                        }
                        if t.has(SYN) && t.has(ACK) && t.ws().map(|w| w > 0).unwrap_or(false) {
                            self.stats.ws_active = true;
                        }
                        if !t.has(SYN) && !t.has(RST) && t.win == 0 {
                            self.stats.zero_windows += 1;
                        }
                    }
                }
            }
        }
        let faults_on = idx < self.cfg.link.fault_frames;
        if !faults_on {
            // reliable, in order
            if self.stats.fault_end_us == 0 && self.cfg.link.fault_frames != u64::MAX {
                self.stats.fault_end_us = self.now_us;
            }
            let t = self.now_us + self.cfg.link.base_delay_us;
            self.push(t, EvKind::Frame(to, frame));
            return;
        }
        self.stats.fault_end_us = 0;
        // outage
        if self.outage_left[from] > 0 {
            self.outage_left[from] -= 1;
            self.stats.dropped += 1;
            if occupies_seq {
                self.stats.faults_on_seq_space += 1;
            }
            ctx.note(|| format!("  link {}->{}: frame #{} lost in outage", from, to, idx));
            return;
        }
        if self.cfg.link.p_outage > 0 && src.chance(self.cfg.link.p_outage as u64, 1000) {
            self.outage_left[from] = self.cfg.link.outage_len;
        }
        if self.cfg.link.p_drop > 0 && src.chance(self.cfg.link.p_drop as u64, 1000) {
            self.stats.dropped += 1;
            if occupies_seq {
                self.stats.faults_on_seq_space += 1;
            }
            ctx.note(|| format!("  link {}->{}: frame #{} dropped", from, to, idx));
            return;
        }
        let copies = if self.cfg.link.p_dup > 0 && src.chance(self.cfg.link.p_dup as u64, 1000) { 2 } else { 1 };
        if copies == 2 {
            self.stats.duplicated += 1;
            if occupies_seq {
                self.stats.faults_on_seq_space += 1;
            }
        }
        for c in 0..copies {
            let mut f = frame.clone();
            if is_tcp && self.cfg.link.p_corrupt > 0 && src.chance(self.cfg.link.p_corrupt as u64, 1000) {
                // single bit flip where the Internet checksum guarantees detection:
                // inside the TCP segment, or (IPv4) inside the IP header, or (IPv6) the addresses
                let region: (usize, usize) = if self.cfg.v6 {
                    if src.chance(1, 4) {
                        (l2 + 8, l2 + 40)
                    } else {
                        (tcp_off, f.len())
                    }
                } else if src.chance(1, 4) {
                    (l2, l2 + 20)
                } else {
                    (tcp_off, f.len())
                };
                let pos = src.usize(region.0, region.1 - 1);
                let bit = src.draw(7) as u8;
                f[pos] ^= 1 << bit;
                self.stats.corrupted += 1;
                if occupies_seq {
                    self.stats.faults_on_seq_space += 1;
                }
                ctx.note(|| format!("  link {}->{}: frame #{} bit flipped at byte {}", from, to, idx, pos));
            }
            let jitter = if self.cfg.link.jitter_us > 0 { src.range(0, self.cfg.link.jitter_us as u64) as i64 } else { 0 };
            let t = self.now_us + self.cfg.link.base_delay_us + jitter + c as i64;
            if jitter > self.stats.max_reorder {
                self.stats.max_reorder = jitter;
            }
            self.push(t, EvKind::Frame(to, f));
        }
    }

    /// C02 invariant (a): unacknowledged data / SYN / FIN => finite poll_at.
    fn deadline_invariant(&mut self, i: usize, d: Option<smoltcp::time::Instant>) -> Result<(), Fail> {
        if !self.check_deadline_invariant {
            return Ok(());
        }
        let s = self.sock(i);
        let st = s.state();
        let q = s.send_queue();
        // a connection that no longer exists (CLOSED after a reset) has nothing left to acknowledge
        let live = !matches!(st, tcp::State::Closed | tcp::State::Listen | tcp::State::TimeWait);
        let needs = live && (q > 0 || matches!(st, tcp::State::SynSent | tcp::State::SynReceived | tcp::State::FinWait1 | tcp::State::Closing | tcp::State::LastAck));
        if needs && d.is_none() {
            return Err(Fail::new(
                format!("no-deadline:state={}:sendq={}", st, if q > 0 { ">0" } else { "0" }),
                format!("node {} at t={}us: socket in {} with send_queue {} but Interface::poll_at is None (silent stall)", i, self.now_us, st, q),
            ));
        }
        Ok(())
    }

    fn app_step(&mut self, src: &mut Src, i: usize, ctx: &mut Ctx) -> Result<bool, Fail> {
        let mut acted = false;
        let now = self.now_us;
        // ---- writer
        {
            let total = self.apps[i].total;
            let wl = self.apps[i].written.len();
            if wl < total && self.sock(i).may_send() {
                let want = match src.weighted(&[2, 2, 1]) {
                    0 => src.usize(1, 200),
                    1 => src.usize(1, 4000),
                    _ => total - wl,
                }
                .min(total - wl);
                let data = prf_bytes(self.apps[i].stream_seed, wl as u64, want);
                if let Ok(n) = self.sock(i).send_slice(&data) {
                    if n > 0 {
                        self.apps[i].written.extend_from_slice(&data[..n]);
                        acted = true;
                        ctx.note(|| format!("  app{}: wrote {} bytes (total {})", i, n, wl + n));
                    }
                }
            }
            if self.apps[i].written.len() == total && self.apps[i].closes && !self.apps[i].close_called {
                let st = self.sock(i).state();
                // close once the connection exists (closing a listener/SYN-SENT socket just resets it)
                if matches!(st, tcp::State::Established | tcp::State::CloseWait) {
                    self.sock(i).close();
                    self.apps[i].close_called = true;
                    acted = true;
                    ctx.note(|| format!("  app{}: close()", i));
                }
            }
        }
        // ---- reader
        // The application reads out what is left as soon as the connection is over: smoltcp
        // resets the socket (dropping unread data and the Finished indication) when TIME-WAIT
        // expires, so an application must not sleep through the end of the connection.
        let over = matches!(self.sock(i).state(), tcp::State::TimeWait | tcp::State::Closed);
        if (now >= self.apps[i].paused_until || over) && !self.apps[i].finished_seen {
            let mut rounds = 0;
            loop {
                rounds += 1;
                let n = match src.weighted(&[2, 2, 1]) {
                    0 => src.usize(1, 100),
                    1 => src.usize(1, 3000),
                    _ => 70_000,
                };
                let mut buf = vec![0u8; n];
                let r = self.sock(i).recv_slice(&mut buf);
                match r {
                    Ok(0) => break,
                    Ok(k) => {
                        acted = true;
                        let peer = 1 - i;
                        let have = self.apps[i].received;
                        let pw = &self.apps[peer].written;
                        if have + k > pw.len() {
                            return Err(Fail::new(
                                "delivered-more-than-written",
                                format!("app{} received {} bytes in total but the peer has written only {}", i, have + k, pw.len()),
                            ));
                        }
                        if buf[..k] != pw[have..have + k] {
                            let at = (0..k).find(|j| buf[*j] != pw[have + *j]).unwrap();
                            return Err(Fail::new(
                                "delivered-bytes-differ",
                                format!(
                                    "app{} received byte {:#04x} at stream offset {} where the peer wrote {:#04x} (not a prefix of the written stream)",
                                    i,
                                    buf[at],
                                    have + at,
                                    pw[have + at]
                                ),
                            ));
                        }
                        self.apps[i].received += k;
                        self.stats.last_progress_us = now;
                        ctx.note(|| format!("  app{}: read {} bytes (total {})", i, k, have + k));
                    }
                    Err(tcp::RecvError::Finished) => {
                        let peer = 1 - i;
                        if !self.apps[peer].close_called {
                            return Err(Fail::new("finished-without-close", format!("app{} got Finished but the peer never called close()", i)));
                        }
                        if self.apps[i].received != self.apps[peer].written.len() {
                            return Err(Fail::new(
                                "finished-with-bytes-missing",
                                format!("app{} got Finished after {} bytes but the peer wrote {} before closing", i, self.apps[i].received, self.apps[peer].written.len()),
                            ));
                        }
                        self.apps[i].finished_seen = true;
                        self.stats.last_progress_us = now;
                        ctx.note(|| format!("  app{}: Finished", i));
                        break;
                    }
                    Err(tcp::RecvError::InvalidState) => break,
                }
                if !over && (rounds > 8 || src.chance(1, 3)) {
                    break;
                }
                if rounds > 100_000 {
                    break;
                }
            }
            // occasionally stop reading for a while (produces zero windows)
            if !over && src.chance(1, 40) {
                let d = *src.pick(&[50_000i64, 1_000_000, 10_000_000, 70_000_000]);
                self.apps[i].paused_until = now + d;
                self.stats.total_pause_us += d;
                self.push(now + d, EvKind::AppWake(i));
                ctx.note(|| format!("  app{}: stops reading for {} us", i, d));
            }
        }
        Ok(acted)
    }

    fn poll_node(&mut self, src: &mut Src, i: usize, ctx: &mut Ctx) -> Result<(), Fail> {
        self.poll_node_from(src, i, ctx, false)
    }

    /// `by_deadline`: nothing but the deadline poll_at had named caused this poll.
    fn poll_node_from(&mut self, src: &mut Src, i: usize, ctx: &mut Ctx, by_deadline: bool) -> Result<(), Fail> {
        let mut rounds = 0;
        let mut produced = false;
        loop {
            rounds += 1;
            self.stats.polls += 1;
            let frames = self.nodes[i].poll(us(self.now_us), None);
            if self.nodes[i].dev.hard_cap_hit {
                return Err(Fail::new("poll-unbounded-output", format!("node {} emitted more than {} frames in one poll", i, self.nodes[i].dev.hard_cap)));
            }
            if !frames.is_empty() {
                produced = true;
            }
            for f in frames {
                let max = self.cfg.sides[i].mtu;
                if f.len() > max {
                    return Err(Fail::new("frame-exceeds-mtu", format!("node {} emitted {} bytes, MTU {}", i, f.len(), max)));
                }
                self.transmit(src, i, f, ctx);
            }
            let acted = self.app_step(src, i, ctx)?;
            if acted {
                produced = true;
            }
            if !acted || rounds > 6 {
                break;
            }
        }
        let d = self.nodes[i].poll_at(us(self.now_us));
        self.deadline_invariant(i, d)?;
        self.deadline_gen[i] += 1;
        if let Some(t) = d {
            let mut t = t.total_micros();
            if t <= self.now_us {
                // asked to be polled again right away
                self.stats.spin_suspect += 1;
                if by_deadline && !produced {
                    self.stats.idle_repolls += 1;
                    self.idle_same_instant[i] += 1;
                } else {
                    self.idle_same_instant[i] = 0;
                }
                if self.strict_schedule {
                    if self.idle_same_instant[i] >= 3 {
                        let st = self.sock(i).state();
                        let q = self.sock(i).send_queue();
                        return Err(Fail::new(
                            format!("stuck-at-one-instant:{}", st),
                            format!("node {} at t={}us: {} consecutive polls at the instant poll_at had named neither sent nor received a frame nor involved the application, and poll_at still returns {}us (<= now): a driver that polls exactly when poll_at says makes no progress (socket {} send_queue {})", i, self.now_us, self.idle_same_instant[i], t, st, q),
                        ));
                    }
                    t = self.now_us;
                } else {
                    t = self.now_us + if self.stats.spin_suspect > 200 { 1_000 } else { 1 };
                }
            } else {
                self.idle_same_instant[i] = 0;
            }
            let g = self.deadline_gen[i];
            self.push(t, EvKind::Deadline(i, g));
        }
        Ok(())
    }

    pub fn done(&mut self) -> bool {
        for i in 0..2 {
            let peer = 1 - i;
            if self.apps[i].written.len() < self.apps[i].total {
                return false;
            }
            if self.apps[i].received < self.apps[peer].total {
                return false;
            }
            if self.apps[peer].closes && !self.apps[i].finished_seen {
                return false;
            }
            if self.apps[i].closes {
                let st = self.sock(i).state();
                if !matches!(st, tcp::State::Closed | tcp::State::TimeWait) {
                    return false;
                }
            }
        }
        true
    }

    /// Run until done / quiescent / caps. Returns how it ended.
    pub fn run(&mut self, src: &mut Src, ctx: &mut Ctx, max_events: u64, max_time_us: i64) -> Result<End, Fail> {
        // initial polls (after the API calls connect/listen)
        self.poll_node(src, 1, ctx)?;
        self.poll_node(src, 0, ctx)?;
        loop {
            if self.done() {
                return Ok(End::Done);
            }
            let Some(Reverse((t, _, k))) = self.heap.pop() else {
                return Ok(End::Quiescent);
            };
            if let EvKind::Deadline(i, g) = &k {
                if *g != self.deadline_gen[*i] {
                    continue; // superseded by a later poll
                }
            }
            self.events += 1;
            if self.events > max_events {
                return Ok(End::EventCap);
            }
            if t > max_time_us {
                return Ok(End::TimeCap);
            }
            if t > self.now_us {
                self.now_us = t;
            }
            match k {
                EvKind::Frame(to, f) => {
                    ctx.note(|| format!("t={} frame -> node{} ({} bytes)", self.now_us, to, f.len()));
                    self.nodes[to].inject(f);
                    self.poll_node(src, to, ctx)?;
                }
                EvKind::Deadline(i, _) => {
                    ctx.note(|| format!("t={} node{} deadline", self.now_us, i));
                    self.poll_node_from(src, i, ctx, true)?;
                }
                EvKind::AppWake(i) => {
                    ctx.note(|| format!("t={} app{} wakes", self.now_us, i));
                    let acted = self.app_step(src, i, ctx)?;
                    if acted {
                        self.poll_node(src, i, ctx)?;
                    }
                }
            }
        }
    }

    pub fn describe_state(&mut self) -> String {
        let mut s = String::new();
        for i in 0..2 {
            let st = self.sock(i).state();
            let q = self.sock(i).send_queue();
            let rq = self.sock(i).recv_queue();
            let a = &self.apps[i];
            s.push_str(&format!(
                "node{}: {} sendq={} recvq={} written={}/{} received={} close_called={} finished={} paused_until={}; ",
                i, st, q, rq, a.written.len(), a.total, a.received, a.close_called, a.finished_seen, a.paused_until
            ));
        }
        s
    }

    /// Diagnose a livelock from the last segments seen: node i "ignores acks" when it keeps
    /// (re)transmitting sequence space that the peer's latest ACK number already covers.
    pub fn acks_ignored(&mut self) -> [bool; 2] {
        let mut r = [false, false];
        for i in 0..2 {
            let st = self.sock(i).state();
            let pending = self.sock(i).send_queue() > 0 || matches!(st, tcp::State::FinWait1 | tcp::State::Closing | tcp::State::LastAck);
            if !pending {
                continue;
            }
            if let (Some((seq, len)), Some((ack, _))) = (self.last_data[i], self.last_ack[1 - i]) {
                // everything this node last sent is already acknowledged by the peer
                r[i] = seq_le(seq.wrapping_add(len), ack);
            }
        }
        r
    }

    pub fn macs(&self) -> [[u8; 6]; 2] {
        self.macs
    }
}

#[derive(Debug, PartialEq, Eq, Clone, Copy)]
pub enum End {
    Done,
    Quiescent,
    EventCap,
    TimeCap,
}

pub fn gen_world(src: &mut Src, faults_always: bool) -> WorldCfg {
    let v6 = src.chance(1, 4);
    let ethernet = src.chance(1, 5);
    let mut a = gen_side(src, v6, ethernet);
    let mut b = gen_side(src, v6, ethernet);
    // "stream ends at the receiver's buffer edge" mode (no new draws - bits of a drawn seed - so
    // that saved tapes keep their meaning): with window scaling (buffer > 64 KiB) the advertised
    // right edge is rounded down to the scaling granularity; a stream that ends within the last
    // octets of a buffer nobody reads from, sent in segments that do not align with that
    // granularity, puts the FIN on a segment clipped at the window edge
    for (x, y) in [(0usize, 1usize), (1, 0)] {
        let (snd, rcv) = if x == 0 { (&mut a, &mut b) } else { (&mut b, &mut a) };
        let _ = y;
        let bits = snd.stream_seed >> 24;
        if bits & 7 == 0 && rcv.rx_buf > 65_535 {
            snd.total = rcv.rx_buf - ((bits >> 3) % 4) as usize;
            snd.closes = true;
            if snd.mtu % 2 == 0 {
                snd.mtu -= 1;
            }
            if snd.tx_buf < 4096 {
                snd.tx_buf = 65_536;
            }
            rcv.late_reader = true;
        }
    }
    WorldCfg {
        v6,
        ethernet,
        sides: [a, b],
        link: gen_link(src, faults_always),
    }
}

pub fn label_stats(w: &World, ctx: &mut Ctx) {
    let s = &w.stats;
    if s.wrap32 {
        ctx.label("isn-wraps-2^32");
    }
    if s.wrap31 {
        ctx.label("seq-crosses-2^31");
    }
    if s.ws_active {
        ctx.label("window-scaling");
    }
    if s.zero_windows > 0 {
        ctx.label("zero-window-seen");
    }
    if s.corrupted > 0 {
        ctx.label("corrupt-frames");
    }
    if s.retransmissions > 0 {
        ctx.label("retransmission");
    }
    if s.duplicated > 0 {
        ctx.label("duplicates");
    }
    if s.max_reorder >= 3 * w.cfg.link.base_delay_us {
        ctx.label("heavy-reorder");
    }
    if w.cfg.ethernet {
        ctx.label("ethernet");
    }
    if !(s.isn_ok[0] && s.isn_ok[1]) {
        ctx.label("isn-steering-missed");
    }
    if s.spin_suspect > 0 {
        ctx.label("immediate-repoll");
    }
    if s.idle_repolls > 0 {
        ctx.label("idle-repoll-at-the-named-instant");
    }
    ctx.count("frames", s.frames[0] + s.frames[1]);
    ctx.count("polls", s.polls);
}
