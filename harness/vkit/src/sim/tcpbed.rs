//! A single TCP socket behind an interface on `Medium::Ip`, facing a scripted
//! peer that speaks through the independent codec.

use super::{us, Hw, Node};
use crate::indep::*;
use crate::runner::Fail;
use smoltcp::iface::SocketHandle;
use smoltcp::socket::tcp;
use smoltcp::wire::IpCidr;

pub struct TcpBed {
    pub node: Node,
    pub handle: SocketHandle,
    pub local: Ip,
    pub remote: Ip,
    pub lport: u16,
    pub rport: u16,
    pub now_us: i64,
    pub mtu: usize,
    /// non-TCP or foreign frames emitted (decoded IP packets)
    pub other: Vec<IpPkt>,
    pub frames_out: u64,
}

pub fn tsgen() -> u32 {
    // constant generator: values are irrelevant to the oracles
    0x1234_5678
}

impl TcpBed {
    pub fn new(v6: bool, rx: usize, tx: usize, mtu: usize, seed: u64) -> TcpBed {
        let mut node = Node::new(Hw::Ip, mtu, seed, false, us(0));
        let (local, remote) = if v6 {
            (Ip::v6([0xfd00, 0, 0, 0, 0, 0, 0, 1]), Ip::v6([0xfd00, 0, 0, 0, 0, 0, 0, 2]))
        } else {
            (Ip::V4([10, 0, 0, 1]), Ip::V4([10, 0, 0, 2]))
        };
        node.add_addr(IpCidr::new(local.to_smol(), if v6 { 64 } else { 24 }));
        let sock = tcp::Socket::new(tcp::SocketBuffer::new(vec![0u8; rx]), tcp::SocketBuffer::new(vec![0u8; tx]));
        let handle = node.sockets.add(sock);
        TcpBed {
            node,
            handle,
            local,
            remote,
            lport: 80,
            rport: 49152,
            now_us: 0,
            mtu,
            other: vec![],
            frames_out: 0,
        }
    }
    pub fn sock(&mut self) -> &mut tcp::Socket<'static> {
        self.node.sockets.get_mut::<tcp::Socket>(self.handle)
    }
    pub fn listen(&mut self) {
        let p = self.lport;
        self.sock().listen(p).expect("listen");
    }
    pub fn connect(&mut self) {
        let remote = (self.remote.to_smol(), self.rport);
        let lport = self.lport;
        let h = self.handle;
        let cx = self.node.iface.context();
        self.node.sockets.get_mut::<tcp::Socket>(h).connect(cx, remote, lport).expect("connect");
    }
    pub fn advance(&mut self, d_us: i64) {
        self.now_us += d_us;
    }
    /// Frame carrying `seg` from the peer to the socket.
    pub fn frame(&self, seg: &Tcp) -> Vec<u8> {
        let l4 = seg.encode(&self.remote, &self.local);
        IpPkt::build(self.remote, self.local, PROTO_TCP, 64, l4).encode()
    }
    fn decode_out(&mut self, frames: Vec<Vec<u8>>) -> Result<Vec<Tcp>, Fail> {
        let mut out = vec![];
        for f in frames {
            self.frames_out += 1;
            if f.len() > self.mtu {
                return Err(Fail::new("emit:frame-exceeds-mtu", format!("emitted {} bytes with MTU {}", f.len(), self.mtu)));
            }
            let ip = decode_ip(&f, true).map_err(|e| Fail::new("emit:undecodable-ip", format!("{} in {:02x?}", e, &f[..f.len().min(64)])))?;
            if ip.proto() == PROTO_TCP && ip.is_fragment() {
                return Err(Fail::new("emit:tcp-segment-fragmented", format!("TCP segment of {} bytes was IP-fragmented (MTU {})", f.len(), self.mtu)));
            }
            if ip.proto() == PROTO_TCP {
                let d = decode_tcp(ip.payload(), &ip.src(), &ip.dst()).map_err(|e| Fail::new("emit:undecodable-tcp", format!("{} in {:02x?}", e, &f[..f.len().min(80)])))?;
                if !d.opts_wellformed {
                    return Err(Fail::new("emit:tcp-options-malformed", format!("{:02x?}", &ip.payload()[20..20 + d.opt_len])));
                }
                if ip.src() != self.local || ip.dst() != self.remote {
                    return Err(Fail::new("emit:tcp-wrong-addresses", format!("{} -> {}", ip.src(), ip.dst())));
                }
                out.push(d.seg);
            } else {
                self.other.push(ip);
            }
        }
        Ok(out)
    }
    /// Deliver one segment and run a full poll.
    pub fn deliver(&mut self, seg: &Tcp) -> Result<Vec<Tcp>, Fail> {
        let f = self.frame(seg);
        self.node.inject(f);
        self.poll()
    }
    pub fn deliver_raw(&mut self, frame: Vec<u8>) -> Result<Vec<Tcp>, Fail> {
        self.node.inject(frame);
        self.poll()
    }
    pub fn poll(&mut self) -> Result<Vec<Tcp>, Fail> {
        let frames = self.node.poll(us(self.now_us), None);
        self.decode_out(frames)
    }
    /// Ingest exactly one queued frame (no egress pass).
    pub fn ingress_single(&mut self, seg: &Tcp) -> Result<Vec<Tcp>, Fail> {
        let f = self.frame(seg);
        self.node.inject(f);
        self.node.dev.begin_poll(None);
        let _ = self.node.iface.poll_ingress_single(us(self.now_us), &mut self.node.dev, &mut self.node.sockets);
        let frames = self.node.dev.take_tx();
        self.decode_out(frames)
    }
    /// One egress pass only.
    pub fn egress(&mut self) -> Result<Vec<Tcp>, Fail> {
        self.node.dev.begin_poll(None);
        let _ = self.node.iface.poll_egress(us(self.now_us), &mut self.node.dev, &mut self.node.sockets);
        let frames = self.node.dev.take_tx();
        self.decode_out(frames)
    }
    pub fn poll_at_us(&mut self) -> Option<i64> {
        self.node.poll_at(us(self.now_us)).map(|t| t.total_micros())
    }
}

/// Deterministic stream contents: byte i of stream `seed`.
pub fn prf_byte(seed: u64, i: u64) -> u8 {
    let mut x = seed ^ i.wrapping_mul(0x9E3779B97F4A7C15);
    x ^= x >> 29;
    x = x.wrapping_mul(0xBF58476D1CE4E5B9);
    x ^= x >> 32;
    (x as u8) ^ ((i as u8).wrapping_mul(37))
}
pub fn prf_bytes(seed: u64, from: u64, len: usize) -> Vec<u8> {
    (0..len as u64).map(|k| prf_byte(seed, from + k)).collect()
}
