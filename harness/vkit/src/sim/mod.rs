//! Simulation kit: a `phy::Device` owned by the harness, a node (interface +
//! sockets + device) and helpers to steer smoltcp's internal PRNG.

use smoltcp::iface::{Config, Interface, SocketSet};
use smoltcp::phy::{self, ChecksumCapabilities, Device, DeviceCapabilities, Medium};
use smoltcp::time::Instant;
use smoltcp::wire::{EthernetAddress, HardwareAddress, Ieee802154Address, Ieee802154Pan, IpCidr};
use std::collections::VecDeque;

thread_local! {
    static VALIDATE_TX: std::cell::Cell<bool> = const { std::cell::Cell::new(false) };
    static TX_VIOLATIONS: std::cell::RefCell<Vec<crate::indep::validate::Violation>> = const { std::cell::RefCell::new(Vec::new()) };
    static TX_CHAINS: std::cell::RefCell<std::collections::BTreeMap<String, u64>> = const { std::cell::RefCell::new(std::collections::BTreeMap::new()) };
}

/// Switch on strict validation of every frame emitted through a `SimDevice`
/// created afterwards on this thread (property C10).
pub fn set_validate_tx(on: bool) {
    VALIDATE_TX.with(|v| v.set(on));
    TX_VIOLATIONS.with(|v| v.borrow_mut().clear());
    TX_CHAINS.with(|v| v.borrow_mut().clear());
    TX_DEFERRED.with(|v| v.borrow_mut().clear());
}
thread_local! {
    static TX_DEFERRED: std::cell::RefCell<Vec<(crate::indep::Ip, crate::indep::validate::Violation)>> = const { std::cell::RefCell::new(Vec::new()) };
}
/// Confirm or drop the `source-not-own` verdicts of the poll that just ended.
fn resolve_deferred(now_own: &[crate::indep::Ip]) {
    let d = TX_DEFERRED.with(|d| std::mem::take(&mut *d.borrow_mut()));
    for (a, viol) in d {
        if !now_own.contains(&a) {
            TX_VIOLATIONS.with(|v| {
                let mut v = v.borrow_mut();
                if v.len() < 16 {
                    v.push(viol);
                }
            });
        }
    }
}

/// Content validator for IEEE 802.15.4 frames (6LoWPAN reassembly and decompression need
/// state and the independent codec of the C20 check, so the C10 check registers it):
/// Ok(Some) = a whole datagram was reconstructed and is valid, Ok(None) = no verdict yet.
pub type LowpanTxHook = fn(&crate::indep::validate::TxContext, &[u8]) -> Result<Option<crate::indep::validate::FrameSummary>, crate::indep::validate::Violation>;
thread_local! {
    static LOWPAN_TX_HOOK: std::cell::Cell<Option<LowpanTxHook>> = const { std::cell::Cell::new(None) };
}
pub fn set_lowpan_tx_hook(h: Option<LowpanTxHook>) {
    LOWPAN_TX_HOOK.with(|c| c.set(h));
}
pub fn take_tx_violations() -> Vec<crate::indep::validate::Violation> {
    TX_VIOLATIONS.with(|v| std::mem::take(&mut *v.borrow_mut()))
}
pub fn take_tx_chains() -> std::collections::BTreeMap<String, u64> {
    TX_CHAINS.with(|v| std::mem::take(&mut *v.borrow_mut()))
}

pub struct SimDevice {
    /// strict validation context (None = validation off)
    pub vctx: Option<crate::indep::validate::TxContext>,
    pub medium: Medium,
    pub mtu: usize,
    pub rx: VecDeque<Vec<u8>>,
    pub tx: Vec<Vec<u8>>,
    /// frames `transmit()` may still hand out; None = unlimited (bounded by `hard_cap`)
    pub tx_budget: Option<usize>,
    pub checksum: ChecksumCapabilities,
    pub max_burst: Option<usize>,
    /// safety net: a single poll may never emit more than this many frames
    pub hard_cap: usize,
    pub emitted_since_reset: usize,
    pub hard_cap_hit: bool,
    pub rx_count: u64,
}

impl SimDevice {
    pub fn new(medium: Medium, mtu: usize) -> SimDevice {
        let vctx = if VALIDATE_TX.with(|v| v.get()) {
            Some(crate::indep::validate::TxContext {
                medium: match medium {
                    Medium::Ip => crate::indep::validate::MediumKind::Ip,
                    Medium::Ethernet => crate::indep::validate::MediumKind::Ethernet([0; 6]),
                    Medium::Ieee802154 => crate::indep::validate::MediumKind::Ieee802154,
                },
                mtu,
                caps: crate::indep::validate::TxCaps::all(),
                own_addrs: None,
                raw_protocols: vec![253, 254],
                lowpan_ctxs: None,
            })
        } else {
            None
        };
        SimDevice {
            vctx,
            medium,
            mtu,
            rx: VecDeque::new(),
            tx: Vec::new(),
            tx_budget: None,
            checksum: ChecksumCapabilities::default(),
            max_burst: None,
            hard_cap: 4096,
            emitted_since_reset: 0,
            hard_cap_hit: false,
            rx_count: 0,
        }
    }
    pub fn begin_poll(&mut self, budget: Option<usize>) {
        self.tx_budget = budget;
        self.emitted_since_reset = 0;
        if let Some(cx) = self.vctx.as_mut() {
            cx.mtu = self.mtu;
            cx.caps = crate::indep::validate::TxCaps {
                ipv4: self.checksum.ipv4.tx(),
                udp: self.checksum.udp.tx(),
                tcp: self.checksum.tcp.tx(),
                icmpv4: self.checksum.icmpv4.tx(),
                icmpv6: self.checksum.icmpv6.tx(),
            };
        }
    }
    /// Tell the validator which addresses the interface owns right now.
    /// The source-ownership rule is judged against every address the interface has held so
    /// far: a socket the application bound to an address keeps sending from it after the
    /// network (SLAAC expiry, DHCP) took the address away, which is the application's choice
    /// of source, not the stack's.
    pub fn set_own_addrs(&mut self, addrs: Vec<crate::indep::Ip>) {
        if let Some(cx) = self.vctx.as_mut() {
            let mut all = cx.own_addrs.take().unwrap_or_default();
            for a in addrs {
                if !all.contains(&a) {
                    all.push(a);
                }
            }
            cx.own_addrs = Some(all);
        }
    }
    pub fn take_tx(&mut self) -> Vec<Vec<u8>> {
        std::mem::take(&mut self.tx)
    }
}

pub struct SimRx {
    buf: Vec<u8>,
}
pub struct SimTx<'a> {
    q: &'a mut Vec<Vec<u8>>,
    vctx: Option<&'a crate::indep::validate::TxContext>,
}

impl phy::RxToken for SimRx {
    fn consume<R, F>(self, f: F) -> R
    where
        F: FnOnce(&[u8]) -> R,
    {
        f(&self.buf)
    }
}

impl<'a> phy::TxToken for SimTx<'a> {
    fn consume<R, F>(self, len: usize, f: F) -> R
    where
        F: FnOnce(&mut [u8]) -> R,
    {
        // garbage pre-fill: nothing the stack emits may depend on old buffer contents
        let mut buf = vec![0xA5u8; len];
        let r = f(&mut buf);
        if let Some(cx) = self.vctx {
            let mut res = crate::indep::validate::validate_frame(cx, &buf);
            if res.is_ok() && matches!(cx.medium, crate::indep::validate::MediumKind::Ieee802154) {
                if let Some(h) = LOWPAN_TX_HOOK.with(|c| c.get()) {
                    match h(cx, &buf) {
                        Ok(Some(s)) => TX_CHAINS.with(|c| *c.borrow_mut().entry(s.chain).or_insert(0) += 1),
                        Ok(None) => {}
                        Err(e) => res = Err(e),
                    }
                }
            }
            match res {
                Ok(s) => TX_CHAINS.with(|c| *c.borrow_mut().entry(s.chain).or_insert(0) += 1),
                Err((k, m)) => {
                    let hexs: String = buf.iter().take(96).map(|b| format!("{:02x}", b)).collect();
                    let viol = (k, format!("{} [frame {} octets: {}]", m, buf.len(), hexs));
                    match crate::indep::validate::take_not_own_addr() {
                        // judged when the poll is over (Node::poll), against the addresses held then
                        Some(a) if viol.0.ends_with("source-not-own") => TX_DEFERRED.with(|d| {
                            let mut d = d.borrow_mut();
                            if d.len() < 64 {
                                d.push((a, viol));
                            }
                        }),
                        _ => TX_VIOLATIONS.with(|v| {
                            let mut v = v.borrow_mut();
                            if v.len() < 16 {
                                v.push(viol);
                            }
                        }),
                    }
                }
            }
        }
        self.q.push(buf);
        r
    }
}

impl Device for SimDevice {
    type RxToken<'a> = SimRx;
    type TxToken<'a> = SimTx<'a>;

    fn capabilities(&self) -> DeviceCapabilities {
        let mut caps = DeviceCapabilities::default();
        caps.medium = self.medium;
        caps.max_transmission_unit = self.mtu;
        caps.max_burst_size = self.max_burst;
        caps.checksum = self.checksum.clone();
        caps
    }

    fn receive(&mut self, _t: Instant) -> Option<(Self::RxToken<'_>, Self::TxToken<'_>)> {
        if self.emitted_since_reset >= self.hard_cap {
            self.hard_cap_hit = true;
            return None;
        }
        let buf = self.rx.pop_front()?;
        self.rx_count += 1;
        self.emitted_since_reset += 1;
        Some((SimRx { buf }, SimTx { q: &mut self.tx, vctx: self.vctx.as_ref() }))
    }

    fn transmit(&mut self, _t: Instant) -> Option<Self::TxToken<'_>> {
        if self.emitted_since_reset >= self.hard_cap {
            self.hard_cap_hit = true;
            return None;
        }
        match &mut self.tx_budget {
            Some(0) => return None,
            Some(n) => *n -= 1,
            None => {}
        }
        self.emitted_since_reset += 1;
        Some(SimTx { q: &mut self.tx, vctx: self.vctx.as_ref() })
    }
}

pub fn ms(t: i64) -> Instant {
    Instant::from_millis(t)
}
pub fn us(t: i64) -> Instant {
    Instant::from_micros(t)
}

pub struct Node {
    pub iface: Interface,
    pub sockets: SocketSet<'static>,
    pub dev: SimDevice,
}

#[derive(Clone, Debug)]
pub enum Hw {
    Ip,
    Eth([u8; 6]),
    /// extended address + PAN id
    Ieee([u8; 8], Option<u16>),
    IeeeShort([u8; 2], Option<u16>),
}

impl Hw {
    pub fn medium(&self) -> Medium {
        match self {
            Hw::Ip => Medium::Ip,
            Hw::Eth(_) => Medium::Ethernet,
            Hw::Ieee(..) | Hw::IeeeShort(..) => Medium::Ieee802154,
        }
    }
}

impl Node {
    pub fn new(hw: Hw, mtu: usize, random_seed: u64, slaac: bool, now: Instant) -> Node {
        let mut dev = SimDevice::new(hw.medium(), mtu);
        let hwaddr = match &hw {
            Hw::Ip => HardwareAddress::Ip,
            Hw::Eth(m) => HardwareAddress::Ethernet(EthernetAddress(*m)),
            Hw::Ieee(a, _) => HardwareAddress::Ieee802154(Ieee802154Address::Extended(*a)),
            Hw::IeeeShort(a, _) => HardwareAddress::Ieee802154(Ieee802154Address::Short(*a)),
        };
        let mut cfg = Config::new(hwaddr);
        cfg.random_seed = random_seed;
        cfg.slaac = slaac;
        match &hw {
            Hw::Ieee(_, pan) | Hw::IeeeShort(_, pan) => cfg.pan_id = pan.map(Ieee802154Pan),
            _ => {}
        }
        if let (Some(cx), Hw::Eth(m)) = (dev.vctx.as_mut(), &hw) {
            cx.medium = crate::indep::validate::MediumKind::Ethernet(*m);
        }
        let iface = Interface::new(cfg, &mut dev, now);
        Node {
            iface,
            sockets: SocketSet::new(vec![]),
            dev,
        }
    }
    pub fn add_addr(&mut self, cidr: IpCidr) {
        self.iface.update_ip_addrs(|a| {
            a.push(cidr).expect("too many addresses for IFACE_MAX_ADDR_COUNT");
        });
    }
    /// One `Interface::poll` with the given transmit budget; returns emitted frames.
    pub fn sync_validator(&mut self) {
        if self.dev.vctx.is_some() {
            let addrs = self.iface.ip_addrs().iter().map(|c| crate::indep::Ip::from_smol(c.address())).collect();
            self.dev.set_own_addrs(addrs);
            if self.dev.medium == Medium::Ieee802154 {
                let ctxs: Vec<[u8; 8]> = self.iface.sixlowpan_address_context().iter().map(|c| c.0).collect();
                if let Some(cx) = self.dev.vctx.as_mut() {
                    cx.lowpan_ctxs = Some(ctxs);
                }
            }
        }
    }
    pub fn poll(&mut self, now: Instant, budget: Option<usize>) -> Vec<Vec<u8>> {
        self.sync_validator();
        self.dev.begin_poll(budget);
        let _ = self.iface.poll(now, &mut self.dev, &mut self.sockets);
        if self.dev.vctx.is_some() {
            let now_own: Vec<crate::indep::Ip> = self.iface.ip_addrs().iter().map(|c| crate::indep::Ip::from_smol(c.address())).collect();
            resolve_deferred(&now_own);
        }
        self.dev.take_tx()
    }
    pub fn poll_at(&mut self, now: Instant) -> Option<Instant> {
        self.iface.poll_at(now, &self.sockets)
    }
    pub fn inject(&mut self, frame: Vec<u8>) {
        self.dev.rx.push_back(frame);
    }
}

// ------------------------------------------------------------------ PRNG steering

/// Replica of the generator in /repo/src/rand.rs, used only to choose
/// `Config::random_seed` values; every use is verified against what the stack
/// then actually emits (a mismatch is a label, never a failure).
pub struct Pcg {
    pub state: u64,
}
const PCG_M: u64 = 0xbb2efcec3c39611d;
const PCG_A: u64 = 0x7590ef39;

fn inv_mul() -> u64 {
    // modular inverse of PCG_M mod 2^64 by Newton iteration
    let mut x: u64 = PCG_M; // correct to 3 bits for odd M
    for _ in 0..6 {
        x = x.wrapping_mul(2u64.wrapping_sub(PCG_M.wrapping_mul(x)));
    }
    x
}

impl Pcg {
    pub fn next_u32(&mut self) -> u32 {
        let s = self.state.wrapping_mul(PCG_M).wrapping_add(PCG_A);
        self.state = s;
        let shift = 29 - (s >> 61);
        (s >> shift) as u32
    }
    pub fn next_u16(&mut self) -> u16 {
        let n = self.next_u32();
        (n ^ (n >> 16)) as u16
    }
}

/// Number of PRNG draws `Interface::new` makes for this seed (normally 3).
pub fn draws_in_interface_new(seed: u64) -> usize {
    let mut p = Pcg { state: seed };
    let mut n = 0;
    loop {
        n += 1;
        if p.next_u32() & 0xff != 0 {
            break;
        }
    }
    loop {
        n += 1;
        if p.next_u16() != 0 {
            break;
        }
    }
    loop {
        n += 1;
        if p.next_u16() != 0 {
            break;
        }
    }
    n
}

/// A `random_seed` such that the first `rand_u32()` after `Interface::new`
/// returns `want` (i.e. the TCP initial sequence number of the first
/// connect()/accepted SYN). `salt` varies the free low bits.
pub fn seed_for_first_isn(want: u32, salt: u64) -> u64 {
    let inv = inv_mul();
    for attempt in 0..64u64 {
        // state after the 4th step: top three bits 0 => shift 29; bits 29..61 = want
        let low = (salt.wrapping_mul(0x9E3779B97F4A7C15).wrapping_add(attempt.wrapping_mul(0x632BE59BD9B4E019))) & ((1 << 29) - 1);
        let s4 = ((want as u64) << 29) | low;
        let mut s = s4;
        for _ in 0..4 {
            s = s.wrapping_sub(PCG_A).wrapping_mul(inv);
        }
        if draws_in_interface_new(s) == 3 {
            let mut p = Pcg { state: s };
            for _ in 0..3 {
                p.next_u32();
            }
            if p.next_u32() == want {
                return s;
            }
        }
    }
    salt
}

#[cfg(test)]
mod t {
    use super::*;
    #[test]
    fn inv() {
        assert_eq!(PCG_M.wrapping_mul(inv_mul()), 1);
    }
}

pub mod tcpbed;
pub mod tcpworld;
