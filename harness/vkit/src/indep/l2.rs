//! Ethernet II, ARP and NDISC codecs (independent of smoltcp::wire).

use super::*;

pub const ETH_IPV4: u16 = 0x0800;
pub const ETH_ARP: u16 = 0x0806;
pub const ETH_IPV6: u16 = 0x86dd;
pub const MAC_BROADCAST: [u8; 6] = [0xff; 6];

#[derive(Clone, Debug, PartialEq, Eq)]
pub struct Eth {
    pub dst: [u8; 6],
    pub src: [u8; 6],
    pub ethertype: u16,
    pub payload: Vec<u8>,
}

impl Eth {
    pub fn encode(&self) -> Vec<u8> {
        let mut b = vec![];
        b.extend_from_slice(&self.dst);
        b.extend_from_slice(&self.src);
        b.extend_from_slice(&self.ethertype.to_be_bytes());
        b.extend_from_slice(&self.payload);
        b
    }
}

pub fn decode_eth(b: &[u8]) -> Result<Eth, String> {
    if b.len() < 14 {
        return Err("ethernet: shorter than header".into());
    }
    let mut dst = [0u8; 6];
    dst.copy_from_slice(&b[0..6]);
    let mut src = [0u8; 6];
    src.copy_from_slice(&b[6..12]);
    Ok(Eth {
        dst,
        src,
        ethertype: u16::from_be_bytes([b[12], b[13]]),
        payload: b[14..].to_vec(),
    })
}

pub fn mac_is_unicast(m: &[u8; 6]) -> bool {
    m[0] & 1 == 0 && *m != [0; 6]
}

pub fn mac_for_multicast(ip: &Ip) -> [u8; 6] {
    match ip {
        Ip::V4(a) => [0x01, 0x00, 0x5e, a[1] & 0x7f, a[2], a[3]],
        Ip::V6(a) => [0x33, 0x33, a[12], a[13], a[14], a[15]],
    }
}

#[derive(Clone, Debug, PartialEq, Eq)]
pub struct Arp {
    /// 1 = request, 2 = reply
    pub op: u16,
    pub sha: [u8; 6],
    pub spa: [u8; 4],
    pub tha: [u8; 6],
    pub tpa: [u8; 4],
}

impl Arp {
    pub fn encode(&self) -> Vec<u8> {
        let mut b = vec![0, 1, 0x08, 0x00, 6, 4];
        b.extend_from_slice(&self.op.to_be_bytes());
        b.extend_from_slice(&self.sha);
        b.extend_from_slice(&self.spa);
        b.extend_from_slice(&self.tha);
        b.extend_from_slice(&self.tpa);
        b
    }
}

pub fn decode_arp(b: &[u8]) -> Result<Arp, String> {
    if b.len() < 28 {
        return Err("arp: shorter than 28 bytes".into());
    }
    if b[0..2] != [0, 1] || b[2..4] != [8, 0] || b[4] != 6 || b[5] != 4 {
        return Err("arp: not Ethernet/IPv4".into());
    }
    let op = u16::from_be_bytes([b[6], b[7]]);
    if op != 1 && op != 2 {
        return Err(format!("arp: operation {}", op));
    }
    let mut a = Arp {
        op,
        sha: [0; 6],
        spa: [0; 4],
        tha: [0; 6],
        tpa: [0; 4],
    };
    a.sha.copy_from_slice(&b[8..14]);
    a.spa.copy_from_slice(&b[14..18]);
    a.tha.copy_from_slice(&b[18..24]);
    a.tpa.copy_from_slice(&b[24..28]);
    Ok(a)
}

// ------------------------------------------------------------------ NDISC

pub const ND_RS: u8 = 133;
pub const ND_RA: u8 = 134;
pub const ND_NS: u8 = 135;
pub const ND_NA: u8 = 136;

#[derive(Clone, Debug, PartialEq, Eq)]
pub struct NdOpt {
    pub ty: u8,
    /// body after type and length bytes; total option = 2 + body.len(), multiple of 8
    pub body: Vec<u8>,
}

/// Parse NDISC options area; Err when lengths are inconsistent.
pub fn decode_nd_opts(mut b: &[u8]) -> Result<Vec<NdOpt>, String> {
    let mut out = vec![];
    while !b.is_empty() {
        if b.len() < 2 {
            return Err("ndisc: truncated option".into());
        }
        let l = b[1] as usize * 8;
        if l == 0 {
            return Err("ndisc: option with length 0".into());
        }
        if l > b.len() {
            return Err("ndisc: option overruns message".into());
        }
        out.push(NdOpt {
            ty: b[0],
            body: b[2..l].to_vec(),
        });
        b = &b[l..];
    }
    Ok(out)
}

pub fn encode_nd_opt(ty: u8, body: &[u8]) -> Vec<u8> {
    let mut o = vec![ty, 0];
    o.extend_from_slice(body);
    while o.len() % 8 != 0 {
        o.push(0);
    }
    o[1] = (o.len() / 8) as u8;
    o
}

/// Neighbor solicitation ICMPv6 message (type 135) for `target`, with optional source link-layer address.
pub fn nd_ns(target: &[u8; 16], sll: Option<&[u8]>) -> Icmp {
    let mut body = target.to_vec();
    if let Some(l) = sll {
        body.extend_from_slice(&encode_nd_opt(1, l));
    }
    Icmp {
        ty: ND_NS,
        code: 0,
        rest: [0; 4],
        body,
    }
}

/// Neighbor advertisement. flags: R=0x80 S=0x40 O=0x20
pub fn nd_na(target: &[u8; 16], flags: u8, tll: Option<&[u8]>) -> Icmp {
    let mut body = target.to_vec();
    if let Some(l) = tll {
        body.extend_from_slice(&encode_nd_opt(2, l));
    }
    Icmp {
        ty: ND_NA,
        code: 0,
        rest: [flags, 0, 0, 0],
        body,
    }
}

pub fn solicited_node(addr: &[u8; 16]) -> [u8; 16] {
    let mut m = [0u8; 16];
    m[0] = 0xff;
    m[1] = 0x02;
    m[11] = 0x01;
    m[12] = 0xff;
    m[13] = addr[13];
    m[14] = addr[14];
    m[15] = addr[15];
    m
}
