//! Independent packet codecs, written from the RFCs and sharing no code with
//! `smoltcp::wire`. Used as the trusted base of the oracles.

pub mod l2;
pub mod net;
pub mod tcp;
pub mod validate;

pub use l2::*;
pub use net::*;
pub use tcp::*;

/// RFC 1071 one's complement sum of `data` (big-endian 16-bit words, odd last
/// byte padded with zero), folded to 16 bits, NOT complemented.
pub fn ocsum(data: &[u8]) -> u16 {
    let mut acc: u64 = 0;
    let mut i = 0;
    while i + 1 < data.len() {
        acc += ((data[i] as u64) << 8) | data[i + 1] as u64;
        i += 2;
    }
    if i < data.len() {
        acc += (data[i] as u64) << 8;
    }
    fold(acc)
}

pub fn fold(mut acc: u64) -> u16 {
    while acc >> 16 != 0 {
        acc = (acc & 0xffff) + (acc >> 16);
    }
    acc as u16
}

pub fn ocsum_parts(parts: &[&[u8]]) -> u16 {
    // every part except the last must have even length
    let mut acc: u64 = 0;
    for p in parts {
        acc += ocsum(p) as u64;
    }
    fold(acc)
}

#[derive(Clone, Copy, Debug, PartialEq, Eq, Hash, PartialOrd, Ord)]
pub enum Ip {
    V4([u8; 4]),
    V6([u8; 16]),
}

impl Ip {
    pub fn is_v4(&self) -> bool {
        matches!(self, Ip::V4(_))
    }
    pub fn bytes(&self) -> Vec<u8> {
        match self {
            Ip::V4(a) => a.to_vec(),
            Ip::V6(a) => a.to_vec(),
        }
    }
    pub fn v6(segs: [u16; 8]) -> Ip {
        let mut b = [0u8; 16];
        for (i, s) in segs.iter().enumerate() {
            b[2 * i] = (s >> 8) as u8;
            b[2 * i + 1] = *s as u8;
        }
        Ip::V6(b)
    }
    pub fn is_multicast(&self) -> bool {
        match self {
            Ip::V4(a) => a[0] >= 224 && a[0] <= 239,
            Ip::V6(a) => a[0] == 0xff,
        }
    }
    pub fn is_unspecified(&self) -> bool {
        match self {
            Ip::V4(a) => *a == [0; 4],
            Ip::V6(a) => *a == [0; 16],
        }
    }
    pub fn is_loopback(&self) -> bool {
        match self {
            Ip::V4(a) => a[0] == 127,
            Ip::V6(a) => {
                let mut l = [0u8; 16];
                l[15] = 1;
                *a == l
            }
        }
    }
    pub fn to_smol(&self) -> smoltcp::wire::IpAddress {
        match self {
            Ip::V4(a) => smoltcp::wire::IpAddress::Ipv4(smoltcp::wire::Ipv4Address::new(a[0], a[1], a[2], a[3])),
            Ip::V6(a) => smoltcp::wire::IpAddress::Ipv6(smoltcp::wire::Ipv6Address::from(*a)),
        }
    }
    pub fn from_smol(a: smoltcp::wire::IpAddress) -> Ip {
        match a {
            smoltcp::wire::IpAddress::Ipv4(x) => Ip::V4(x.octets()),
            smoltcp::wire::IpAddress::Ipv6(x) => Ip::V6(x.octets()),
        }
    }
}

impl std::fmt::Display for Ip {
    fn fmt(&self, f: &mut std::fmt::Formatter<'_>) -> std::fmt::Result {
        match self {
            Ip::V4(a) => write!(f, "{}.{}.{}.{}", a[0], a[1], a[2], a[3]),
            Ip::V6(a) => write!(f, "{}", std::net::Ipv6Addr::from(*a)),
        }
    }
}

/// Pseudo-header sum for TCP/UDP/ICMPv6 (not complemented).
pub fn pseudo_sum(src: &Ip, dst: &Ip, proto: u8, len: usize) -> u16 {
    match (src, dst) {
        (Ip::V4(s), Ip::V4(d)) => {
            let mut b = vec![];
            b.extend_from_slice(s);
            b.extend_from_slice(d);
            b.push(0);
            b.push(proto);
            b.extend_from_slice(&(len as u16).to_be_bytes());
            ocsum(&b)
        }
        (Ip::V6(s), Ip::V6(d)) => {
            let mut b = vec![];
            b.extend_from_slice(s);
            b.extend_from_slice(d);
            b.extend_from_slice(&(len as u32).to_be_bytes());
            b.extend_from_slice(&[0, 0, 0, proto]);
            ocsum(&b)
        }
        _ => panic!("mixed address families in pseudo header"),
    }
}

/// Checksum field value for an upper-layer segment whose checksum field is zeroed.
pub fn l4_checksum(src: &Ip, dst: &Ip, proto: u8, seg: &[u8]) -> u16 {
    let s = fold(pseudo_sum(src, dst, proto, seg.len()) as u64 + ocsum(seg) as u64);
    !s
}

/// True when the segment (with its checksum field in place) verifies.
pub fn l4_verify(src: &Ip, dst: &Ip, proto: u8, seg: &[u8]) -> bool {
    let s = fold(pseudo_sum(src, dst, proto, seg.len()) as u64 + ocsum(seg) as u64);
    s == 0xffff
}

pub const PROTO_ICMP: u8 = 1;
pub const PROTO_IGMP: u8 = 2;
pub const PROTO_TCP: u8 = 6;
pub const PROTO_UDP: u8 = 17;
pub const PROTO_ICMPV6: u8 = 58;
pub const PROTO_HOPOPT: u8 = 0;
pub const PROTO_V6FRAG: u8 = 44;
pub const PROTO_V6ROUTE: u8 = 43;
pub const PROTO_V6NONXT: u8 = 59;
pub const PROTO_V6OPTS: u8 = 60;
