//! Strict, independent validation of every frame an interface hands to its
//! device (property C10; also the "emitted checksums verify" clause of C08).

use super::*;

#[derive(Clone, Debug, Default)]
pub struct TxCaps {
    /// checksum generation enabled per protocol
    pub ipv4: bool,
    pub udp: bool,
    pub tcp: bool,
    pub icmpv4: bool,
    pub icmpv6: bool,
}

impl TxCaps {
    pub fn all() -> TxCaps {
        TxCaps {
            ipv4: true,
            udp: true,
            tcp: true,
            icmpv4: true,
            icmpv6: true,
        }
    }
}

#[derive(Clone, Debug)]
pub enum MediumKind {
    Ip,
    Ethernet([u8; 6]),
    Ieee802154,
}

#[derive(Clone, Debug)]
pub struct TxContext {
    pub medium: MediumKind,
    pub mtu: usize,
    pub caps: TxCaps,
    /// the interface's addresses at emission time; None = unknown (source rule not judged)
    pub own_addrs: Option<Vec<Ip>>,
    /// IP protocol numbers used only by the harness' raw sockets (exempt from the source rule)
    pub raw_protocols: Vec<u8>,
    /// 6LoWPAN address contexts of the interface at emission time (index = context id);
    /// None = unknown (frames compressed with a context are then not judged)
    pub lowpan_ctxs: Option<Vec<[u8; 8]>>,
}

/// One violation: (stable key, message)
pub type Violation = (String, String);

fn v(key: &str, msg: String) -> Violation {
    (key.to_string(), msg)
}

/// What a valid frame was (for coverage statistics).
#[derive(Clone, Debug, Default)]
pub struct FrameSummary {
    pub chain: String,
    pub len: usize,
}

pub fn validate_frame(cx: &TxContext, f: &[u8]) -> Result<FrameSummary, Violation> {
    if f.len() > cx.mtu {
        return Err(v("frame-exceeds-mtu", format!("frame of {} octets exceeds the device MTU {}", f.len(), cx.mtu)));
    }
    match &cx.medium {
        MediumKind::Ip => {
            let mut s = validate_ip(cx, f)?;
            s.len = f.len();
            Ok(s)
        }
        MediumKind::Ethernet(mac) => {
            let e = decode_eth(f).map_err(|e| v("ethernet-malformed", e))?;
            if e.src != *mac {
                return Err(v("ethernet-source-not-own", format!("Ethernet source {:02x?} is not the interface's address {:02x?}", e.src, mac)));
            }
            let mut s = match e.ethertype {
                ETH_ARP => {
                    let a = decode_arp(&e.payload).map_err(|m| v("arp-malformed", m))?;
                    if e.payload.len() != 28 {
                        return Err(v("arp-length", format!("ARP payload is {} octets", e.payload.len())));
                    }
                    if a.sha != *mac {
                        return Err(v("arp-sender-hw-not-own", format!("ARP sender hardware address {:02x?}", a.sha)));
                    }
                    if let Some(own) = &cx.own_addrs {
                        if !own.contains(&Ip::V4(a.spa)) {
                            return Err(v("arp-sender-ip-not-own", format!("ARP sender protocol address {:?} is not an interface address", a.spa)));
                        }
                    }
                    if a.op == 1 && e.dst != MAC_BROADCAST && !mac_is_unicast(&e.dst) {
                        return Err(v("arp-request-destination", format!("ARP request sent to {:02x?}", e.dst)));
                    }
                    FrameSummary {
                        chain: format!("eth/arp-{}", if a.op == 1 { "request" } else { "reply" }),
                        len: 0,
                    }
                }
                ETH_IPV4 | ETH_IPV6 => {
                    let mut s = validate_ip(cx, &e.payload)?;
                    let is4 = e.payload[0] >> 4 == 4;
                    if is4 != (e.ethertype == ETH_IPV4) {
                        return Err(v("ethertype-mismatch", format!("ethertype {:#06x} carries IP version {}", e.ethertype, e.payload[0] >> 4)));
                    }
                    s.chain = format!("eth/{}", s.chain);
                    s
                }
                t => return Err(v("ethertype-unknown", format!("ethertype {:#06x}", t))),
            };
            s.len = f.len();
            Ok(s)
        }
        MediumKind::Ieee802154 => {
            // 802.15.4 + 6LoWPAN frames are decoded by the C20 machinery; here only the size
            // rule (aMaxPHYPacketSize 127 incl. 2-octet FCS which smoltcp does not emit)
            if f.len() > 125 {
                return Err(v("ieee802154-frame-too-long", format!("{} octets", f.len())));
            }
            if f.len() < 3 {
                return Err(v("ieee802154-frame-too-short", format!("{} octets", f.len())));
            }
            Ok(FrameSummary {
                chain: "ieee802154".into(),
                len: f.len(),
            })
        }
    }
}

fn src_legal(cx: &TxContext, src: &Ip, unspecified_ok: bool, what: &str) -> Result<(), Violation> {
    if src.is_multicast() {
        return Err(v("source-multicast", format!("{} sent from multicast source {}", what, src)));
    }
    if let Ip::V4(a) = src {
        if *a == [255; 4] {
            return Err(v("source-broadcast", format!("{} sent from 255.255.255.255", what)));
        }
    }
    if src.is_unspecified() {
        if unspecified_ok {
            return Ok(());
        }
        return Err(v("source-unspecified", format!("{} sent from the unspecified address", what)));
    }
    if let Some(own) = &cx.own_addrs {
        if !own.contains(src) {
            NOT_OWN_ADDR.with(|c| c.set(Some(*src)));
            return Err(v("source-not-own", format!("{} sent from {} which is not an interface address ({:?})", what, src, own)));
        }
    }
    Ok(())
}

thread_local! {
    /// the source address of the latest `source-not-own` verdict: the interface may have
    /// acquired it during the very poll that emitted the frame (an RA processed earlier in
    /// the same poll), so the simulation kit confirms such verdicts when the poll is over
    static NOT_OWN_ADDR: std::cell::Cell<Option<Ip>> = const { std::cell::Cell::new(None) };
}
pub fn take_not_own_addr() -> Option<Ip> {
    NOT_OWN_ADDR.with(|c| c.take())
}

pub fn validate_ip(cx: &TxContext, b: &[u8]) -> Result<FrameSummary, Violation> {
    if b.is_empty() {
        return Err(v("ip-empty", "empty IP packet".into()));
    }
    let ip = match b[0] >> 4 {
        4 => {
            if cx.caps.ipv4 {
                decode_ip4(b, true).map(IpPkt::V4).map_err(|e| v("ipv4-malformed", e))?
            } else {
                // header checksum not generated: patch it in before decoding
                let mut c = b.to_vec();
                if c.len() >= 20 {
                    let ihl = ((c[0] & 0xf) as usize * 4).min(c.len());
                    c[10] = 0;
                    c[11] = 0;
                    let s = !ocsum(&c[..ihl]);
                    c[10..12].copy_from_slice(&s.to_be_bytes());
                }
                decode_ip4(&c, true).map(IpPkt::V4).map_err(|e| v("ipv4-malformed", e))?
            }
        }
        6 => decode_ip6(b, true).map(IpPkt::V6).map_err(|e| v("ipv6-malformed", e))?,
        ver => return Err(v("ip-version", format!("IP version {}", ver))),
    };
    let fam = if ip.src().is_v4() { "ipv4" } else { "ipv6" };
    let raw = cx.raw_protocols.contains(&ip.proto());
    if let IpPkt::V4(p) = &ip {
        if p.options.iter().any(|_| true) && p.options.len() % 4 != 0 {
            return Err(v("ipv4-options-unaligned", format!("{} option octets", p.options.len())));
        }
        if p.mf && p.payload.len() % 8 != 0 {
            return Err(v("ipv4-fragment-not-multiple-of-8", format!("fragment with MF carries {} octets", p.payload.len())));
        }
        if p.df && (p.mf || p.frag_off != 0) {
            return Err(v("ipv4-fragment-with-df", "fragment has DF set".into()));
        }
    }
    if let IpPkt::V6(p) = &ip {
        for e in &p.ext {
            if e.kind == PROTO_HOPOPT || e.kind == PROTO_V6OPTS {
                check_tlv_options(&e.body).map_err(|m| v("ipv6-options-malformed", m))?;
            }
        }
    }
    if ip.dst().is_unspecified() {
        return Err(v("destination-unspecified", format!("{} packet to the unspecified address", fam)));
    }
    if ip.is_fragment() {
        if !raw {
            // later fragments belong to a datagram whose first fragment was judged when it
            // was sent; the address may legitimately have been removed since
            let first = matches!(&ip, IpPkt::V4(p) if p.frag_off == 0);
            // a DHCP client message larger than the MTU is fragmented like any other datagram
            // and still comes from 0.0.0.0: the first fragment shows the UDP header, later
            // fragments only the protocol number
            let fp = ip.payload();
            let dhcp_unspec = ip.src().is_v4()
                && ip.proto() == PROTO_UDP
                && (!first || (fp.len() >= 9 && ((fp[0..4] == [0, 68, 0, 67]) || fp[8] == 1)));
            if first {
                src_legal(cx, &ip.src(), dhcp_unspec, "IP fragment")?;
            } else {
                let mut relaxed = cx.clone();
                relaxed.own_addrs = None;
                src_legal(&relaxed, &ip.src(), dhcp_unspec, "IP fragment")?;
            }
        }
        return Ok(FrameSummary {
            chain: format!("{}/fragment", fam),
            len: 0,
        });
    }
    let (src, dst) = (ip.src(), ip.dst());
    let pl = ip.payload();
    let chain;
    match ip.proto() {
        PROTO_TCP => {
            let d = if cx.caps.tcp {
                decode_tcp(pl, &src, &dst).map_err(|e| v("tcp-malformed", e))?
            } else {
                let mut c = pl.to_vec();
                if c.len() >= 20 {
                    c[16] = 0;
                    c[17] = 0;
                    let s = l4_checksum(&src, &dst, PROTO_TCP, &c);
                    c[16..18].copy_from_slice(&s.to_be_bytes());
                }
                decode_tcp(&c, &src, &dst).map_err(|e| v("tcp-malformed", e))?
            };
            if !d.opts_wellformed {
                return Err(v("tcp-options-malformed", format!("{:02x?}", &pl[20..20 + d.opt_len])));
            }
            if d.seg.sport == 0 || d.seg.dport == 0 {
                return Err(v("tcp-port-zero", format!("{}", d.seg)));
            }
            if !raw {
                src_legal(cx, &src, false, "TCP segment")?;
            }
            chain = format!("{}/tcp", fam);
        }
        PROTO_UDP => {
            let u = if cx.caps.udp {
                decode_udp(pl, &src, &dst).map_err(|e| v("udp-malformed", e))?
            } else {
                let mut c = pl.to_vec();
                if c.len() >= 8 {
                    c[6] = 0;
                    c[7] = 0;
                    let mut s = l4_checksum(&src, &dst, PROTO_UDP, &c);
                    if s == 0 {
                        s = 0xffff;
                    }
                    c[6..8].copy_from_slice(&s.to_be_bytes());
                }
                decode_udp(&c, &src, &dst).map_err(|e| v("udp-malformed", e))?
            };
            // a DHCP client message: BOOTREQUEST with the magic cookie (ports are configurable)
            let looks_dhcp_request = u.payload.len() >= 240 && u.payload[0] == 1 && u.payload[236..240] == [0x63, 0x82, 0x53, 0x63];
            let dhcp_client = (u.sport == 68 && u.dport == 67) || (looks_dhcp_request && src.is_unspecified());
            if u.dport == 0 {
                return Err(v("udp-port-zero", "UDP destination port 0".into()));
            }
            // A DHCP client renewing its lease sends from the leased address (= ciaddr), which
            // the application may not have applied to the interface (yet / any more).
            let dhcp_from_ciaddr = looks_dhcp_request && matches!(src, Ip::V4(a) if a == [u.payload[12], u.payload[13], u.payload[14], u.payload[15]] && a != [0; 4]);
            if !raw && !dhcp_from_ciaddr {
                src_legal(cx, &src, dhcp_client && src.is_v4(), "UDP datagram")?;
            } else if dhcp_from_ciaddr {
                let mut relaxed = cx.clone();
                relaxed.own_addrs = None;
                src_legal(&relaxed, &src, false, "DHCP client message")?;
            }
            if dhcp_client || (u.sport == 67 && u.dport == 68) {
                let p = &u.payload;
                if p.len() < 240 || p[236..240] != [0x63, 0x82, 0x53, 0x63] {
                    return Err(v("dhcp-malformed", "DHCP message without magic cookie".into()));
                }
                // options must be a TLV list ending with 255
                let mut at = 240;
                let mut ended = false;
                while at < p.len() {
                    match p[at] {
                        0 => at += 1,
                        255 => {
                            ended = true;
                            break;
                        }
                        _ => {
                            if at + 1 >= p.len() || at + 2 + p[at + 1] as usize > p.len() {
                                return Err(v("dhcp-option-overrun", format!("option {} at {} overruns the message", p[at], at)));
                            }
                            at += 2 + p[at + 1] as usize;
                        }
                    }
                }
                if !ended {
                    return Err(v("dhcp-no-end-option", "DHCP options not terminated by option 255".into()));
                }
                chain = format!("{}/udp/dhcp", fam);
            } else if u.dport == 53 || u.dport == 5353 {
                let p = &u.payload;
                if p.len() < 12 {
                    return Err(v("dns-malformed", "DNS message shorter than its header".into()));
                }
                let qd = u16::from_be_bytes([p[4], p[5]]);
                let mut at = 12;
                for _ in 0..qd {
                    loop {
                        if at >= p.len() {
                            return Err(v("dns-malformed", "DNS question name runs past the message".into()));
                        }
                        let l = p[at] as usize;
                        if l & 0xc0 != 0 {
                            return Err(v("dns-malformed", "DNS query uses a compressed/reserved label".into()));
                        }
                        at += 1 + l;
                        if l == 0 {
                            break;
                        }
                    }
                    at += 4;
                    if at > p.len() {
                        return Err(v("dns-malformed", "DNS question truncated".into()));
                    }
                }
                chain = format!("{}/udp/dns", fam);
            } else {
                chain = format!("{}/udp", fam);
            }
        }
        PROTO_ICMP if src.is_v4() => {
            let i = if cx.caps.icmpv4 {
                decode_icmp4(pl).map_err(|e| v("icmpv4-malformed", e))?
            } else {
                let mut c = pl.to_vec();
                if c.len() >= 8 {
                    c[2] = 0;
                    c[3] = 0;
                    let s = !ocsum(&c);
                    c[2..4].copy_from_slice(&s.to_be_bytes());
                }
                decode_icmp4(&c).map_err(|e| v("icmpv4-malformed", e))?
            };
            if i.is_error4() {
                if b.len() > 576 {
                    return Err(v("icmpv4-error-too-long", format!("ICMPv4 error datagram of {} octets (> 576)", b.len())));
                }
                if i.rest != [0; 4] && i.ty != 12 && !(i.ty == 3 && i.code == 4) && i.ty != 5 {
                    return Err(v("icmpv4-unused-not-zero", format!("type {} code {} unused field {:02x?}", i.ty, i.code, i.rest)));
                }
            }
            if !raw {
                src_legal(cx, &src, false, "ICMPv4 message")?;
            }
            chain = format!("ipv4/icmp-{}", i.ty);
        }
        PROTO_IGMP if src.is_v4() => {
            if pl.len() < 8 {
                return Err(v("igmp-malformed", format!("IGMP message of {} octets", pl.len())));
            }
            if ocsum(pl) != 0xffff {
                return Err(v("igmp-checksum", "IGMP checksum does not verify".into()));
            }
            if ip.hop() != 1 {
                return Err(v("igmp-ttl", format!("IGMP sent with TTL {}", ip.hop())));
            }
            src_legal(cx, &src, false, "IGMP message")?;
            chain = "ipv4/igmp".into();
        }
        PROTO_ICMPV6 if !src.is_v4() => {
            let i = if cx.caps.icmpv6 {
                decode_icmp6(pl, &src, &dst).map_err(|e| v("icmpv6-malformed", e))?
            } else {
                let mut c = pl.to_vec();
                if c.len() >= 4 {
                    c[2] = 0;
                    c[3] = 0;
                    let s = l4_checksum(&src, &dst, PROTO_ICMPV6, &c);
                    c[2..4].copy_from_slice(&s.to_be_bytes());
                }
                decode_icmp6(&c, &src, &dst).map_err(|e| v("icmpv6-malformed", e))?
            };
            let mut unspec_ok = false;
            match i.ty {
                1..=4 => {
                    if b.len() > 1280 {
                        return Err(v("icmpv6-error-too-long", format!("ICMPv6 error datagram of {} octets (> 1280)", b.len())));
                    }
                    if matches!(i.ty, 1 | 3) && i.rest != [0; 4] {
                        return Err(v("icmpv6-unused-not-zero", format!("type {} unused field {:02x?}", i.ty, i.rest)));
                    }
                }
                ND_RS | ND_RA | ND_NS | ND_NA | 137 => {
                    if ip.hop() != 255 {
                        return Err(v("ndisc-hop-limit", format!("NDISC type {} sent with hop limit {}", i.ty, ip.hop())));
                    }
                    let fixed = match i.ty {
                        ND_RS => 0,
                        ND_RA => 8,
                        ND_NS | ND_NA => 16,
                        _ => 32,
                    };
                    if i.body.len() < fixed {
                        return Err(v("ndisc-truncated", format!("NDISC type {} body of {} octets", i.ty, i.body.len())));
                    }
                    decode_nd_opts(&i.body[fixed..]).map_err(|m| v("ndisc-options-malformed", m))?;
                    if matches!(i.ty, ND_RS | ND_NS) && i.rest != [0; 4] {
                        return Err(v("ndisc-reserved-not-zero", format!("type {} reserved {:02x?}", i.ty, i.rest)));
                    }
                    if i.ty == ND_NA && (i.rest[0] & 0x1f != 0 || i.rest[1..] != [0; 3]) {
                        return Err(v("ndisc-reserved-not-zero", format!("NA reserved bits {:02x?}", i.rest)));
                    }
                    unspec_ok = matches!(i.ty, ND_RS | ND_NS);
                }
                130..=132 | 143 => {
                    if ip.hop() != 1 {
                        return Err(v("mld-hop-limit", format!("MLD type {} sent with hop limit {}", i.ty, ip.hop())));
                    }
                    if let IpPkt::V6(p) = &ip {
                        let ra = p.ext.iter().any(|e| {
                            e.kind == PROTO_HOPOPT && check_tlv_options(&e.body).map(|o| o.iter().any(|(t, d)| *t == 5 && d.len() == 2)).unwrap_or(false)
                        });
                        if !ra {
                            return Err(v("mld-no-router-alert", format!("MLD type {} without a hop-by-hop router alert option", i.ty)));
                        }
                    }
                    if i.ty == 143 {
                        let n = u16::from_be_bytes([i.rest[2], i.rest[3]]) as usize;
                        if i.rest[0..2] != [0, 0] {
                            return Err(v("mld-reserved-not-zero", format!("{:02x?}", i.rest)));
                        }
                        // records: 20 octets + sources + aux
                        let mut at = 0;
                        for _ in 0..n {
                            if at + 20 > i.body.len() {
                                return Err(v("mld-records-truncated", format!("{} records announced, body {} octets", n, i.body.len())));
                            }
                            let aux = i.body[at + 1] as usize * 4;
                            let ns = u16::from_be_bytes([i.body[at + 2], i.body[at + 3]]) as usize;
                            at += 20 + ns * 16 + aux;
                        }
                        if at != i.body.len() {
                            return Err(v("mld-records-length", format!("records end at {} of {} octets", at, i.body.len())));
                        }
                    }
                    unspec_ok = true;
                }
                _ => {}
            }
            if !raw {
                src_legal(cx, &src, unspec_ok, "ICMPv6 message")?;
            }
            chain = format!("ipv6/icmpv6-{}", i.ty);
        }
        p => {
            if !raw {
                src_legal(cx, &src, false, "IP packet")?;
            }
            chain = format!("{}/proto-{}", fam, p);
        }
    }
    Ok(FrameSummary { chain, len: 0 })
}
