//! TCP segment codec (independent of smoltcp::wire) and sequence arithmetic.

use super::*;

pub const FIN: u8 = 0x01;
pub const SYN: u8 = 0x02;
pub const RST: u8 = 0x04;
pub const PSH: u8 = 0x08;
pub const ACK: u8 = 0x10;
pub const URG: u8 = 0x20;

#[derive(Clone, Debug, PartialEq, Eq)]
pub enum TcpOpt {
    Eol,
    Nop,
    Mss(u16),
    Ws(u8),
    SackPerm,
    Sack(Vec<(u32, u32)>),
    Ts(u32, u32),
    Unknown(u8, Vec<u8>),
}

#[derive(Clone, Debug, PartialEq, Eq)]
pub struct Tcp {
    pub sport: u16,
    pub dport: u16,
    pub seq: u32,
    pub ack: u32,
    pub flags: u8,
    pub win: u16,
    pub urg: u16,
    pub opts: Vec<TcpOpt>,
    pub payload: Vec<u8>,
}

impl Tcp {
    pub fn new(sport: u16, dport: u16, seq: u32, ack: Option<u32>, flags: u8, win: u16) -> Tcp {
        Tcp {
            sport,
            dport,
            seq,
            ack: ack.unwrap_or(0),
            flags: flags | if ack.is_some() { ACK } else { 0 },
            win,
            urg: 0,
            opts: vec![],
            payload: vec![],
        }
    }
    pub fn has(&self, f: u8) -> bool {
        self.flags & f != 0
    }
    pub fn mss(&self) -> Option<u16> {
        self.opts.iter().find_map(|o| if let TcpOpt::Mss(m) = o { Some(*m) } else { None })
    }
    pub fn ws(&self) -> Option<u8> {
        self.opts.iter().find_map(|o| if let TcpOpt::Ws(m) = o { Some(*m) } else { None })
    }
    pub fn ts(&self) -> Option<(u32, u32)> {
        self.opts.iter().find_map(|o| if let TcpOpt::Ts(a, b) = o { Some((*a, *b)) } else { None })
    }
    pub fn sack_perm(&self) -> bool {
        self.opts.iter().any(|o| matches!(o, TcpOpt::SackPerm))
    }
    /// sequence space occupied
    pub fn seg_len(&self) -> u32 {
        self.payload.len() as u32 + self.has(SYN) as u32 + self.has(FIN) as u32
    }
    pub fn opt_bytes(&self) -> Vec<u8> {
        let mut o = vec![];
        for opt in &self.opts {
            match opt {
                TcpOpt::Eol => o.push(0),
                TcpOpt::Nop => o.push(1),
                TcpOpt::Mss(m) => {
                    o.extend_from_slice(&[2, 4]);
                    o.extend_from_slice(&m.to_be_bytes());
                }
                TcpOpt::Ws(s) => o.extend_from_slice(&[3, 3, *s]),
                TcpOpt::SackPerm => o.extend_from_slice(&[4, 2]),
                TcpOpt::Sack(r) => {
                    o.extend_from_slice(&[5, (2 + 8 * r.len()) as u8]);
                    for (a, b) in r {
                        o.extend_from_slice(&a.to_be_bytes());
                        o.extend_from_slice(&b.to_be_bytes());
                    }
                }
                TcpOpt::Ts(a, b) => {
                    o.extend_from_slice(&[8, 10]);
                    o.extend_from_slice(&a.to_be_bytes());
                    o.extend_from_slice(&b.to_be_bytes());
                }
                TcpOpt::Unknown(k, d) => {
                    o.extend_from_slice(&[*k, (2 + d.len()) as u8]);
                    o.extend_from_slice(d);
                }
            }
        }
        while o.len() % 4 != 0 {
            o.push(0);
        }
        assert!(o.len() <= 40, "tcp options too long");
        o
    }
    pub fn encode(&self, src: &Ip, dst: &Ip) -> Vec<u8> {
        let o = self.opt_bytes();
        let doff = 5 + o.len() / 4;
        let mut b = vec![0u8; 20];
        b[0..2].copy_from_slice(&self.sport.to_be_bytes());
        b[2..4].copy_from_slice(&self.dport.to_be_bytes());
        b[4..8].copy_from_slice(&self.seq.to_be_bytes());
        b[8..12].copy_from_slice(&self.ack.to_be_bytes());
        b[12] = (doff as u8) << 4;
        b[13] = self.flags;
        b[14..16].copy_from_slice(&self.win.to_be_bytes());
        b[18..20].copy_from_slice(&self.urg.to_be_bytes());
        b.extend_from_slice(&o);
        b.extend_from_slice(&self.payload);
        let c = l4_checksum(src, dst, PROTO_TCP, &b);
        b[16..18].copy_from_slice(&c.to_be_bytes());
        b
    }
}

pub struct TcpDecoded {
    pub seg: Tcp,
    /// bytes of options area (data offset*4 - 20)
    pub opt_len: usize,
    /// option list is well-formed: every option fits, list ends at EOL/padding or exactly
    pub opts_wellformed: bool,
}

/// Decode a TCP segment, verifying the checksum.
pub fn decode_tcp(b: &[u8], src: &Ip, dst: &Ip) -> Result<TcpDecoded, String> {
    if b.len() < 20 {
        return Err("tcp: shorter than header".into());
    }
    let doff = (b[12] >> 4) as usize * 4;
    if doff < 20 || doff > b.len() {
        return Err(format!("tcp: data offset {} vs {} bytes", doff, b.len()));
    }
    if !l4_verify(src, dst, PROTO_TCP, b) {
        return Err("tcp: checksum does not verify".into());
    }
    let mut opts = vec![];
    let mut well = true;
    let o = &b[20..doff];
    let mut at = 0;
    while at < o.len() {
        match o[at] {
            0 => {
                // everything after EOL must be zero padding
                if o[at..].iter().any(|x| *x != 0) {
                    well = false;
                }
                opts.push(TcpOpt::Eol);
                break;
            }
            1 => {
                opts.push(TcpOpt::Nop);
                at += 1;
            }
            k => {
                if at + 2 > o.len() {
                    well = false;
                    break;
                }
                let l = o[at + 1] as usize;
                if l < 2 || at + l > o.len() {
                    well = false;
                    break;
                }
                let d = &o[at + 2..at + l];
                let opt = match (k, d.len()) {
                    (2, 2) => TcpOpt::Mss(u16::from_be_bytes([d[0], d[1]])),
                    (3, 1) => TcpOpt::Ws(d[0]),
                    (4, 0) => TcpOpt::SackPerm,
                    (5, n) if n % 8 == 0 && n > 0 => TcpOpt::Sack(
                        d.chunks(8)
                            .map(|c| (u32::from_be_bytes([c[0], c[1], c[2], c[3]]), u32::from_be_bytes([c[4], c[5], c[6], c[7]])))
                            .collect(),
                    ),
                    (8, 8) => TcpOpt::Ts(u32::from_be_bytes([d[0], d[1], d[2], d[3]]), u32::from_be_bytes([d[4], d[5], d[6], d[7]])),
                    (2..=5 | 8, _) => {
                        well = false;
                        TcpOpt::Unknown(k, d.to_vec())
                    }
                    _ => TcpOpt::Unknown(k, d.to_vec()),
                };
                opts.push(opt);
                at += l;
            }
        }
    }
    Ok(TcpDecoded {
        seg: Tcp {
            sport: u16::from_be_bytes([b[0], b[1]]),
            dport: u16::from_be_bytes([b[2], b[3]]),
            seq: u32::from_be_bytes([b[4], b[5], b[6], b[7]]),
            ack: u32::from_be_bytes([b[8], b[9], b[10], b[11]]),
            flags: b[13] & 0x3f,
            win: u16::from_be_bytes([b[14], b[15]]),
            urg: u16::from_be_bytes([b[18], b[19]]),
            opts,
            payload: b[doff..].to_vec(),
        },
        opt_len: doff - 20,
        opts_wellformed: well,
    })
}

/// Serial number arithmetic (RFC 1982 style, 32 bit): a < b
pub fn seq_lt(a: u32, b: u32) -> bool {
    (a.wrapping_sub(b) as i32) < 0
}
pub fn seq_le(a: u32, b: u32) -> bool {
    (a.wrapping_sub(b) as i32) <= 0
}
/// b - a as signed distance
pub fn seq_diff(b: u32, a: u32) -> i64 {
    (b.wrapping_sub(a) as i32) as i64
}

pub fn flags_str(f: u8) -> String {
    let mut s = String::new();
    for (bit, c) in [(SYN, 'S'), (FIN, 'F'), (RST, 'R'), (PSH, 'P'), (ACK, 'A'), (URG, 'U')] {
        if f & bit != 0 {
            s.push(c);
        }
    }
    if s.is_empty() {
        s.push('-');
    }
    s
}

impl std::fmt::Display for Tcp {
    fn fmt(&self, f: &mut std::fmt::Formatter<'_>) -> std::fmt::Result {
        write!(
            f,
            "tcp {}->{} [{}] seq={} ack={} win={} len={} opts={:?}",
            self.sport,
            self.dport,
            flags_str(self.flags),
            self.seq,
            self.ack,
            self.win,
            self.payload.len(),
            self.opts
        )
    }
}
