//! IPv4 / IPv6 / UDP / ICMP codecs (independent of smoltcp::wire).

use super::*;

// ------------------------------------------------------------------ IPv4

#[derive(Clone, Debug, PartialEq, Eq)]
pub struct Ip4 {
    pub src: [u8; 4],
    pub dst: [u8; 4],
    pub proto: u8,
    pub ttl: u8,
    pub tos: u8,
    pub id: u16,
    pub df: bool,
    pub mf: bool,
    /// fragment offset in bytes
    pub frag_off: usize,
    pub options: Vec<u8>,
    pub payload: Vec<u8>,
}

impl Ip4 {
    pub fn new(src: [u8; 4], dst: [u8; 4], proto: u8, payload: Vec<u8>) -> Ip4 {
        Ip4 {
            src,
            dst,
            proto,
            ttl: 64,
            tos: 0,
            id: 0,
            df: false,
            mf: false,
            frag_off: 0,
            options: vec![],
            payload,
        }
    }
    pub fn encode(&self) -> Vec<u8> {
        assert!(self.options.len() % 4 == 0 && self.options.len() <= 40);
        assert!(self.frag_off % 8 == 0);
        let ihl = 5 + self.options.len() / 4;
        let total = ihl * 4 + self.payload.len();
        let mut b = vec![0u8; ihl * 4];
        b[0] = 0x40 | ihl as u8;
        b[1] = self.tos;
        b[2..4].copy_from_slice(&(total as u16).to_be_bytes());
        b[4..6].copy_from_slice(&self.id.to_be_bytes());
        let fo = ((self.frag_off / 8) as u16) | if self.df { 0x4000 } else { 0 } | if self.mf { 0x2000 } else { 0 };
        b[6..8].copy_from_slice(&fo.to_be_bytes());
        b[8] = self.ttl;
        b[9] = self.proto;
        b[12..16].copy_from_slice(&self.src);
        b[16..20].copy_from_slice(&self.dst);
        b[20..20 + self.options.len()].copy_from_slice(&self.options);
        let c = !ocsum(&b);
        b[10..12].copy_from_slice(&c.to_be_bytes());
        b.extend_from_slice(&self.payload);
        b
    }
}

/// Strict IPv4 decoder. `exact` demands that total length equals the buffer length.
pub fn decode_ip4(b: &[u8], exact: bool) -> Result<Ip4, String> {
    if b.len() < 20 {
        return Err(format!("ipv4: {} bytes is shorter than a header", b.len()));
    }
    if b[0] >> 4 != 4 {
        return Err(format!("ipv4: version {}", b[0] >> 4));
    }
    let ihl = (b[0] & 0xf) as usize * 4;
    if ihl < 20 {
        return Err(format!("ipv4: IHL {} < 20", ihl));
    }
    let total = u16::from_be_bytes([b[2], b[3]]) as usize;
    if total < ihl {
        return Err(format!("ipv4: total length {} < IHL {}", total, ihl));
    }
    if total > b.len() {
        return Err(format!("ipv4: total length {} > buffer {}", total, b.len()));
    }
    if exact && total != b.len() {
        return Err(format!("ipv4: total length {} != frame payload {}", total, b.len()));
    }
    if ocsum(&b[..ihl]) != 0xffff {
        return Err("ipv4: header checksum does not verify".into());
    }
    let fo = u16::from_be_bytes([b[6], b[7]]);
    if fo & 0x8000 != 0 {
        return Err("ipv4: reserved flag set".into());
    }
    Ok(Ip4 {
        src: [b[12], b[13], b[14], b[15]],
        dst: [b[16], b[17], b[18], b[19]],
        proto: b[9],
        ttl: b[8],
        tos: b[1],
        id: u16::from_be_bytes([b[4], b[5]]),
        df: fo & 0x4000 != 0,
        mf: fo & 0x2000 != 0,
        frag_off: ((fo & 0x1fff) as usize) * 8,
        options: b[20..ihl].to_vec(),
        payload: b[ihl..total].to_vec(),
    })
}

// ------------------------------------------------------------------ IPv6

#[derive(Clone, Debug, PartialEq, Eq)]
pub struct ExtHdr {
    /// protocol number of this extension header (0 hop-by-hop, 43 routing, 44 fragment, 60 dest opts)
    pub kind: u8,
    /// body after the (next header, length) bytes
    pub body: Vec<u8>,
}

#[derive(Clone, Debug, PartialEq, Eq)]
pub struct Ip6 {
    pub src: [u8; 16],
    pub dst: [u8; 16],
    pub tc: u8,
    pub flow: u32,
    pub hop: u8,
    /// extension headers in order
    pub ext: Vec<ExtHdr>,
    /// upper layer protocol (next header of the last extension header)
    pub proto: u8,
    pub payload: Vec<u8>,
}

impl Ip6 {
    pub fn new(src: [u8; 16], dst: [u8; 16], proto: u8, payload: Vec<u8>) -> Ip6 {
        Ip6 {
            src,
            dst,
            tc: 0,
            flow: 0,
            hop: 64,
            ext: vec![],
            proto,
            payload,
        }
    }
    pub fn encode(&self) -> Vec<u8> {
        let mut body = vec![];
        let mut first = self.proto;
        for (i, e) in self.ext.iter().enumerate() {
            if i == 0 {
                first = e.kind;
            }
            let next = self.ext.get(i + 1).map(|n| n.kind).unwrap_or(self.proto);
            assert!((e.body.len() + 2) % 8 == 0, "extension header not a multiple of 8");
            body.push(next);
            body.push(((e.body.len() + 2) / 8 - 1) as u8);
            body.extend_from_slice(&e.body);
        }
        body.extend_from_slice(&self.payload);
        let mut b = vec![0u8; 40];
        b[0] = 0x60 | (self.tc >> 4);
        b[1] = (self.tc << 4) | ((self.flow >> 16) as u8 & 0xf);
        b[2] = (self.flow >> 8) as u8;
        b[3] = self.flow as u8;
        b[4..6].copy_from_slice(&(body.len() as u16).to_be_bytes());
        b[6] = first;
        b[7] = self.hop;
        b[8..24].copy_from_slice(&self.src);
        b[24..40].copy_from_slice(&self.dst);
        b.extend_from_slice(&body);
        b
    }
}

pub fn decode_ip6(b: &[u8], exact: bool) -> Result<Ip6, String> {
    if b.len() < 40 {
        return Err(format!("ipv6: {} bytes is shorter than a header", b.len()));
    }
    if b[0] >> 4 != 6 {
        return Err(format!("ipv6: version {}", b[0] >> 4));
    }
    let plen = u16::from_be_bytes([b[4], b[5]]) as usize;
    if 40 + plen > b.len() {
        return Err(format!("ipv6: payload length {} > buffer {}", plen, b.len() - 40));
    }
    if exact && 40 + plen != b.len() {
        return Err(format!("ipv6: payload length {} != frame payload {}", plen, b.len() - 40));
    }
    let mut src = [0u8; 16];
    src.copy_from_slice(&b[8..24]);
    let mut dst = [0u8; 16];
    dst.copy_from_slice(&b[24..40]);
    let mut next = b[6];
    let mut at = 40;
    let end = 40 + plen;
    let mut ext = vec![];
    loop {
        match next {
            PROTO_HOPOPT | PROTO_V6ROUTE | PROTO_V6OPTS => {
                if at + 8 > end {
                    return Err("ipv6: truncated extension header".into());
                }
                let l = (b[at + 1] as usize + 1) * 8;
                if at + l > end {
                    return Err("ipv6: extension header overruns payload".into());
                }
                ext.push(ExtHdr {
                    kind: next,
                    body: b[at + 2..at + l].to_vec(),
                });
                next = b[at];
                at += l;
            }
            PROTO_V6FRAG => {
                if at + 8 > end {
                    return Err("ipv6: truncated fragment header".into());
                }
                ext.push(ExtHdr {
                    kind: next,
                    body: b[at + 2..at + 8].to_vec(),
                });
                next = b[at];
                at += 8;
            }
            _ => break,
        }
    }
    Ok(Ip6 {
        src,
        dst,
        tc: (b[0] << 4) | (b[1] >> 4),
        flow: (((b[1] & 0xf) as u32) << 16) | ((b[2] as u32) << 8) | b[3] as u32,
        hop: b[7],
        ext,
        proto: next,
        payload: b[at..end].to_vec(),
    })
}

/// Check a hop-by-hop / destination options body: TLVs fill it exactly.
pub fn check_tlv_options(body: &[u8]) -> Result<Vec<(u8, Vec<u8>)>, String> {
    let mut at = 0;
    let mut out = vec![];
    while at < body.len() {
        let t = body[at];
        if t == 0 {
            // Pad1
            at += 1;
            out.push((0, vec![]));
            continue;
        }
        if at + 2 > body.len() {
            return Err("ipv6 options: truncated TLV".into());
        }
        let l = body[at + 1] as usize;
        if at + 2 + l > body.len() {
            return Err("ipv6 options: TLV overruns header".into());
        }
        out.push((t, body[at + 2..at + 2 + l].to_vec()));
        at += 2 + l;
    }
    Ok(out)
}

// ------------------------------------------------------------------ generic IP

#[derive(Clone, Debug, PartialEq, Eq)]
pub enum IpPkt {
    V4(Ip4),
    V6(Ip6),
}

impl IpPkt {
    pub fn src(&self) -> Ip {
        match self {
            IpPkt::V4(p) => Ip::V4(p.src),
            IpPkt::V6(p) => Ip::V6(p.src),
        }
    }
    pub fn dst(&self) -> Ip {
        match self {
            IpPkt::V4(p) => Ip::V4(p.dst),
            IpPkt::V6(p) => Ip::V6(p.dst),
        }
    }
    pub fn proto(&self) -> u8 {
        match self {
            IpPkt::V4(p) => p.proto,
            IpPkt::V6(p) => p.proto,
        }
    }
    pub fn payload(&self) -> &[u8] {
        match self {
            IpPkt::V4(p) => &p.payload,
            IpPkt::V6(p) => &p.payload,
        }
    }
    pub fn hop(&self) -> u8 {
        match self {
            IpPkt::V4(p) => p.ttl,
            IpPkt::V6(p) => p.hop,
        }
    }
    pub fn is_fragment(&self) -> bool {
        match self {
            IpPkt::V4(p) => p.mf || p.frag_off != 0,
            IpPkt::V6(p) => p.ext.iter().any(|e| e.kind == PROTO_V6FRAG),
        }
    }
    pub fn encode(&self) -> Vec<u8> {
        match self {
            IpPkt::V4(p) => p.encode(),
            IpPkt::V6(p) => p.encode(),
        }
    }
    pub fn build(src: Ip, dst: Ip, proto: u8, hop: u8, payload: Vec<u8>) -> IpPkt {
        match (src, dst) {
            (Ip::V4(s), Ip::V4(d)) => {
                let mut p = Ip4::new(s, d, proto, payload);
                p.ttl = hop;
                IpPkt::V4(p)
            }
            (Ip::V6(s), Ip::V6(d)) => {
                let mut p = Ip6::new(s, d, proto, payload);
                p.hop = hop;
                IpPkt::V6(p)
            }
            _ => panic!("mixed families"),
        }
    }
}

pub fn decode_ip(b: &[u8], exact: bool) -> Result<IpPkt, String> {
    if b.is_empty() {
        return Err("ip: empty".into());
    }
    match b[0] >> 4 {
        4 => decode_ip4(b, exact).map(IpPkt::V4),
        6 => decode_ip6(b, exact).map(IpPkt::V6),
        v => Err(format!("ip: version {}", v)),
    }
}

// ------------------------------------------------------------------ UDP

#[derive(Clone, Debug, PartialEq, Eq)]
pub struct Udp {
    pub sport: u16,
    pub dport: u16,
    pub payload: Vec<u8>,
    /// checksum field as found on the wire (decode) / None = compute (encode)
    pub csum: Option<u16>,
}

impl Udp {
    pub fn new(sport: u16, dport: u16, payload: Vec<u8>) -> Udp {
        Udp {
            sport,
            dport,
            payload,
            csum: None,
        }
    }
    pub fn encode(&self, src: &Ip, dst: &Ip) -> Vec<u8> {
        let len = 8 + self.payload.len();
        let mut b = vec![0u8; 8];
        b[0..2].copy_from_slice(&self.sport.to_be_bytes());
        b[2..4].copy_from_slice(&self.dport.to_be_bytes());
        b[4..6].copy_from_slice(&(len as u16).to_be_bytes());
        b.extend_from_slice(&self.payload);
        let c = match self.csum {
            Some(c) => c,
            None => {
                let c = l4_checksum(src, dst, PROTO_UDP, &b);
                if c == 0 {
                    0xffff
                } else {
                    c
                }
            }
        };
        b[6..8].copy_from_slice(&c.to_be_bytes());
        b
    }
}

/// Decode UDP; Err on bad length or bad checksum (zero checksum accepted only over IPv4).
pub fn decode_udp(b: &[u8], src: &Ip, dst: &Ip) -> Result<Udp, String> {
    if b.len() < 8 {
        return Err("udp: shorter than header".into());
    }
    let len = u16::from_be_bytes([b[4], b[5]]) as usize;
    if len < 8 || len > b.len() {
        return Err(format!("udp: length field {} vs {} bytes", len, b.len()));
    }
    if len != b.len() {
        return Err(format!("udp: length field {} != IP payload {}", len, b.len()));
    }
    let c = u16::from_be_bytes([b[6], b[7]]);
    if c == 0 {
        if !src.is_v4() {
            return Err("udp: zero checksum over IPv6".into());
        }
    } else if !l4_verify(src, dst, PROTO_UDP, &b[..len]) {
        return Err("udp: checksum does not verify".into());
    }
    Ok(Udp {
        sport: u16::from_be_bytes([b[0], b[1]]),
        dport: u16::from_be_bytes([b[2], b[3]]),
        payload: b[8..len].to_vec(),
        csum: Some(c),
    })
}

// ------------------------------------------------------------------ ICMP

#[derive(Clone, Debug, PartialEq, Eq)]
pub struct Icmp {
    pub ty: u8,
    pub code: u8,
    /// the 4 bytes after the checksum
    pub rest: [u8; 4],
    pub body: Vec<u8>,
}

impl Icmp {
    pub fn echo(v6: bool, request: bool, ident: u16, seq: u16, data: Vec<u8>) -> Icmp {
        let ty = match (v6, request) {
            (false, true) => 8,
            (false, false) => 0,
            (true, true) => 128,
            (true, false) => 129,
        };
        let mut rest = [0u8; 4];
        rest[0..2].copy_from_slice(&ident.to_be_bytes());
        rest[2..4].copy_from_slice(&seq.to_be_bytes());
        Icmp {
            ty,
            code: 0,
            rest,
            body: data,
        }
    }
    pub fn ident(&self) -> u16 {
        u16::from_be_bytes([self.rest[0], self.rest[1]])
    }
    pub fn seq(&self) -> u16 {
        u16::from_be_bytes([self.rest[2], self.rest[3]])
    }
    pub fn encode4(&self) -> Vec<u8> {
        let mut b = vec![self.ty, self.code, 0, 0];
        b.extend_from_slice(&self.rest);
        b.extend_from_slice(&self.body);
        let c = !ocsum(&b);
        b[2..4].copy_from_slice(&c.to_be_bytes());
        b
    }
    pub fn encode6(&self, src: &Ip, dst: &Ip) -> Vec<u8> {
        let mut b = vec![self.ty, self.code, 0, 0];
        b.extend_from_slice(&self.rest);
        b.extend_from_slice(&self.body);
        let c = l4_checksum(src, dst, PROTO_ICMPV6, &b);
        b[2..4].copy_from_slice(&c.to_be_bytes());
        b
    }
    /// ICMPv4: error message types
    pub fn is_error4(&self) -> bool {
        matches!(self.ty, 3 | 4 | 5 | 11 | 12)
    }
    /// ICMPv6: error messages have type < 128
    pub fn is_error6(&self) -> bool {
        self.ty < 128
    }
}

pub fn decode_icmp4(b: &[u8]) -> Result<Icmp, String> {
    if b.len() < 8 {
        return Err("icmpv4: shorter than header".into());
    }
    if ocsum(b) != 0xffff {
        return Err("icmpv4: checksum does not verify".into());
    }
    Ok(Icmp {
        ty: b[0],
        code: b[1],
        rest: [b[4], b[5], b[6], b[7]],
        body: b[8..].to_vec(),
    })
}

pub fn decode_icmp6(b: &[u8], src: &Ip, dst: &Ip) -> Result<Icmp, String> {
    if b.len() < 4 {
        return Err("icmpv6: shorter than header".into());
    }
    if !l4_verify(src, dst, PROTO_ICMPV6, b) {
        return Err("icmpv6: checksum does not verify".into());
    }
    if b.len() < 8 {
        return Err("icmpv6: shorter than 8 bytes".into());
    }
    Ok(Icmp {
        ty: b[0],
        code: b[1],
        rest: [b[4], b[5], b[6], b[7]],
        body: b[8..].to_vec(),
    })
}

// ------------------------------------------------------------------ IPv4 reassembly (reference)

/// Reference IPv4 reassembler keyed by (src,dst,proto,id). Feed fragments, get
/// completed datagrams (as unfragmented Ip4). Overlaps must agree.
#[derive(Default)]
pub struct Reasm4 {
    parts: std::collections::BTreeMap<([u8; 4], [u8; 4], u8, u16), ReasmEntry>,
}

#[derive(Default)]
struct ReasmEntry {
    data: Vec<Option<u8>>,
    total: Option<usize>,
    first: Option<Ip4>,
}

impl Reasm4 {
    pub fn new() -> Reasm4 {
        Reasm4::default()
    }
    pub fn pending(&self) -> usize {
        self.parts.len()
    }
    /// Returns Ok(Some(datagram)) when a datagram completes; Err on inconsistent fragments.
    pub fn push(&mut self, p: &Ip4) -> Result<Option<Ip4>, String> {
        if !p.mf && p.frag_off == 0 {
            return Ok(Some(p.clone()));
        }
        let key = (p.src, p.dst, p.proto, p.id);
        let e = self.parts.entry(key).or_default();
        if p.mf && p.payload.len() % 8 != 0 {
            return Err(format!("fragment with MF has payload length {} not a multiple of 8", p.payload.len()));
        }
        let end = p.frag_off + p.payload.len();
        if e.data.len() < end {
            e.data.resize(end, None);
        }
        for (i, b) in p.payload.iter().enumerate() {
            let slot = &mut e.data[p.frag_off + i];
            if let Some(old) = slot {
                if *old != *b {
                    return Err(format!("overlapping fragments disagree at offset {}", p.frag_off + i));
                }
            }
            *slot = Some(*b);
        }
        if !p.mf {
            if let Some(t) = e.total {
                if t != end {
                    return Err(format!("two last fragments with different ends {} and {}", t, end));
                }
            }
            e.total = Some(end);
        }
        if p.frag_off == 0 {
            e.first = Some(p.clone());
        }
        if let Some(t) = e.total {
            if e.data.len() > t {
                return Err(format!("fragment data beyond the last fragment's end {}", t));
            }
            if e.data.len() == t && e.data.iter().all(|b| b.is_some()) && e.first.is_some() {
                let e = self.parts.remove(&key).unwrap();
                let mut out = e.first.unwrap();
                out.mf = false;
                out.frag_off = 0;
                out.payload = e.data.into_iter().map(|b| b.unwrap()).collect();
                return Ok(Some(out));
            }
        }
        Ok(None)
    }
}
