//! Non-termination detector for single calls into smoltcp (C03: `Interface::poll` must
//! return; C19: parsing must terminate).
//!
//! A loop inside smoltcp never returns to the case function, so a second thread is needed.
//! Every guarded call is bracketed by `arm()` / `disarm()`. The verdict is NOT based on
//! wall-clock time (a descheduled thread on an oversubscribed machine would look hung):
//! the watchdog measures the CPU time the calling thread has consumed inside this one call
//! (/proc/self/task/<tid>/stat). A call that burns more than the limit - tens of thousands
//! of times what any legitimate call needs - is a violation and its tape is written as a
//! replay file. A call that stays armed for a long wall-clock time WITHOUT consuming CPU
//! says nothing about smoltcp: the process ends with exit code 2 (inconclusive).

use crate::runner::{out_root, write_replay, Fail};
use crate::{Digest, Src};
use std::sync::atomic::{AtomicU64, Ordering};
use std::sync::{Arc, Mutex, Once};

struct Info {
    prop: &'static str,
    part: &'static str,
    what: &'static str,
    key: &'static str,
    cpu_limit_ms: u64,
}

struct Slot {
    /// milliseconds since EPOCH (+1) at which the current call began; 0 = idle
    since: AtomicU64,
    tid: u64,
    tape: Mutex<Vec<u64>>,
    info: Mutex<Info>,
}

static SLOTS: Mutex<Vec<Arc<Slot>>> = Mutex::new(Vec::new());
static WATCHDOG: Once = Once::new();

/// wall-clock time after which an armed call that consumed no CPU is given up as inconclusive
const STALL_WALL_MS: u64 = 300_000;

fn epoch() -> std::time::Instant {
    static EPOCH: std::sync::OnceLock<std::time::Instant> = std::sync::OnceLock::new();
    *EPOCH.get_or_init(std::time::Instant::now)
}

fn my_tid() -> u64 {
    // "/proc/thread-self" -> "<pid>/task/<tid>"
    std::fs::read_link("/proc/thread-self").ok().and_then(|p| p.file_name().and_then(|n| n.to_str().and_then(|s| s.parse().ok()))).unwrap_or(0)
}

/// CPU time (user + system) consumed so far by thread `tid` of this process, in ms.
fn thread_cpu_ms(tid: u64) -> Option<u64> {
    if tid == 0 {
        return None;
    }
    let s = std::fs::read_to_string(format!("/proc/self/task/{}/stat", tid)).ok()?;
    // the command name (field 2) may contain spaces: fields are counted after the last ')'
    let rest = &s[s.rfind(')')? + 1..];
    let f: Vec<&str> = rest.split_whitespace().collect();
    // rest starts at field 3 (state); utime = field 14, stime = field 15
    let ut: u64 = f.get(11)?.parse().ok()?;
    let st: u64 = f.get(12)?.parse().ok()?;
    // USER_HZ is 100 on Linux
    Some((ut + st) * 10)
}

thread_local! {
    static MY_SLOT: Arc<Slot> = {
        let s = Arc::new(Slot {
            since: AtomicU64::new(0),
            tid: my_tid(),
            tape: Mutex::new(Vec::new()),
            info: Mutex::new(Info { prop: "", part: "", what: "", key: "hang", cpu_limit_ms: 5_000 }),
        });
        SLOTS.lock().unwrap().push(s.clone());
        s
    };
}

fn watchdog_main() {
    // per slot: (value of `since` first seen, CPU time of the thread at that moment)
    let mut seen: Vec<(u64, Option<u64>)> = vec![];
    loop {
        std::thread::sleep(std::time::Duration::from_millis(250));
        let now = epoch().elapsed().as_millis() as u64;
        let slots: Vec<Arc<Slot>> = SLOTS.lock().unwrap().clone();
        seen.resize(slots.len(), (0, None));
        for (i, s) in slots.iter().enumerate() {
            let since = s.since.load(Ordering::SeqCst);
            if since == 0 {
                seen[i] = (0, None);
                continue;
            }
            if seen[i].0 != since {
                seen[i] = (since, thread_cpu_ms(s.tid));
                continue;
            }
            let (prop, part, what, key, limit) = {
                let inf = s.info.lock().unwrap();
                (inf.prop, inf.part, inf.what, inf.key, inf.cpu_limit_ms)
            };
            let burnt = match (seen[i].1, thread_cpu_ms(s.tid)) {
                (Some(a), Some(b)) => Some(b.saturating_sub(a)),
                _ => None,
            };
            // the call is still the same one (since unchanged); re-check to avoid racing a disarm
            if s.since.load(Ordering::SeqCst) != since {
                continue;
            }
            match burnt {
                Some(ms) if ms >= limit => {
                    let tape = s.tape.lock().unwrap().clone();
                    let mut d = Digest::new();
                    d.str("hang");
                    for v in &tape {
                        d.u64(*v);
                    }
                    let path = format!("{}/replays/new/{}-{:016x}.tape", out_root(), prop, d.finish());
                    let f = Fail::new(key, format!("a single {} has consumed more than {} ms of CPU time without returning (tape = the draws made before that call; replaying it hangs again)", what, ms));
                    write_replay(&path, prop, part, &tape, &f, &[]);
                    println!("failure key={} part={} : {}", f.key, part, f.msg);
                    println!("VIOLATION property={} replay={}", prop, path);
                    std::process::exit(1);
                }
                _ => {
                    if now > since + STALL_WALL_MS {
                        println!(
                            "HARNESS-PROBLEM: a single {} has been running for more than {} s of wall-clock time but consumed only {:?} ms of CPU: the machine is starved or CPU accounting is unavailable; no verdict (inconclusive)",
                            what,
                            STALL_WALL_MS / 1000,
                            burnt
                        );
                        std::process::exit(2);
                    }
                }
            }
        }
    }
}

/// Mark the beginning of one call into smoltcp made by this thread.
pub fn arm(src: &Src, prop: &'static str, part: &'static str, what: &'static str, key: &'static str, cpu_limit_ms: u64) {
    arm_with(|t| t.extend(src.tape.iter().map(|v| v.0)), prop, part, what, key, cpu_limit_ms)
}

/// Same for cases that are enumerated rather than drawn: `tape` is their replay form.
pub fn arm_tape(tape: &[u64], prop: &'static str, part: &'static str, what: &'static str, key: &'static str, cpu_limit_ms: u64) {
    arm_with(|t| t.extend_from_slice(tape), prop, part, what, key, cpu_limit_ms)
}

fn arm_with(fill: impl FnOnce(&mut Vec<u64>), prop: &'static str, part: &'static str, what: &'static str, key: &'static str, cpu_limit_ms: u64) {
    WATCHDOG.call_once(|| {
        let _ = epoch();
        std::thread::spawn(watchdog_main);
    });
    MY_SLOT.with(|s| {
        {
            let mut t = s.tape.lock().unwrap();
            t.clear();
            fill(&mut t);
        }
        {
            let mut inf = s.info.lock().unwrap();
            *inf = Info { prop, part, what, key, cpu_limit_ms };
        }
        s.since.store(epoch().elapsed().as_millis() as u64 + 1, Ordering::SeqCst);
    });
}

/// Mark the end of the call; returns its wall-clock duration in ms (for statistics only).
pub fn disarm() -> u64 {
    MY_SLOT.with(|s| {
        let since = s.since.swap(0, Ordering::SeqCst);
        (epoch().elapsed().as_millis() as u64 + 1).saturating_sub(since)
    })
}
