//! Property runner: sharded generation, known findings, shrinking, replay files,
//! evidence files.

use crate::tape::{mix, Digest, Src};
use serde_json::{json, Value};
use std::cell::RefCell;
use std::collections::{BTreeMap, BTreeSet, HashSet};
use std::panic::{catch_unwind, AssertUnwindSafe};
use std::sync::atomic::{AtomicBool, AtomicU64, Ordering};
use std::sync::Mutex;
use std::time::Instant;

pub const ENGINE_VERSION: u32 = 1;
pub const VERIF_ROOT: &str = "/verif";

/// where evidence and new replay files are written (VERIF_OUT overrides, for scratch runs)
pub fn out_root() -> String {
    std::env::var("VERIF_OUT").unwrap_or_else(|_| VERIF_ROOT.to_string())
}

#[derive(Clone, Debug)]
pub struct Fail {
    /// root-cause key, stable across unrelated edits
    pub key: String,
    pub msg: String,
}

impl Fail {
    pub fn new(key: impl Into<String>, msg: impl Into<String>) -> Fail {
        Fail {
            key: key.into(),
            msg: msg.into(),
        }
    }
}

#[macro_export]
macro_rules! vfail {
    ($key:expr, $($arg:tt)*) => {
        return Err($crate::runner::Fail::new($key, format!($($arg)*)))
    };
}

#[macro_export]
macro_rules! vensure {
    ($cond:expr, $key:expr, $($arg:tt)*) => {
        if !($cond) {
            return Err($crate::runner::Fail::new($key, format!($($arg)*)));
        }
    };
}

/// Per-case collector.
pub struct Ctx {
    /// when set, `note` closures are evaluated and collected into `desc`
    pub verbose: bool,
    pub labels: BTreeSet<String>,
    pub nontrivial: bool,
    pub digest: Digest,
    pub desc: Vec<String>,
    /// failures matching an open known finding met inside the case and skipped
    pub known_hits: Vec<String>,
    /// set by a case that could not reach a verdict (budget) - never a violation
    pub inconclusive: bool,
    /// keys of open known findings (so a case can continue past them)
    pub known_open: std::sync::Arc<Vec<String>>,
    /// strict mode: known findings are reported as failures (used for replay)
    pub strict: bool,
    pub counters: BTreeMap<String, u64>,
}

impl Ctx {
    pub fn new(verbose: bool, known_open: std::sync::Arc<Vec<String>>, strict: bool) -> Ctx {
        Ctx {
            verbose,
            labels: BTreeSet::new(),
            nontrivial: false,
            digest: Digest::new(),
            desc: Vec::new(),
            known_hits: Vec::new(),
            inconclusive: false,
            known_open,
            strict,
            counters: BTreeMap::new(),
        }
    }
    pub fn label(&mut self, l: &str) {
        if !self.labels.contains(l) {
            self.labels.insert(l.to_string());
        }
    }
    pub fn count(&mut self, l: &str, n: u64) {
        *self.counters.entry(l.to_string()).or_insert(0) += n;
    }
    pub fn note(&mut self, f: impl FnOnce() -> String) {
        if self.verbose && LIVE_NOTES.load(Ordering::Relaxed) {
            eprintln!("{}", f());
            return;
        }
        if self.verbose {
            let cap = note_cap();
            if self.desc.len() < cap {
                self.desc.push(f());
            } else if self.desc.len() == cap {
                self.desc.push("...".into());
            }
        }
    }
    pub fn is_known(&self, key: &str) -> bool {
        !self.strict && key_matches_any(&self.known_open, key)
    }
    /// Report a failure observed mid-case. If it is an open known finding the
    /// case may continue (returns Ok) and the hit is counted; otherwise Err.
    pub fn report(&mut self, f: Fail) -> Result<(), Fail> {
        if self.is_known(&f.key) {
            if !self.known_hits.contains(&f.key) {
                self.known_hits.push(f.key);
            }
            Ok(())
        } else {
            Err(f)
        }
    }
}

fn note_cap() -> usize {
    static CAP: std::sync::OnceLock<usize> = std::sync::OnceLock::new();
    *CAP.get_or_init(|| std::env::var("VERIF_NOTE_CAP").ok().and_then(|s| s.parse().ok()).unwrap_or(400))
}

pub fn key_matches(pattern: &str, key: &str) -> bool {
    if let Some(p) = pattern.strip_suffix('*') {
        key.starts_with(p)
    } else {
        pattern == key
    }
}
fn key_matches_any(pats: &[String], key: &str) -> bool {
    pats.iter().any(|p| key_matches(p, key))
}

pub type CaseFn = fn(&mut Src, &mut Ctx) -> Result<(), Fail>;

pub struct Part {
    pub name: &'static str,
    pub case: CaseFn,
    pub quick: u64,
    pub thorough: u64,
}

/// Result of an exhaustive / custom phase.
#[derive(Default)]
pub struct PhaseResult {
    pub name: String,
    pub evaluations: u64,
    pub nontrivial: u64,
    pub exhaustive: bool,
    /// (part name, tape, failure)
    pub failures: Vec<(String, Vec<u64>, Fail)>,
    pub extra: Value,
    pub samples: Vec<Value>,
}

pub type PhaseFn = fn(&RunEnv) -> PhaseResult;

pub struct Prop {
    pub id: &'static str,
    pub parts: Vec<Part>,
    pub phases: Vec<PhaseFn>,
    /// a panic inside smoltcp is a violation of this property
    pub smoltcp_panic_is_violation: bool,
    pub rule: &'static str,
    pub assumptions: Vec<&'static str>,
}

pub struct RunEnv {
    pub tier: Tier,
    pub seed: u64,
    pub known_open: std::sync::Arc<Vec<String>>,
}

#[derive(Clone, Copy, PartialEq, Eq, Debug)]
pub enum Tier {
    Quick,
    Thorough,
}
impl Tier {
    pub fn name(&self) -> &'static str {
        match self {
            Tier::Quick => "quick",
            Tier::Thorough => "thorough",
        }
    }
}

// ---------------------------------------------------------------- panics

#[derive(Clone, Debug, Default)]
pub struct PanicInfo {
    pub file: String,
    pub line: u32,
    pub msg: String,
    /// innermost smoltcp function on the stack ("" if harness code is innermost)
    pub func: String,
    /// file of that frame, relative to /repo
    pub smol_file: String,
}

thread_local! {
    static LAST_PANIC: RefCell<Option<PanicInfo>> = const { RefCell::new(None) };
    static QUIET: RefCell<bool> = const { RefCell::new(false) };
}

fn normalise_msg(m: &str) -> String {
    // digits -> N so that indices/lengths do not split one root cause
    let mut out = String::new();
    let mut in_num = false;
    for c in m.chars() {
        if c.is_ascii_digit() {
            if !in_num {
                out.push('N');
                in_num = true;
            }
        } else {
            in_num = false;
            out.push(c);
        }
    }
    if out.len() > 120 {
        out.truncate(120);
    }
    out
}

/// First backtrace frame that lies in smoltcp (/repo/src) or in the harness,
/// whichever is innermost: returns (function, file) for a smoltcp frame, None
/// when harness code is innermost.
fn smoltcp_frame(bt: &str) -> Option<(String, String)> {
    let mut prev_fn = String::new();
    for line in bt.lines() {
        let l = line.trim();
        if let Some(at) = l.strip_prefix("at ") {
            if at.contains("/repo/src/") {
                let path = at.split(':').next().unwrap_or("");
                let file = path[path.find("/repo/src/").unwrap() + 6..].to_string();
                // strip generic arguments and closure markers from the function name
                let mut f = prev_fn.clone();
                if let Some(i) = f.find('<') {
                    f.truncate(i);
                }
                let f = f.replace("{closure#0}", "closure").replace("{closure#1}", "closure");
                return Some((f, file));
            }
            if at.contains("vkit/src/runner.rs") {
                continue;
            }
            if at.starts_with("./v") || at.starts_with("/verif/") || at.contains("/harness/vkit/") || at.contains("/harness/vcheck/") {
                return None;
            }
        } else if let Some(pos) = l.find(": ") {
            prev_fn = l[pos + 2..].to_string();
        }
    }
    None
}

pub fn install_panic_hook() {
    std::panic::set_hook(Box::new(|info| {
        let (file, line) = info
            .location()
            .map(|l| (l.file().to_string(), l.line()))
            .unwrap_or_default();
        let msg = if let Some(s) = info.payload().downcast_ref::<&str>() {
            s.to_string()
        } else if let Some(s) = info.payload().downcast_ref::<String>() {
            s.clone()
        } else {
            "panic".to_string()
        };
        let is_smoltcp = is_smoltcp_file(&file);
        let (func, smol_file) = if is_smoltcp || !(file.starts_with("/verif") || file.starts_with("vkit/") || file.starts_with("vcheck/")) {
            let bt = std::backtrace::Backtrace::force_capture().to_string();
            if std::env::var("VERIF_DEBUG_BT").is_ok() {
                eprintln!("{}", bt);
            }
            smoltcp_frame(&bt).unwrap_or_default()
        } else {
            (String::new(), String::new())
        };
        let quiet = QUIET.with(|q| *q.borrow());
        if !quiet {
            eprintln!("panic at {}:{}: {}", file, line, msg);
        }
        LAST_PANIC.with(|p| {
            *p.borrow_mut() = Some(PanicInfo {
                file,
                line,
                msg,
                func,
                smol_file,
            })
        });
    }));
}

pub fn is_smoltcp_file(file: &str) -> bool {
    file.contains("/repo/src/") || file.starts_with("src/")
}

pub fn take_panic() -> Option<PanicInfo> {
    LAST_PANIC.with(|p| p.borrow_mut().take())
}

pub fn set_quiet(q: bool) {
    QUIET.with(|c| *c.borrow_mut() = q);
}

/// Run `f` catching panics; returns Err(PanicInfo) on panic.
pub fn guarded<T>(f: impl FnOnce() -> T) -> Result<T, PanicInfo> {
    let _ = take_panic();
    match catch_unwind(AssertUnwindSafe(f)) {
        Ok(v) => Ok(v),
        Err(_) => Err(take_panic().unwrap_or_default()),
    }
}

/// Key for a panic that originated in smoltcp (or in a dependency reached from it).
pub fn panic_key(p: &PanicInfo) -> String {
    let file = if !p.smol_file.is_empty() {
        p.smol_file.clone()
    } else {
        match p.file.find("/repo/src/") {
            Some(i) => p.file[i + 6..].to_string(),
            None => p.file.clone(),
        }
    };
    format!("panic:{}:{}:{}", file, p.func, normalise_msg(&p.msg))
}

/// A panic is attributed to smoltcp when it was raised in /repo/src, or in a
/// library (std, heapless, managed) while a smoltcp frame was on the stack
/// and not in harness code.
pub fn panic_in_smoltcp(p: &PanicInfo) -> bool {
    is_smoltcp_file(&p.file) || !p.smol_file.is_empty()
}

// ---------------------------------------------------------------- known findings

#[derive(Clone, Debug)]
pub struct Known {
    pub property: String,
    pub key: String,
    pub status: String,
    pub what: String,
    pub replay: Option<String>,
}

pub fn load_known() -> Vec<Known> {
    let path = format!("{}/known_findings.json", VERIF_ROOT);
    let Ok(text) = std::fs::read_to_string(&path) else {
        return vec![];
    };
    let v: Value = serde_json::from_str(&text).expect("known_findings.json must be valid JSON");
    let mut out = vec![];
    for e in v["findings"].as_array().cloned().unwrap_or_default() {
        out.push(Known {
            property: e["property"].as_str().unwrap_or("").to_string(),
            key: e["key"].as_str().unwrap_or("").to_string(),
            status: e["status"].as_str().unwrap_or("open").to_string(),
            what: e["what"].as_str().unwrap_or("").to_string(),
            replay: e["replay"].as_str().map(|s| s.to_string()),
        });
    }
    out
}

/// Key patterns of the open findings registered for `prop`.
pub fn open_keys(prop: &str) -> Vec<String> {
    // (read once per process: fuzz targets ask on every iteration)
    static ALL: std::sync::OnceLock<Vec<Known>> = std::sync::OnceLock::new();
    ALL.get_or_init(load_known).iter().filter(|k| k.property == prop && k.status == "open").map(|k| k.key.clone()).collect()
}

/// A violation found by a coverage-guided fuzz target: saved as an ordinary tape replay,
/// announced in the usual form, then the process panics so that libFuzzer stops and keeps
/// its own artifact as well.
pub fn fuzz_violation(prop: &str, part: &str, tape: &[u64], fail: &Fail) -> ! {
    let mut d = crate::Digest::new();
    d.str(&fail.key);
    for v in tape {
        d.u64(*v);
    }
    let path = format!("{}/replays/new/{}-fuzz-{:016x}.tape", out_root(), prop, d.finish());
    let _ = std::fs::create_dir_all(format!("{}/replays/new", out_root()));
    write_replay(&path, prop, part, tape, fail, &[]);
    println!("failure key={} part={} : {}", fail.key, part, fail.msg);
    println!("VIOLATION property={} replay={}", prop, path);
    panic!("VIOLATION property={} key={}", prop, fail.key);
}

// ---------------------------------------------------------------- replay files

pub struct ReplayFile {
    pub property: String,
    pub part: String,
    pub values: Vec<u64>,
}

pub fn write_replay(path: &str, prop: &str, part: &str, values: &[u64], fail: &Fail, desc: &[String]) {
    let mut s = String::new();
    s.push_str(&format!("property {}\n", prop));
    s.push_str(&format!("engine {}\n", ENGINE_VERSION));
    s.push_str(&format!("part {}\n", part));
    s.push_str(&format!("key {}\n", fail.key));
    s.push_str("tape");
    for v in values {
        s.push_str(&format!(" {}", v));
    }
    s.push('\n');
    for l in fail.msg.lines() {
        s.push_str(&format!("# msg: {}\n", l));
    }
    for d in desc {
        for l in d.lines() {
            s.push_str(&format!("# {}\n", l));
        }
    }
    if let Some(dir) = std::path::Path::new(path).parent() {
        let _ = std::fs::create_dir_all(dir);
    }
    std::fs::write(path, s).expect("write replay file");
}

pub fn read_replay(path: &str) -> Result<ReplayFile, String> {
    let text = std::fs::read_to_string(path).map_err(|e| format!("{}: {}", path, e))?;
    let mut r = ReplayFile {
        property: String::new(),
        part: String::new(),
        values: vec![],
    };
    for line in text.lines() {
        if line.starts_with('#') {
            continue;
        }
        if let Some(v) = line.strip_prefix("property ") {
            r.property = v.trim().to_string();
        } else if let Some(v) = line.strip_prefix("part ") {
            r.part = v.trim().to_string();
        } else if let Some(v) = line.strip_prefix("tape") {
            for t in v.split_whitespace() {
                r.values.push(t.parse::<u64>().map_err(|e| format!("bad tape value {}: {}", t, e))?);
            }
        }
    }
    if r.property.is_empty() {
        return Err(format!("{}: no property line", path));
    }
    Ok(r)
}

// ---------------------------------------------------------------- running one case

pub struct CaseOutcome {
    pub ctx: Ctx,
    pub used: Vec<u64>,
    pub fail: Option<Fail>,
    /// panic in harness code (exit 2 material)
    pub harness_panic: Option<PanicInfo>,
}

pub fn run_case(
    prop: &Prop,
    part: &Part,
    mut src: Src,
    verbose: bool,
    known_open: &std::sync::Arc<Vec<String>>,
    strict: bool,
) -> CaseOutcome {
    let mut ctx = Ctx::new(verbose, known_open.clone(), strict);
    let r = guarded(|| (part.case)(&mut src, &mut ctx));
    let used = src.used();
    match r {
        Ok(Ok(())) => CaseOutcome {
            ctx,
            used,
            fail: None,
            harness_panic: None,
        },
        Ok(Err(f)) => CaseOutcome {
            ctx,
            used,
            fail: Some(f),
            harness_panic: None,
        },
        Err(p) => {
            if panic_in_smoltcp(&p) {
                let key = panic_key(&p);
                let f = Fail::new(
                    if prop.smoltcp_panic_is_violation {
                        key
                    } else {
                        format!("uncaught-{}", key)
                    },
                    format!("smoltcp panicked at {}:{}: {}", p.file, p.line, p.msg),
                );
                if prop.smoltcp_panic_is_violation {
                    CaseOutcome {
                        ctx,
                        used,
                        fail: Some(f),
                        harness_panic: None,
                    }
                } else {
                    // not this property's claim: inconclusive, surfaced as harness problem
                    CaseOutcome {
                        ctx,
                        used,
                        fail: None,
                        harness_panic: Some(p),
                    }
                }
            } else {
                CaseOutcome {
                    ctx,
                    used,
                    fail: None,
                    harness_panic: Some(p),
                }
            }
        }
    }
}

// ---------------------------------------------------------------- shrinking

fn shortlex_less(a: &[u64], b: &[u64]) -> bool {
    if a.len() != b.len() {
        return a.len() < b.len();
    }
    a < b
}

pub fn shrink(
    prop: &Prop,
    part: &Part,
    start: Vec<u64>,
    key: &str,
    known_open: &std::sync::Arc<Vec<String>>,
    strict: bool,
    max_evals: usize,
) -> (Vec<u64>, Fail) {
    set_quiet(true);
    let mut evals = 0usize;
    let mut best = start;
    let mut best_fail: Option<Fail> = None;
    let try_candidate = |cand: &[u64], best: &mut Vec<u64>, best_fail: &mut Option<Fail>, evals: &mut usize| -> bool {
        if *evals >= max_evals {
            return false;
        }
        *evals += 1;
        let out = run_case(prop, part, Src::replay(cand), false, known_open, strict);
        if let Some(f) = out.fail {
            if f.key == key && (shortlex_less(&out.used, best) || best_fail.is_none()) {
                *best = out.used;
                *best_fail = Some(f);
                return true;
            }
        }
        false
    };
    // establish baseline
    let b0 = best.clone();
    try_candidate(&b0, &mut best, &mut best_fail, &mut evals);
    if best_fail.is_none() {
        set_quiet(false);
        return (best, Fail::new(key, "failure did not reproduce during shrinking (flaky?)"));
    }
    let mut improved = true;
    while improved && evals < max_evals {
        improved = false;
        // 1. delete blocks (halving sizes first, then every small size: list elements
        //    usually span 2..8 draws)
        let mut sizes: Vec<usize> = vec![];
        let mut sz = (best.len() / 2).max(1);
        while sz > 8 {
            sizes.push(sz);
            sz /= 2;
        }
        for k in (1..=8usize).rev() {
            if k <= best.len() {
                sizes.push(k);
            }
        }
        for size in sizes {
            let mut i = 0;
            while i + size <= best.len() {
                let mut cand = best.clone();
                cand.drain(i..i + size);
                if try_candidate(&cand, &mut best, &mut best_fail, &mut evals) {
                    improved = true;
                } else {
                    i += size.max(1);
                }
                if evals >= max_evals {
                    break;
                }
            }
            if evals >= max_evals {
                break;
            }
        }
        // 2. zero blocks
        let mut size = (best.len() / 2).max(1);
        while size >= 1 && evals < max_evals {
            let mut i = 0;
            while i + size <= best.len() {
                if best[i..i + size].iter().any(|v| *v != 0) {
                    let mut cand = best.clone();
                    for v in &mut cand[i..i + size] {
                        *v = 0;
                    }
                    if try_candidate(&cand, &mut best, &mut best_fail, &mut evals) {
                        improved = true;
                    }
                }
                i += size;
            }
            if size == 1 {
                break;
            }
            size /= 2;
        }
        // 3. minimise individual values
        let mut i = 0;
        while i < best.len() && evals < max_evals {
            let cur = best[i];
            if cur > 0 {
                let mut lo = 0u64;
                let mut hi = cur;
                // try 0 first, then binary search
                let mut cand = best.clone();
                cand[i] = 0;
                if try_candidate(&cand, &mut best, &mut best_fail, &mut evals) {
                    improved = true;
                } else {
                    let mut steps = 0;
                    while lo + 1 < hi && steps < 12 && i < best.len() {
                        steps += 1;
                        let mid = lo + (hi - lo) / 2;
                        let mut cand = best.clone();
                        cand[i] = mid;
                        if try_candidate(&cand, &mut best, &mut best_fail, &mut evals) {
                            improved = true;
                            if i < best.len() {
                                hi = best[i].min(mid);
                            }
                        } else {
                            lo = mid;
                        }
                    }
                }
            }
            i += 1;
        }
    }
    set_quiet(false);
    (best, best_fail.unwrap())
}

// ---------------------------------------------------------------- stats

/// Upper bound on the number of case digests kept for the distinct count (memory bound for
/// very long runs; beyond it the reported count is a lower bound and the evidence says so).
fn distinct_cap() -> usize {
    std::env::var("VERIF_DISTINCT_CAP").ok().and_then(|v| v.parse().ok()).unwrap_or(48_000_000)
}

#[derive(Default)]
pub struct Stats {
    pub evaluations: u64,
    pub nontrivial: u64,
    pub distinct: HashSet<u64>,
    /// the digest set reached its memory bound: distinct.len() is then a lower bound
    pub distinct_saturated: bool,
    pub labels: BTreeMap<String, u64>,
    pub counters: BTreeMap<String, u64>,
    pub known_hits: BTreeMap<String, u64>,
    pub excluded_cases: u64,
    pub inconclusive: u64,
    pub per_part: BTreeMap<String, (u64, u64)>,
}

impl Stats {
    fn absorb(&mut self, part: &str, ctx: &Ctx) {
        self.evaluations += 1;
        let e = self.per_part.entry(part.to_string()).or_insert((0, 0));
        e.0 += 1;
        if ctx.nontrivial {
            self.nontrivial += 1;
            e.1 += 1;
            let mut d = ctx.digest;
            d.str(part);
            if self.distinct.len() < distinct_cap() / threads().max(1) {
                self.distinct.insert(d.finish());
            } else {
                self.distinct_saturated = true;
            }
        }
        for l in &ctx.labels {
            *self.labels.entry(l.clone()).or_insert(0) += 1;
        }
        for (k, v) in &ctx.counters {
            *self.counters.entry(k.clone()).or_insert(0) += *v;
        }
        if !ctx.known_hits.is_empty() {
            self.excluded_cases += 1;
        }
        for k in &ctx.known_hits {
            *self.known_hits.entry(k.clone()).or_insert(0) += 1;
        }
        if ctx.inconclusive {
            self.inconclusive += 1;
        }
    }
    fn merge(&mut self, o: Stats) {
        self.evaluations += o.evaluations;
        self.nontrivial += o.nontrivial;
        self.distinct_saturated |= o.distinct_saturated;
        let cap = distinct_cap();
        for d in o.distinct {
            if self.distinct.len() >= cap {
                self.distinct_saturated = true;
                break;
            }
            self.distinct.insert(d);
        }
        for (k, v) in o.labels {
            *self.labels.entry(k).or_insert(0) += v;
        }
        for (k, v) in o.counters {
            *self.counters.entry(k).or_insert(0) += v;
        }
        for (k, v) in o.known_hits {
            *self.known_hits.entry(k).or_insert(0) += v;
        }
        self.excluded_cases += o.excluded_cases;
        self.inconclusive += o.inconclusive;
        for (k, v) in o.per_part {
            let e = self.per_part.entry(k).or_insert((0, 0));
            e.0 += v.0;
            e.1 += v.1;
        }
    }
}

struct FoundFailure {
    part: String,
    index: u64,
    tape: Vec<u64>,
    fail: Fail,
}

// ---------------------------------------------------------------- main entry points

pub struct RunReport {
    pub exit_code: i32,
}

fn threads() -> usize {
    std::env::var("VERIF_THREADS")
        .ok()
        .and_then(|s| s.parse().ok())
        .unwrap_or_else(|| std::thread::available_parallelism().map(|n| n.get()).unwrap_or(8))
}

fn scale() -> f64 {
    std::env::var("VERIF_SCALE")
        .ok()
        .and_then(|s| s.parse().ok())
        .unwrap_or(1.0)
}

/// Replay one tape in strict mode. Returns the failure if any.
pub fn replay_one(prop: &Prop, part_name: &str, values: &[u64], verbose: bool) -> Result<CaseOutcome, String> {
    let part = prop
        .parts
        .iter()
        .find(|p| p.name == part_name)
        .or_else(|| if part_name.is_empty() { prop.parts.first() } else { None })
        .ok_or_else(|| format!("unknown part '{}' for {}", part_name, prop.id))?;
    let none = std::sync::Arc::new(vec![]);
    Ok(run_case(prop, part, Src::replay(values), verbose, &none, true))
}

static LIVE_NOTES: AtomicBool = AtomicBool::new(false);

struct StderrLogger;
impl log::Log for StderrLogger {
    fn enabled(&self, _m: &log::Metadata) -> bool {
        true
    }
    fn log(&self, r: &log::Record) {
        eprintln!("      [smoltcp {}] {}", r.level(), r.args());
    }
    fn flush(&self) {}
}
static LOGGER: StderrLogger = StderrLogger;

pub fn replay_cmd(prop: &Prop, path: &str) -> i32 {
    install_panic_hook();
    if std::env::var("VERIF_LOG").is_ok() {
        let _ = log::set_logger(&LOGGER);
        log::set_max_level(log::LevelFilter::Trace);
        LIVE_NOTES.store(true, Ordering::Relaxed);
    }
    let rf = match read_replay(path) {
        Ok(r) => r,
        Err(e) => {
            eprintln!("{}", e);
            return 2;
        }
    };
    if rf.property != prop.id {
        eprintln!("replay file is for {}, not {}", rf.property, prop.id);
        return 2;
    }
    match replay_one(prop, &rf.part, &rf.values, true) {
        Err(e) => {
            eprintln!("{}", e);
            2
        }
        Ok(out) => {
            for d in &out.ctx.desc {
                println!("  {}", d);
            }
            if let Some(p) = out.harness_panic {
                eprintln!("harness problem: panic at {}:{}: {}", p.file, p.line, p.msg);
                return 2;
            }
            if let Some(f) = out.fail {
                println!("failure key={} : {}", f.key, f.msg);
                println!("VIOLATION property={} replay={}", prop.id, path);
                1
            } else {
                println!("replay passed: property {} holds on this case", prop.id);
                0
            }
        }
    }
}

pub fn run_prop(prop: &Prop, tier: Tier, seed: u64) -> RunReport {
    install_panic_hook();
    let t0 = Instant::now();
    let known = load_known();
    let mine: Vec<&Known> = known.iter().filter(|k| k.property == prop.id).collect();
    let known_open: std::sync::Arc<Vec<String>> = std::sync::Arc::new(
        mine.iter()
            .filter(|k| k.status == "open")
            .map(|k| k.key.clone())
            .collect(),
    );
    let mut violations: Vec<(String, String)> = vec![]; // (replay path, msg)
    let mut harness_problems: Vec<String> = vec![];
    let mut known_printed = 0u64;
    let mut replayed = 0u64;

    // ---- replay tier: known + fixed findings, and committed regression tapes
    set_quiet(true);
    for k in &mine {
        let Some(rp) = &k.replay else { continue };
        let path = if rp.starts_with('/') {
            rp.clone()
        } else {
            format!("{}/{}", VERIF_ROOT, rp)
        };
        let rf = match read_replay(&path) {
            Ok(r) => r,
            Err(e) => {
                harness_problems.push(e);
                continue;
            }
        };
        replayed += 1;
        match replay_one(prop, &rf.part, &rf.values, false) {
            Err(e) => harness_problems.push(e),
            Ok(out) => {
                if let Some(p) = out.harness_panic {
                    harness_problems.push(format!(
                        "replay {}: harness panic at {}:{}: {}",
                        path, p.file, p.line, p.msg
                    ));
                } else if let Some(f) = out.fail {
                    if k.status == "open" && key_matches(&k.key, &f.key) {
                        println!("KNOWN-FINDING: property={} {} [key={}]", prop.id, k.what, k.key);
                        known_printed += 1;
                    } else if k.status == "open" && key_matches_any(&known_open, &f.key) {
                        // replay of one known finding now trips over another known one
                    } else {
                        println!("failure key={} : {}", f.key, f.msg);
                        violations.push((path.clone(), f.msg.clone()));
                    }
                }
            }
        }
    }
    // regression tapes: replays/regress/<id>-*.tape must pass
    let regdir = format!("{}/replays/regress", VERIF_ROOT);
    if let Ok(rd) = std::fs::read_dir(&regdir) {
        let mut files: Vec<String> = rd
            .filter_map(|e| e.ok())
            .map(|e| e.path().to_string_lossy().to_string())
            .filter(|p| {
                std::path::Path::new(p)
                    .file_name()
                    .map(|n| n.to_string_lossy().starts_with(&format!("{}-", prop.id)))
                    .unwrap_or(false)
            })
            .collect();
        files.sort();
        for path in files {
            let Ok(rf) = read_replay(&path) else { continue };
            replayed += 1;
            if let Ok(out) = replay_one(prop, &rf.part, &rf.values, false) {
                if let Some(f) = out.fail {
                    if !key_matches_any(&known_open, &f.key) {
                        println!("failure key={} : {}", f.key, f.msg);
                        violations.push((path.clone(), f.msg.clone()));
                    }
                }
            }
        }
    }
    set_quiet(false);

    // ---- generated search
    let mut stats = Stats::default();
    let mut sample_tapes: Vec<(String, Vec<u64>)> = vec![];
    let keep_going = std::env::var("VERIF_KEEP_GOING").is_ok();
    let mut found: Vec<FoundFailure> = vec![];
    let nthreads = threads();
    let sc = scale();

    for part in &prop.parts {
        let n = match tier {
            Tier::Quick => part.quick,
            Tier::Thorough => part.thorough,
        };
        let n = ((n as f64) * sc).ceil() as u64;
        if n == 0 {
            continue;
        }
        let chunk: u64 = (n / (nthreads as u64 * 8)).clamp(1, 256);
        let nchunks = n.div_ceil(chunk);
        let next = AtomicU64::new(0);
        let stop = AtomicBool::new(false);
        let results: Mutex<Vec<(u64, Stats, Vec<FoundFailure>, Vec<(u64, Vec<u64>)>, Vec<String>)>> =
            Mutex::new(vec![]);
        std::thread::scope(|s| {
            for _ in 0..nthreads {
                s.spawn(|| {
                    set_quiet(true);
                    loop {
                        if stop.load(Ordering::Relaxed) {
                            break;
                        }
                        let c = next.fetch_add(1, Ordering::Relaxed);
                        if c >= nchunks {
                            break;
                        }
                        let mut st = Stats::default();
                        let mut ff = vec![];
                        let mut samples = vec![];
                        let mut hp = vec![];
                        let lo = c * chunk;
                        let hi = ((c + 1) * chunk).min(n);
                        for idx in lo..hi {
                            let src = Src::generate(mix(seed, &format!("{}/{}", prop.id, part.name), idx));
                            let out = run_case(prop, part, src, false, &known_open, false);
                            st.absorb(part.name, &out.ctx);
                            if out.ctx.nontrivial && samples.len() < 2 && c < 4 {
                                samples.push((idx, out.used.clone()));
                            }
                            if let Some(p) = out.harness_panic {
                                hp.push(format!(
                                    "case {}/{}#{}: panic at {}:{}: {} [{}]",
                                    prop.id, part.name, idx, p.file, p.line, p.msg, p.func
                                ));
                                ff.push(FoundFailure {
                                    part: part.name.to_string(),
                                    index: idx,
                                    tape: out.used.clone(),
                                    fail: Fail::new("harness-panic", "harness panic"),
                                });
                                stop.store(true, Ordering::Relaxed);
                                break;
                            }
                            if let Some(f) = out.fail {
                                if key_matches_any(&known_open, &f.key) {
                                    st.excluded_cases += 1;
                                    *st.known_hits.entry(f.key.clone()).or_insert(0) += 1;
                                } else {
                                    ff.push(FoundFailure {
                                        part: part.name.to_string(),
                                        index: idx,
                                        tape: out.used,
                                        fail: f,
                                    });
                                    if !keep_going {
                                        stop.store(true, Ordering::Relaxed);
                                        break;
                                    }
                                }
                            }
                        }
                        results.lock().unwrap().push((c, st, ff, samples, hp));
                    }
                });
            }
        });
        let mut rs = results.into_inner().unwrap();
        rs.sort_by_key(|r| r.0);
        for (_, st, ff, samples, hp) in rs {
            stats.merge(st);
            found.extend(ff);
            for (_, t) in samples {
                if sample_tapes.iter().filter(|s| s.0 == part.name).count() < 2 {
                    sample_tapes.push((part.name.to_string(), t));
                }
            }
            harness_problems.extend(hp);
        }
    }

    // ---- custom / exhaustive phases
    let env = RunEnv {
        tier,
        seed,
        known_open: known_open.clone(),
    };
    let mut phase_json = vec![];
    let mut exhaustive_any = false;
    let mut phase_samples: Vec<Value> = vec![];
    for ph in &prop.phases {
        set_quiet(true);
        let r = guarded(|| ph(&env));
        set_quiet(false);
        match r {
            Err(p) => {
                if panic_in_smoltcp(&p) && prop.smoltcp_panic_is_violation {
                    found.push(FoundFailure {
                        part: String::new(),
                        index: 0,
                        tape: vec![],
                        fail: Fail::new(panic_key(&p), format!("smoltcp panicked in phase at {}:{}: {}", p.file, p.line, p.msg)),
                    });
                } else {
                    harness_problems.push(format!("phase panic at {}:{}: {}", p.file, p.line, p.msg));
                }
            }
            Ok(r) => {
                stats.evaluations += r.evaluations;
                stats.nontrivial += r.nontrivial;
                // distinct: phases enumerate distinct cases by construction
                for i in 0..r.nontrivial {
                    let mut d = Digest::new();
                    d.str(&r.name);
                    d.u64(i);
                    stats.distinct.insert(d.finish());
                }
                exhaustive_any |= r.exhaustive;
                phase_json.push(json!({
                    "phase": r.name, "evaluations": r.evaluations, "nontrivial": r.nontrivial,
                    "exhaustive": r.exhaustive, "extra": r.extra,
                }));
                phase_samples.extend(r.samples.into_iter().take(3));
                for (part, tape, f) in r.failures {
                    if key_matches_any(&known_open, &f.key) {
                        stats.excluded_cases += 1;
                        *stats.known_hits.entry(f.key.clone()).or_insert(0) += 1;
                    } else {
                        found.push(FoundFailure {
                            part,
                            index: 0,
                            tape,
                            fail: f,
                        });
                    }
                }
            }
        }
    }

    // ---- report failures: per distinct key, the lowest index, shrunk
    found.retain(|f| f.fail.key != "harness-panic");
    found.sort_by(|a, b| (a.part.clone(), a.index).cmp(&(b.part.clone(), b.index)));
    let mut seen_keys: BTreeSet<String> = BTreeSet::new();
    let mut reported = 0;
    for f in &found {
        if seen_keys.contains(&f.fail.key) {
            continue;
        }
        seen_keys.insert(f.fail.key.clone());
        if reported >= if keep_going { 25 } else { 1 } {
            break;
        }
        reported += 1;
        let part = prop.parts.iter().find(|p| p.name == f.part);
        let (tape, fail, desc) = if let (Some(part), false) = (part, f.tape.is_empty()) {
            let budget: usize = std::env::var("VERIF_SHRINK")
                .ok()
                .and_then(|s| s.parse().ok())
                .unwrap_or(1500);
            let (t, fl) = shrink(prop, part, f.tape.clone(), &f.fail.key, &known_open, false, budget);
            set_quiet(true);
            let out = run_case(prop, part, Src::replay(&t), true, &known_open, false);
            set_quiet(false);
            (t, fl, out.ctx.desc)
        } else {
            (f.tape.clone(), f.fail.clone(), vec![])
        };
        let mut d = Digest::new();
        d.str(&fail.key);
        for v in &tape {
            d.u64(*v);
        }
        let path = format!(
            "{}/replays/new/{}-{:016x}.tape",
            out_root(),
            prop.id,
            d.finish()
        );
        write_replay(&path, prop.id, &f.part, &tape, &fail, &desc);
        println!("failure key={} part={} : {}", fail.key, f.part, fail.msg);
        violations.push((path, fail.msg.clone()));
    }

    // ---- samples (re-run verbosely)
    let mut samples: Vec<Value> = vec![];
    set_quiet(true);
    for (pname, tape) in sample_tapes.iter().take(6) {
        if let Some(part) = prop.parts.iter().find(|p| p.name == pname) {
            let out = run_case(prop, part, Src::replay(tape), true, &known_open, false);
            let mut desc = out.ctx.desc;
            if desc.len() > 40 {
                desc.truncate(40);
                desc.push("...".into());
            }
            samples.push(json!({
                "part": pname,
                "tape_len": tape.len(),
                "labels": out.ctx.labels.iter().cloned().collect::<Vec<_>>(),
                "case": desc,
            }));
        }
    }
    set_quiet(false);
    samples.extend(phase_samples);
    if samples.is_empty() {
        samples.push(json!("(no non-trivial sample captured)"));
    }

    let wall = t0.elapsed().as_secs_f64();
    let per_part: BTreeMap<String, Value> = stats
        .per_part
        .iter()
        .map(|(k, v)| (k.clone(), json!({"cases": v.0, "nontrivial": v.1})))
        .collect();
    let mut assumptions: Vec<String> = prop.assumptions.iter().map(|s| s.to_string()).collect();
    assumptions.push("engine: /verif/harness/vkit choice-tape generator; run is a pure function of /repo tree and VERIF_SEED".into());
    let ev = json!({
        "property_id": prop.id,
        "tier": tier.name(),
        "seed": seed,
        "level": "exploration",
        "coverage": {
            "evaluations": stats.evaluations,
            "distinct_nontrivial": stats.distinct.len(),
            "distinct_nontrivial_is_lower_bound": stats.distinct_saturated,
            "nontrivial_total": stats.nontrivial,
            "rule": prop.rule,
            "samples": samples,
            "labels": stats.labels,
            "counters": stats.counters,
            "per_part": per_part,
            "phases": phase_json,
            "exhaustive": exhaustive_any && prop.parts.is_empty(),
            "exhaustive_subspace": exhaustive_any,
            "known_findings_hit": stats.known_hits,
            "known_findings_printed": known_printed,
            "excluded_cases": stats.excluded_cases,
            "inconclusive": stats.inconclusive,
            "replayed_tapes": replayed,
        },
        "assumptions": assumptions,
        "wall_s": wall,
        "violations": violations.len(),
        "harness_problems": harness_problems,
    });
    let mut ev = ev;
    // other runs of the same check that belong to this invocation (another build configuration, the
    // coverage-guided stage): VERIF_AUX_EVIDENCE = ':'-separated evidence files, VERIF_AUX_WHAT = '|'-
    // separated descriptions; their counts are added and each is kept whole under aux_runs
    if let Ok(auxs) = std::env::var("VERIF_AUX_EVIDENCE") {
        let whats: Vec<String> = std::env::var("VERIF_AUX_WHAT").unwrap_or_default().split('|').map(|s| s.to_string()).collect();
        let mut total_e = stats.evaluations;
        let mut total_d = stats.distinct.len() as u64;
        let mut total_w = wall;
        let mut runs = vec![];
        for (i, aux) in auxs.split(':').filter(|s| !s.is_empty()).enumerate() {
            if let Ok(text) = std::fs::read_to_string(aux) {
                if let Ok(a) = serde_json::from_str::<Value>(&text) {
                    total_e += a["coverage"]["evaluations"].as_u64().unwrap_or(0);
                    total_d += a["coverage"]["distinct_nontrivial"].as_u64().unwrap_or(0);
                    total_w += a["wall_s"].as_f64().unwrap_or(0.0);
                    runs.push(json!({
                        "what": whats.get(i).cloned().unwrap_or_default(),
                        "coverage": a["coverage"], "violations": a["violations"], "wall_s": a["wall_s"],
                    }));
                }
            }
        }
        if !runs.is_empty() {
            ev["coverage"]["evaluations"] = json!(total_e);
            ev["coverage"]["distinct_nontrivial"] = json!(total_d);
            ev["wall_s"] = json!(total_w);
            if runs.len() == 1 {
                ev["coverage"]["aux_run"] = runs[0].clone();
            }
            ev["coverage"]["aux_runs"] = json!(runs);
        }
    }
    let evname = std::env::var("VERIF_EVIDENCE_NAME").unwrap_or_else(|_| format!("{}.json", prop.id));
    let evpath = format!("{}/evidence/{}", out_root(), evname);
    let _ = std::fs::create_dir_all(format!("{}/evidence", out_root()));
    std::fs::write(&evpath, serde_json::to_string_pretty(&ev).unwrap()).expect("write evidence");

    println!(
        "{} {} seed={} cases={} nontrivial={} distinct_nontrivial={} excluded_known={} inconclusive={} wall={:.1}s",
        prop.id,
        tier.name(),
        seed,
        stats.evaluations,
        stats.nontrivial,
        stats.distinct.len(),
        stats.excluded_cases,
        stats.inconclusive,
        wall
    );
    if std::env::var("VERIF_LABELS").is_ok() {
        for (k, v) in &stats.labels {
            println!("  label {:40} {}", k, v);
        }
        for (k, v) in &stats.counters {
            println!("  counter {:38} {}", k, v);
        }
    }
    for (path, _) in &violations {
        println!("VIOLATION property={} replay={}", prop.id, path);
    }
    if !violations.is_empty() {
        return RunReport { exit_code: 1 };
    }
    if !harness_problems.is_empty() {
        for h in harness_problems.iter().take(10) {
            eprintln!("HARNESS-PROBLEM: {}", h);
        }
        return RunReport { exit_code: 2 };
    }
    RunReport { exit_code: 0 }
}
