//! C11 - only traffic addressed to the interface is delivered; no replies to non-unicast.
//!
//! A class table (family x medium/L2 destination x IP source class x IP
//! destination class x protocol x port relation x socket configuration) is
//! enumerated exhaustively by the `table` phase; the `cell` part is the replay
//! form (tape = cell coordinates, optionally followed by free-field draws) and
//! is also run with random tapes, which fills the free fields (ports, payload,
//! sequence numbers, hop limit, peer address, neighbour cache state, ...).
//!
//! Per cell a fresh interface is built (two IPv4 and two IPv6 addresses, default
//! routes, one joined group per family, `any_ip` off), settled, the sockets of
//! the configuration are added, and ONE valid packet built by the independent
//! encoder (vkit::indep) is injected. The oracle looks only at the observable
//! effects of the single `Interface::poll` that ingests it: every socket's
//! state / receive queue before and after, and the frames in the tx log decoded
//! by the independent decoder. Rules R1..R5: see DESIGN.md "### C11".
//!
//! IEEE 802.15.4 is covered on the ingress side only: frames are injected through a
//! minimal independent 802.15.4 + IPHC encoder (all header fields in line), socket
//! effects are judged (R1 for a foreign PAN incl. "nothing emitted", R1 socket
//! effects for foreign IP destinations, R2, R5), but emitted 6LoWPAN frames are not
//! decoded, so R3/R4 and the "answered" half of R1 are not evaluated on that medium.

use serde_json::json;
use smoltcp::iface::SocketHandle;
use smoltcp::socket::{dns, icmp, raw, tcp, udp};
use smoltcp::storage::PacketMetadata;
use smoltcp::wire::{DnsQueryType, IpAddress, IpCidr, IpListenEndpoint, IpProtocol, IpVersion};
use std::collections::BTreeMap;
use vkit::indep::*;
use vkit::runner::{guarded, panic_in_smoltcp, panic_key, Fail, Part, PhaseResult, Prop, RunEnv};
use vkit::sim::{ms, Hw, Node};
use vkit::{Ctx, Src};

const NOW_MS: i64 = 1000;
const OWN_MAC: [u8; 6] = [2, 0, 0, 0, 0, 0x01];
const PEER_MAC: [u8; 6] = [2, 0, 0, 0, 0, 0x64];
const GW_MAC: [u8; 6] = [2, 0, 0, 0, 0, 0xfe];
const OTHER_MAC: [u8; 6] = [2, 0, 0, 0, 0, 0x77];
const OWN_EXT: [u8; 8] = [2, 0, 0, 0, 0, 0, 0, 0x01];
const PEER_EXT: [u8; 8] = [2, 0, 0, 0, 0, 0, 0, 0x64];
const OTHER_EXT: [u8; 8] = [2, 0, 0, 0, 0, 0, 0, 0x77];
const OWN_PAN: u16 = 0xabcd;
const OTHER_PAN: u16 = 0x1234;

// ------------------------------------------------------------------ table dimensions

#[derive(Clone, Copy, PartialEq, Eq, Debug)]
enum L2 {
    /// Medium::Ip (no link layer)
    IpMedium,
    EthOwn,
    EthOther,
    EthBroadcast,
    EthMulticast,
    /// IEEE 802.15.4 (IPv6 only): our PAN, our extended address
    IeeeOwn,
    /// our PAN, another station's extended address (smoltcp has no address filter on this medium;
    /// the statement only speaks of other PANs, so this is observed, not judged by R1)
    IeeeOtherStation,
    /// another PAN (the interface has a PAN id configured)
    IeeeOtherPan,
    /// broadcast PAN id and broadcast short address
    IeeeBroadcast,
    /// no destination addressing fields at all, source in another PAN (802.15.4: such a frame is
    /// meant for the coordinator of the SOURCE PAN) - added last so that tape coordinates keep
    /// their meaning
    IeeeNoDstOtherPan,
}
const L2S: [L2; 10] = [L2::IpMedium, L2::EthOwn, L2::EthOther, L2::EthBroadcast, L2::EthMulticast, L2::IeeeOwn, L2::IeeeOtherStation, L2::IeeeOtherPan, L2::IeeeBroadcast, L2::IeeeNoDstOtherPan];
impl L2 {
    fn name(self) -> &'static str {
        match self {
            L2::IpMedium => "ip-medium",
            L2::EthOwn => "eth-own-mac",
            L2::EthOther => "eth-other-station",
            L2::EthBroadcast => "eth-broadcast",
            L2::EthMulticast => "eth-multicast",
            L2::IeeeOwn => "ieee802154-own-address",
            L2::IeeeOtherStation => "ieee802154-other-station",
            L2::IeeeOtherPan => "ieee802154-other-pan",
            L2::IeeeBroadcast => "ieee802154-broadcast",
            L2::IeeeNoDstOtherPan => "ieee802154-no-destination-source-in-other-pan",
        }
    }
    fn medium(self) -> Med {
        match self {
            L2::IpMedium => Med::Ip,
            L2::EthOwn | L2::EthOther | L2::EthBroadcast | L2::EthMulticast => Med::Eth,
            _ => Med::Ieee,
        }
    }
}

#[derive(Clone, Copy, PartialEq, Eq, Debug)]
enum Med {
    Ip,
    Eth,
    Ieee,
}

/// L2 classes per family: IEEE 802.15.4 carries IPv6 only
fn l2s(v6: bool) -> &'static [L2] {
    if v6 {
        &L2S
    } else {
        &L2S[..5]
    }
}

#[derive(Clone, Copy, PartialEq, Eq, Debug)]
enum SrcC {
    OnLink,
    OffLink,
    Own,
    SubnetBcast,
    LimitedBcast,
    Multicast,
    Unspecified,
    Loopback,
}
const SRC4: [SrcC; 8] = [SrcC::OnLink, SrcC::OffLink, SrcC::Own, SrcC::SubnetBcast, SrcC::LimitedBcast, SrcC::Multicast, SrcC::Unspecified, SrcC::Loopback];
const SRC6: [SrcC; 6] = [SrcC::OnLink, SrcC::OffLink, SrcC::Own, SrcC::Multicast, SrcC::Unspecified, SrcC::Loopback];
impl SrcC {
    fn name(self) -> &'static str {
        match self {
            SrcC::OnLink => "on-link",
            SrcC::OffLink => "off-link",
            SrcC::Own => "own-address",
            SrcC::SubnetBcast => "subnet-broadcast",
            SrcC::LimitedBcast => "limited-broadcast",
            SrcC::Multicast => "multicast",
            SrcC::Unspecified => "unspecified",
            SrcC::Loopback => "loopback",
        }
    }
    /// "non-unicast source" in the sense of the statement (broadcast, multicast, unspecified)
    fn non_unicast(self) -> bool {
        matches!(self, SrcC::SubnetBcast | SrcC::LimitedBcast | SrcC::Multicast | SrcC::Unspecified)
    }
}

#[derive(Clone, Copy, PartialEq, Eq, Debug)]
enum DstC {
    /// first own address (the one "specific" sockets are bound to)
    Own,
    /// second own address
    Own2,
    OtherOnLink,
    OffLink,
    /// foreign IPv6 unicast sharing the low 16 bits of an own address
    Low16,
    /// foreign IPv6 unicast sharing the low 24 bits of an own address
    Low24,
    SubnetBcast,
    LimitedBcast,
    /// 224.0.0.1 / ff02::1
    AllNodes,
    SnOwn,
    SnOther,
    /// solicited-node group of another address whose low 16 (not 24) bits equal ours
    SnOtherLow16,
    Joined,
    Unjoined,
    Unspecified,
    Loopback,
}
const DST4: [DstC; 11] = [
    DstC::Own,
    DstC::Own2,
    DstC::OtherOnLink,
    DstC::OffLink,
    DstC::SubnetBcast,
    DstC::LimitedBcast,
    DstC::AllNodes,
    DstC::Joined,
    DstC::Unjoined,
    DstC::Unspecified,
    DstC::Loopback,
];
const DST6: [DstC; 14] = [
    DstC::Own,
    DstC::Own2,
    DstC::OtherOnLink,
    DstC::OffLink,
    DstC::Low16,
    DstC::Low24,
    DstC::AllNodes,
    DstC::SnOwn,
    DstC::SnOther,
    DstC::SnOtherLow16,
    DstC::Joined,
    DstC::Unjoined,
    DstC::Unspecified,
    DstC::Loopback,
];
impl DstC {
    fn name(self, v6: bool) -> &'static str {
        match self {
            DstC::Own => "own",
            DstC::Own2 => "own-second-address",
            DstC::OtherOnLink => "other-on-link",
            DstC::OffLink => "off-link",
            DstC::Low16 => "foreign-low16-match",
            DstC::Low24 => "foreign-low24-match",
            DstC::SubnetBcast => "subnet-broadcast",
            DstC::LimitedBcast => "limited-broadcast",
            DstC::AllNodes => {
                if v6 {
                    "all-nodes"
                } else {
                    "all-systems"
                }
            }
            DstC::SnOwn => "solicited-node-own",
            DstC::SnOther => "solicited-node-other",
            DstC::SnOtherLow16 => "solicited-node-other-low16-match",
            DstC::Joined => "joined-group",
            DstC::Unjoined => "unjoined-group",
            DstC::Unspecified => "unspecified",
            DstC::Loopback => "loopback",
        }
    }
    fn is_broadcast(self) -> bool {
        matches!(self, DstC::SubnetBcast | DstC::LimitedBcast)
    }
    fn is_multicast(self) -> bool {
        matches!(self, DstC::AllNodes | DstC::SnOwn | DstC::SnOther | DstC::SnOtherLow16 | DstC::Joined | DstC::Unjoined)
    }
    /// IP destination that is not ours by the statement and by common sense
    fn not_ours(self) -> bool {
        matches!(
            self,
            DstC::OtherOnLink | DstC::OffLink | DstC::Low16 | DstC::Low24 | DstC::SnOther | DstC::SnOtherLow16 | DstC::Unjoined | DstC::Unspecified | DstC::Loopback
        )
    }
}

#[derive(Clone, Copy, PartialEq, Eq, Debug)]
enum Proto {
    TcpSyn,
    TcpAck,
    TcpRst,
    TcpData,
    Udp,
    Echo,
    ErrTcp,
    ErrUdp,
    ErrEcho,
    Unknown,
    Hbh00,
    Hbh01,
    Hbh10,
    Hbh11,
}
const PROTO4: [Proto; 10] = [Proto::TcpSyn, Proto::TcpAck, Proto::TcpRst, Proto::TcpData, Proto::Udp, Proto::Echo, Proto::ErrTcp, Proto::ErrUdp, Proto::ErrEcho, Proto::Unknown];
const PROTO6: [Proto; 14] = [
    Proto::TcpSyn,
    Proto::TcpAck,
    Proto::TcpRst,
    Proto::TcpData,
    Proto::Udp,
    Proto::Echo,
    Proto::ErrTcp,
    Proto::ErrUdp,
    Proto::ErrEcho,
    Proto::Unknown,
    Proto::Hbh00,
    Proto::Hbh01,
    Proto::Hbh10,
    Proto::Hbh11,
];
impl Proto {
    fn name(self) -> &'static str {
        match self {
            Proto::TcpSyn => "tcp-syn",
            Proto::TcpAck => "tcp-ack",
            Proto::TcpRst => "tcp-rst",
            Proto::TcpData => "tcp-data",
            Proto::Udp => "udp",
            Proto::Echo => "icmp-echo-request",
            Proto::ErrTcp => "icmp-error-quoting-tcp",
            Proto::ErrUdp => "icmp-error-quoting-udp",
            Proto::ErrEcho => "icmp-error-quoting-echo",
            Proto::Unknown => "unknown-ip-protocol",
            Proto::Hbh00 => "hbh-unknown-opt-00+udp",
            Proto::Hbh01 => "hbh-unknown-opt-01+udp",
            Proto::Hbh10 => "hbh-unknown-opt-10+udp",
            Proto::Hbh11 => "hbh-unknown-opt-11+udp",
        }
    }
    fn is_tcp(self) -> bool {
        matches!(self, Proto::TcpSyn | Proto::TcpAck | Proto::TcpRst | Proto::TcpData)
    }
    fn is_udp(self) -> bool {
        matches!(self, Proto::Udp | Proto::Hbh00 | Proto::Hbh01 | Proto::Hbh10 | Proto::Hbh11)
    }
    fn is_icmp_error(self) -> bool {
        matches!(self, Proto::ErrTcp | Proto::ErrUdp | Proto::ErrEcho)
    }
    fn hbh_action(self) -> Option<u8> {
        match self {
            Proto::Hbh00 => Some(0),
            Proto::Hbh01 => Some(1),
            Proto::Hbh10 => Some(2),
            Proto::Hbh11 => Some(3),
            _ => None,
        }
    }
    /// has a port / identifier relation to the open sockets
    fn has_port(self) -> bool {
        !matches!(self, Proto::Unknown)
    }
}

#[derive(Clone, Copy, PartialEq, Eq, Debug)]
enum Bind {
    /// TCP listener, UDP socket and the ICMP Udp/Tcp-endpoint sockets bound to the unspecified address
    Any,
    /// ... bound to the first own address
    Specific,
    /// none of those sockets
    NoSockets,
}
const BINDS: [Bind; 3] = [Bind::Any, Bind::Specific, Bind::NoSockets];

#[derive(Clone, Copy, Debug)]
struct Coord {
    v6: bool,
    l2: L2,
    src: SrcC,
    dst: DstC,
    proto: Proto,
    /// true = the bound/listening port (identifier), false = a closed one
    bound_port: bool,
    bind: Bind,
    raw: bool,
    dns: bool,
}

impl Coord {
    fn fam(&self) -> &'static str {
        if self.v6 {
            "ipv6"
        } else {
            "ipv4"
        }
    }
    fn dst_name(&self) -> String {
        format!("{}-{}", self.fam(), self.dst.name(self.v6))
    }
    fn src_name(&self) -> String {
        format!("{}-{}", self.fam(), self.src.name())
    }
}

fn srcs(v6: bool) -> &'static [SrcC] {
    if v6 {
        &SRC6
    } else {
        &SRC4
    }
}
/// no group can be joined on an IEEE 802.15.4 interface (API misuse panic), so no "joined group" class there
const DST6I: [DstC; 13] = [
    DstC::Own,
    DstC::Own2,
    DstC::OtherOnLink,
    DstC::OffLink,
    DstC::Low16,
    DstC::Low24,
    DstC::AllNodes,
    DstC::SnOwn,
    DstC::SnOther,
    DstC::SnOtherLow16,
    DstC::Unjoined,
    DstC::Unspecified,
    DstC::Loopback,
];
fn dsts(v6: bool, l2: L2) -> &'static [DstC] {
    if l2.medium() == Med::Ieee {
        &DST6I
    } else if v6 {
        &DST6
    } else {
        &DST4
    }
}
/// the injected 6LoWPAN frames carry the next header in line, which smoltcp's
/// decompressor supports for TCP, UDP and ICMPv6 only
fn protos(v6: bool, l2: L2) -> &'static [Proto] {
    if l2.medium() == Med::Ieee {
        &PROTO6[..9]
    } else if v6 {
        &PROTO6
    } else {
        &PROTO4
    }
}

/// Tape form of the coordinates: fam l2 src dst proto port bind raw dns
fn read_coord(src: &mut Src) -> Coord {
    let v6 = src.draw(1) == 1;
    let l2 = l2s(v6)[src.draw(l2s(v6).len() as u64 - 1) as usize];
    let s = srcs(v6)[src.draw(srcs(v6).len() as u64 - 1) as usize];
    let d = dsts(v6, l2)[src.draw(dsts(v6, l2).len() as u64 - 1) as usize];
    let p = protos(v6, l2)[src.draw(protos(v6, l2).len() as u64 - 1) as usize];
    let port = src.draw(if p.has_port() { 1 } else { 0 });
    let bind = BINDS[src.draw(2) as usize];
    let raw = src.draw(1) == 1;
    // the query's port / transaction id cannot be read off undecoded 6LoWPAN frames: no DNS dimension there
    let dns = src.draw(if l2.medium() == Med::Ieee { 0 } else { 1 }) == 1;
    Coord { v6, l2, src: s, dst: d, proto: p, bound_port: port == 0, bind, raw, dns }
}

/// Every cell of the table as a coordinate tape.
fn all_cells() -> Vec<Vec<u64>> {
    let mut out = vec![];
    for fam in 0..2u64 {
        let v6 = fam == 1;
        for l2 in 0..l2s(v6).len() as u64 {
            let l2c = l2s(v6)[l2 as usize];
            for s in 0..srcs(v6).len() as u64 {
                for d in 0..dsts(v6, l2c).len() as u64 {
                    for (pi, p) in protos(v6, l2c).iter().enumerate() {
                        let ports = if p.has_port() { 2 } else { 1 };
                        for port in 0..ports {
                            for bind in 0..3u64 {
                                for raw in 0..2u64 {
                                    for dns in 0..(if l2c.medium() == Med::Ieee { 1 } else { 2u64 }) {
                                        out.push(vec![fam, l2, s, d, pi as u64, port, bind, raw, dns]);
                                    }
                                }
                            }
                        }
                    }
                }
            }
        }
    }
    out
}

// ------------------------------------------------------------------ free fields

#[derive(Clone, Debug)]
struct Fill {
    peer_var: u8,
    /// Ethernet: the sender (and the gateway) are in the neighbour cache
    cached: bool,
    rand_mac: Option<[u8; 6]>,
    sport: u16,
    /// port the sockets are bound to
    p: u16,
    closed: u16,
    hop: u8,
    payload: Vec<u8>,
    seq: u32,
    ack: u32,
    win: u16,
    syn_mss: Option<u16>,
    rst_with_ack: bool,
    ident: u16,
    other_ident: u16,
    icmp_seq: u16,
    /// 0 dst unreachable (port), 1 time exceeded, 2 dst unreachable (net / no route)
    err_kind: u8,
    hbh_low: u8,
    hbh_len: u8,
    unk_proto: u8,
    raw_wild: bool,
    dns_sport_flip: bool,
    /// a DNS response that is right in everything but one attribute: 0 = none, 1 = sent to another
    /// port than the query's, 2 = sent to the query's port with another transaction id
    dns_near_miss: u8,
    /// low-bit donor / solicited-node donor is the second (link-local) own address
    donor2: bool,
    foreign_offlink_prefix: bool,
    bcast2: bool,
    loop_var: bool,
    /// the TCP listener went through SYN -> SYN-RECEIVED -> RST -> LISTEN before the packet arrives
    aborted_prelude: bool,
    /// flags set in addition to RST in a reset (FIN, PSH, SYN combinations): still a reset, never answered
    rst_extra: u8,
}

impl Fill {
    fn default_fill() -> Fill {
        Fill {
            peer_var: 0,
            cached: true,
            rand_mac: None,
            sport: 50000,
            p: 4000,
            closed: 4001,
            hop: 64,
            payload: vec![0xde, 0xad, 0xbe, 0xef],
            seq: 1000,
            ack: 7000,
            win: 4096,
            syn_mss: None,
            rst_with_ack: false,
            ident: 0x1234,
            other_ident: 0x4321,
            icmp_seq: 1,
            err_kind: 0,
            hbh_low: 0x1e,
            hbh_len: 4,
            unk_proto: 253,
            raw_wild: false,
            dns_sport_flip: false,
            dns_near_miss: 0,
            donor2: false,
            foreign_offlink_prefix: false,
            bcast2: false,
            loop_var: false,
            aborted_prelude: false,
            rst_extra: 0,
        }
    }
    fn draw(src: &mut Src) -> Fill {
        let mut f = Fill::default_fill();
        // a tape that ends after the coordinates yields the default fill
        if !src.chance(7, 8) {
            return f;
        }
        f.peer_var = src.draw(50) as u8;
        f.cached = !src.chance(1, 8);
        if src.chance(1, 8) {
            let mut m = [0u8; 6];
            m.copy_from_slice(&src.bytes(6));
            m[0] &= 0xfe; // unicast
            if m == [0; 6] {
                m[5] = 9;
            }
            f.rand_mac = Some(m);
        }
        if src.chance(1, 2) {
            f.sport = src.range(1, 65535) as u16;
        }
        if src.chance(1, 2) {
            // keep clear of the DNS / mDNS / DHCP ports so that classes stay what they claim to be
            let mut p = src.biased(1, 65535) as u16;
            while matches!(p, 53 | 5353 | 67 | 68) {
                p = p.wrapping_add(1000);
            }
            f.p = p;
            f.closed = if src.chance(1, 2) {
                if p == 65535 {
                    65534
                } else {
                    p + 1
                }
            } else {
                let mut c = src.range(1, 65535) as u16;
                while c == p || matches!(c, 53 | 5353 | 67 | 68) {
                    c = c.wrapping_add(777).max(1);
                }
                c
            };
        }
        if src.chance(1, 3) {
            f.hop = *src.pick(&[1u8, 255, 2, 128, 64]);
        }
        if src.chance(1, 2) {
            let n = src.usize(0, 40);
            f.payload = src.bytes(n);
        }
        f.seq = src.u32();
        f.ack = src.u32();
        f.win = src.u16();
        if src.chance(1, 2) {
            f.syn_mss = Some(*src.pick(&[1460u16, 536, 100]));
        }
        f.rst_with_ack = src.bool();
        if src.chance(1, 2) {
            f.ident = src.u16();
            f.other_ident = f.ident.wrapping_add(src.range(1, 65535) as u16);
        }
        f.icmp_seq = src.u16();
        f.err_kind = src.weighted(&[4, 2, 1]) as u8;
        f.hbh_low = *src.pick(&[0x1eu8, 0x3e, 0x07, 0x1f, 0x26]);
        f.hbh_len = src.draw(4) as u8;
        f.unk_proto = *src.pick(&[253u8, 254, 200, 132]);
        f.raw_wild = src.bool();
        f.dns_sport_flip = src.chance(1, 4);
        f.donor2 = src.bool();
        f.foreign_offlink_prefix = src.bool();
        f.bcast2 = src.bool();
        f.loop_var = src.bool();
        // (appended last: saved tapes end before this draw and read 0 = none)
        f.dns_near_miss = src.weighted(&[2, 1, 1]) as u8;
        f.aborted_prelude = src.weighted(&[2, 1]) == 1;
        f.rst_extra = [0u8, FIN, PSH, FIN | PSH, SYN][src.weighted(&[4, 1, 1, 1, 1])];
        f
    }
}

// ------------------------------------------------------------------ addresses

struct Addrs {
    own1: Ip,
    own2: Ip,
    /// on-link sender (also DNS server and inner destination of quoted packets)
    peer: Ip,
    gw: Ip,
}

fn addrs(v6: bool, f: &Fill) -> Addrs {
    if v6 {
        Addrs {
            own1: Ip::v6([0xfd00, 0, 0, 1, 0, 0, 0x0012, 0x3456]),
            own2: Ip::v6([0xfe80, 0, 0, 0, 0xa, 0xb, 0xcc12, 0x7788]),
            peer: Ip::v6([0xfd00, 0, 0, 1, 0, 0, 9, 0x9002 + f.peer_var as u16]),
            gw: Ip::v6([0xfe80, 0, 0, 0, 0, 0, 0, 0xfe]),
        }
    } else {
        Addrs {
            own1: Ip::V4([192, 168, 69, 1]),
            own2: Ip::V4([172, 16, 7, 1]),
            peer: Ip::V4([192, 168, 69, 100 + f.peer_var]),
            gw: Ip::V4([192, 168, 69, 254]),
        }
    }
}

const JOINED4: [u8; 4] = [239, 1, 2, 3];
const UNJOINED4: [u8; 4] = [239, 9, 9, 9];
const JOINED6: [u16; 8] = [0xff02, 0, 0, 0, 0, 0, 0xdb8, 1];
const UNJOINED6: [u16; 8] = [0xff02, 0, 0, 0, 0, 0, 0xdb8, 2];

fn src_addr(c: &Coord, f: &Fill, a: &Addrs) -> Ip {
    if c.v6 {
        match c.src {
            SrcC::OnLink => a.peer,
            SrcC::OffLink => Ip::v6([0x2001, 0xdb8, 0, 0, 0, 0, 5, 0x5005]),
            SrcC::Own => a.own1,
            SrcC::Multicast => Ip::v6([0xff02, 0, 0, 0, 0, 0, 0, 5]),
            SrcC::Unspecified => Ip::V6([0; 16]),
            SrcC::Loopback => Ip::v6([0, 0, 0, 0, 0, 0, 0, 1]),
            SrcC::SubnetBcast | SrcC::LimitedBcast => unreachable!("no IPv6 broadcast"),
        }
    } else {
        match c.src {
            SrcC::OnLink => a.peer,
            SrcC::OffLink => Ip::V4([10, 9, 8, 7]),
            SrcC::Own => a.own1,
            SrcC::SubnetBcast => {
                if f.bcast2 {
                    Ip::V4([172, 16, 255, 255])
                } else {
                    Ip::V4([192, 168, 69, 255])
                }
            }
            SrcC::LimitedBcast => Ip::V4([255; 4]),
            SrcC::Multicast => Ip::V4([224, 0, 0, 5]),
            SrcC::Unspecified => Ip::V4([0; 4]),
            SrcC::Loopback => Ip::V4([127, 0, 0, 1]),
        }
    }
}

fn dst_addr(c: &Coord, f: &Fill, a: &Addrs) -> Ip {
    if c.v6 {
        // own1 ends in 0012:3456, own2 in cc12:7788
        let (lo24_hi, lo16) = if f.donor2 { (0x12u16, 0x7788u16) } else { (0x12u16, 0x3456u16) };
        let foreign = |seg6: u16, seg7: u16| {
            if f.foreign_offlink_prefix {
                Ip::v6([0x2001, 0xdb8, 0, 7, 0, 0xee, seg6, seg7])
            } else {
                Ip::v6([0xfd00, 0, 0, 1, 0, 0xee, seg6, seg7])
            }
        };
        match c.dst {
            DstC::Own => a.own1,
            DstC::Own2 => a.own2,
            DstC::OtherOnLink => Ip::v6([0xfd00, 0, 0, 1, 0, 0, 4, 0x4004]),
            DstC::OffLink => Ip::v6([0x2001, 0xdb8, 0, 0, 0, 0, 6, 0x6006]),
            // bits above the low 16 / 24 differ from the donor address
            DstC::Low16 => foreign(0x5599, lo16),
            DstC::Low24 => foreign(0x5500 | lo24_hi, lo16),
            DstC::AllNodes => Ip::v6([0xff02, 0, 0, 0, 0, 0, 0, 1]),
            DstC::SnOwn => Ip::v6([0xff02, 0, 0, 0, 0, 1, 0xff00 | lo24_hi, lo16]),
            DstC::SnOther => Ip::v6([0xff02, 0, 0, 0, 0, 1, 0xff99, 0x9999]),
            DstC::SnOtherLow16 => Ip::v6([0xff02, 0, 0, 0, 0, 1, 0xff99, lo16]),
            DstC::Joined => Ip::v6(JOINED6),
            DstC::Unjoined => Ip::v6(UNJOINED6),
            DstC::Unspecified => Ip::V6([0; 16]),
            DstC::Loopback => Ip::v6([0, 0, 0, 0, 0, 0, 0, 1]),
            DstC::SubnetBcast | DstC::LimitedBcast => unreachable!("no IPv6 broadcast"),
        }
    } else {
        match c.dst {
            DstC::Own => a.own1,
            DstC::Own2 => a.own2,
            DstC::OtherOnLink => Ip::V4([192, 168, 69, 77]),
            DstC::OffLink => Ip::V4([10, 1, 2, 3]),
            DstC::SubnetBcast => {
                if f.bcast2 {
                    Ip::V4([172, 16, 255, 255])
                } else {
                    Ip::V4([192, 168, 69, 255])
                }
            }
            DstC::LimitedBcast => Ip::V4([255; 4]),
            DstC::AllNodes => Ip::V4([224, 0, 0, 1]),
            DstC::Joined => Ip::V4(JOINED4),
            DstC::Unjoined => Ip::V4(UNJOINED4),
            DstC::Unspecified => Ip::V4([0; 4]),
            DstC::Loopback => {
                if f.loop_var {
                    Ip::V4([127, 9, 9, 9])
                } else {
                    Ip::V4([127, 0, 0, 1])
                }
            }
            DstC::Low16 | DstC::Low24 | DstC::SnOwn | DstC::SnOther | DstC::SnOtherLow16 => unreachable!("IPv6 only"),
        }
    }
}

// ------------------------------------------------------------------ world

struct Socks {
    tcp: Option<SocketHandle>,
    udp: Option<SocketHandle>,
    icmp_ident: Option<SocketHandle>,
    icmp_udp: Option<SocketHandle>,
    icmp_tcp: Option<SocketHandle>,
    dns: Option<(SocketHandle, dns::QueryHandle)>,
    /// (source port, transaction id) of the pending query as seen on the wire
    dns_wire: Option<(u16, u16)>,
    raw: Vec<SocketHandle>,
}

struct World {
    node: Node,
    socks: Socks,
    med: Med,
}

fn pbuf<H: Clone>(n: usize, bytes: usize, empty: PacketMetadata<H>) -> smoltcp::storage::PacketBuffer<'static, H> {
    smoltcp::storage::PacketBuffer::new(vec![empty; n], vec![0u8; bytes])
}

fn wrap_l2(eth: bool, dst: [u8; 6], src: [u8; 6], ip: &IpPkt) -> Vec<u8> {
    let b = ip.encode();
    if eth {
        Eth { dst, src, ethertype: if matches!(ip, IpPkt::V4(_)) { ETH_IPV4 } else { ETH_IPV6 }, payload: b }.encode()
    } else {
        b
    }
}

// ---- minimal independent IEEE 802.15.4 data frame + 6LoWPAN IPHC codec (RFC 6282), used only
// for the injected frames: every IPv6 header field except traffic class / flow label (both
// zero, elided) is carried in line, the next header is carried in line, nothing uses contexts.

#[derive(Clone, Copy, PartialEq, Eq, Debug)]
enum IeeeDst {
    Ext([u8; 8]),
    /// 16-bit short address
    Short(u16),
    /// destination addressing mode 0: neither destination PAN nor address; `dst_pan` is then the
    /// SOURCE PAN id, carried in front of the source address
    Absent,
}

fn ieee_encode(dst_pan: u16, dst: IeeeDst, src: [u8; 8], seq: u8, ip: &Ip6) -> Vec<u8> {
    assert!(ip.ext.is_empty() && ip.tc == 0 && ip.flow == 0, "harness: only plain IPv6 headers on 802.15.4");
    // frame control: data frame, PAN id compression, 2006 version, extended source
    let dst_mode: u16 = match dst {
        IeeeDst::Ext(_) => 3,
        IeeeDst::Short(_) => 2,
        IeeeDst::Absent => 0,
    };
    // PAN id compression only when both PAN ids would be present
    let comp: u16 = if dst_mode == 0 { 0 } else { 1 << 6 };
    let fcf: u16 = 1 | comp | (dst_mode << 10) | (1 << 12) | (3 << 14);
    let mut b = vec![];
    b.extend_from_slice(&fcf.to_le_bytes());
    b.push(seq);
    b.extend_from_slice(&dst_pan.to_le_bytes());
    match dst {
        IeeeDst::Ext(a) => b.extend(a.iter().rev()),
        IeeeDst::Short(a) => b.extend_from_slice(&a.to_le_bytes()),
        IeeeDst::Absent => {}
    }
    b.extend(src.iter().rev());
    // IPHC: 011 TF=11 NH=0 HLIM=00 | CID=0 SAC=0 SAM=00 M DAC=0 DAM=00
    b.push(0b0111_1000);
    b.push(if ip.dst[0] == 0xff { 0b0000_1000 } else { 0 });
    b.push(ip.proto);
    b.push(ip.hop);
    b.extend_from_slice(&ip.src);
    b.extend_from_slice(&ip.dst);
    b.extend_from_slice(&ip.payload);
    assert!(b.len() <= 127, "harness: 802.15.4 frame of {} bytes", b.len());
    b
}

/// Inverse of `ieee_encode` (strict): (destination PAN, destination, source, IPv6 packet bytes).
fn ieee_decode(b: &[u8]) -> Result<(u16, IeeeDst, [u8; 8], Vec<u8>), String> {
    if b.len() < 5 || b.len() > 127 {
        return Err(format!("802.15.4: frame of {} bytes", b.len()));
    }
    let fcf = u16::from_le_bytes([b[0], b[1]]);
    if fcf & 7 != 1 {
        return Err("802.15.4: not a data frame".into());
    }
    let no_dst = (fcf >> 10) & 3 == 0;
    if fcf & (1 << 3) != 0 || ((fcf & (1 << 6) == 0) != no_dst) || (fcf >> 14) & 3 != 3 || (fcf >> 12) & 3 > 1 {
        return Err(format!("802.15.4: frame control {:#06x} outside the harness profile", fcf));
    }
    let pan = u16::from_le_bytes([b[3], b[4]]);
    let mut at = 5;
    let take = |at: &mut usize, n: usize| -> Result<Vec<u8>, String> {
        if *at + n > b.len() {
            return Err("802.15.4: truncated".into());
        }
        let v = b[*at..*at + n].to_vec();
        *at += n;
        Ok(v)
    };
    let dst = match (fcf >> 10) & 3 {
        3 => {
            let mut a = [0u8; 8];
            a.copy_from_slice(&take(&mut at, 8)?);
            a.reverse();
            IeeeDst::Ext(a)
        }
        2 => {
            let v = take(&mut at, 2)?;
            IeeeDst::Short(u16::from_le_bytes([v[0], v[1]]))
        }
        0 => IeeeDst::Absent,
        m => return Err(format!("802.15.4: destination addressing mode {}", m)),
    };
    let mut src = [0u8; 8];
    src.copy_from_slice(&take(&mut at, 8)?);
    src.reverse();
    let h = take(&mut at, 2)?;
    if h[0] != 0b0111_1000 || h[1] & !0b0000_1000 != 0 {
        return Err(format!("iphc: header {:02x}{:02x} outside the harness profile", h[0], h[1]));
    }
    let nh_hop = take(&mut at, 2)?;
    let s = take(&mut at, 16)?;
    let d = take(&mut at, 16)?;
    if (d[0] == 0xff) != (h[1] & 0b1000 != 0) {
        return Err("iphc: M bit does not match the destination".into());
    }
    let mut s16 = [0u8; 16];
    s16.copy_from_slice(&s);
    let mut d16 = [0u8; 16];
    d16.copy_from_slice(&d);
    let mut p = Ip6::new(s16, d16, nh_hop[0], b[at..].to_vec());
    p.hop = nh_hop[1];
    Ok((pan, dst, src, p.encode()))
}

fn quiesce(node: &mut Node) -> Vec<Vec<u8>> {
    let mut all = vec![];
    for _ in 0..8 {
        let out = node.poll(ms(NOW_MS), None);
        if out.is_empty() {
            return all;
        }
        all.extend(out);
    }
    panic!("harness: interface does not become quiet");
}

const DNS_NAME: &str = "a.example";

fn build_world(c: &Coord, f: &Fill, a: &Addrs) -> World {
    let med = c.l2.medium();
    let eth = med == Med::Eth;
    let hw = match med {
        Med::Eth => Hw::Eth(OWN_MAC),
        Med::Ip => Hw::Ip,
        Med::Ieee => Hw::Ieee(OWN_EXT, Some(OWN_PAN)),
    };
    let mut node = Node::new(hw, if med == Med::Ieee { 127 } else { 1500 }, 0x1234_5678_9abc_def1, false, ms(NOW_MS));
    let a4 = addrs(false, f);
    let a6 = addrs(true, f);
    if med != Med::Ieee {
        node.add_addr(IpCidr::new(a4.own1.to_smol(), 24));
        node.add_addr(IpCidr::new(a4.own2.to_smol(), 16));
    }
    node.add_addr(IpCidr::new(a6.own1.to_smol(), 64));
    node.add_addr(IpCidr::new(a6.own2.to_smol(), 64));
    if let (IpAddress::Ipv4(g4), IpAddress::Ipv6(g6)) = (a4.gw.to_smol(), a6.gw.to_smol()) {
        if med != Med::Ieee {
            node.iface.routes_mut().add_default_ipv4_route(g4).expect("route4");
        }
        node.iface.routes_mut().add_default_ipv6_route(g6).expect("route6");
    }
    if med != Med::Ieee {
        // (joining a group on an IEEE 802.15.4 interface is API misuse)
        node.iface.join_multicast_group(Ip::V4(JOINED4).to_smol()).expect("join v4 group");
        node.iface.join_multicast_group(Ip::v6(JOINED6).to_smol()).expect("join v6 group");
    }
    assert!(!node.iface.any_ip());
    quiesce(&mut node);

    // neighbour cache: the on-link sender and the gateway announce themselves
    if eth && f.cached {
        for (ip, mac) in [(a.peer, PEER_MAC), (a.gw, GW_MAC)] {
            let frame = match (ip, a.own1) {
                (Ip::V4(s), Ip::V4(t)) => Eth { dst: MAC_BROADCAST, src: mac, ethertype: ETH_ARP, payload: Arp { op: 1, sha: mac, spa: s, tha: [0; 6], tpa: t }.encode() }.encode(),
                (Ip::V6(_), Ip::V6(_)) => {
                    // a link-local neighbour asks for our link-local address, a global one for the global address
                    let target = if ip == a.gw { a.own2 } else { a.own1 };
                    let Ip::V6(t) = target else { unreachable!() };
                    let sn = Ip::V6(solicited_node(&t));
                    let ns = nd_ns(&t, Some(&mac)).encode6(&ip, &sn);
                    let p = IpPkt::build(ip, sn, PROTO_ICMPV6, 255, ns);
                    wrap_l2(true, mac_for_multicast(&sn), mac, &p)
                }
                _ => unreachable!(),
            };
            node.inject(frame);
            let out = node.poll(ms(NOW_MS), None);
            assert!(!out.is_empty(), "harness: neighbour announcement of {} was not answered", ip);
        }
        quiesce(&mut node);
    }

    let mut socks = Socks { tcp: None, udp: None, icmp_ident: None, icmp_udp: None, icmp_tcp: None, dns: None, dns_wire: None, raw: vec![] };
    if c.bind != Bind::NoSockets {
        let addr = if c.bind == Bind::Specific { Some(a.own1.to_smol()) } else { None };
        let ep = IpListenEndpoint { addr, port: f.p };
        let mut t = tcp::Socket::new(tcp::SocketBuffer::new(vec![0u8; 256]), tcp::SocketBuffer::new(vec![0u8; 256]));
        t.listen(ep).expect("listen");
        socks.tcp = Some(node.sockets.add(t));
        // history: the listener has already seen a connection attempt that the peer gave up
        // (SYN, then RST while in SYN-RECEIVED) and is listening again; what it is bound to must
        // not have changed. Only where the SYN|ACK needs no neighbour discovery.
        if f.aborted_prelude && med != Med::Ieee && (!eth || f.cached) {
            let h = socks.tcp.unwrap();
            let (ps, pd) = (a.peer, a.own1);
            let isn = f.ack ^ 0x5a5a_0000;
            let sp = if f.sport == 65535 { 65534 } else { f.sport + 1 };
            let mut syn = Tcp::new(sp, f.p, isn, None, SYN, 1024);
            syn.opts.push(TcpOpt::Mss(536));
            let p1 = IpPkt::build(ps, pd, PROTO_TCP, 64, syn.encode(&ps, &pd));
            node.inject(wrap_l2(eth, OWN_MAC, PEER_MAC, &p1));
            node.poll(ms(NOW_MS), None);
            if node.sockets.get_mut::<tcp::Socket>(h).state() == tcp::State::SynReceived {
                let rst = Tcp::new(sp, f.p, isn.wrapping_add(1), None, RST, 0);
                let p2 = IpPkt::build(ps, pd, PROTO_TCP, 64, rst.encode(&ps, &pd));
                node.inject(wrap_l2(eth, OWN_MAC, PEER_MAC, &p2));
                node.poll(ms(NOW_MS), None);
            }
            quiesce(&mut node);
            if node.sockets.get_mut::<tcp::Socket>(h).state() != tcp::State::Listen {
                // (not this property's business; C05/C17 judge the handshake) start from a fresh listener
                let t = node.sockets.get_mut::<tcp::Socket>(h);
                t.abort();
                t.listen(ep).expect("listen again");
                quiesce(&mut node);
            }
        }
        let mut u = udp::Socket::new(pbuf(4, 512, udp::PacketMetadata::EMPTY), pbuf(1, 64, udp::PacketMetadata::EMPTY));
        u.bind(ep).expect("udp bind");
        socks.udp = Some(node.sockets.add(u));
        let mk_icmp = |e: icmp::Endpoint| {
            let mut s = icmp::Socket::new(pbuf(4, 1024, icmp::PacketMetadata::EMPTY), pbuf(1, 64, icmp::PacketMetadata::EMPTY));
            s.bind(e).expect("icmp bind");
            s
        };
        socks.icmp_ident = Some(node.sockets.add(mk_icmp(icmp::Endpoint::Ident(f.ident))));
        socks.icmp_udp = Some(node.sockets.add(mk_icmp(icmp::Endpoint::Udp(ep))));
        socks.icmp_tcp = Some(node.sockets.add(mk_icmp(icmp::Endpoint::Tcp(ep))));
    }
    if c.raw {
        let ver = if c.v6 { IpVersion::Ipv6 } else { IpVersion::Ipv4 };
        let protos: Vec<Option<IpProtocol>> = if f.raw_wild {
            vec![None]
        } else {
            vec![
                Some(IpProtocol::Tcp),
                Some(IpProtocol::Udp),
                Some(if c.v6 { IpProtocol::Icmpv6 } else { IpProtocol::Icmp }),
                Some(IpProtocol::from(f.unk_proto)),
                Some(IpProtocol::HopByHop),
            ]
        };
        for p in protos {
            let s = raw::Socket::new(Some(ver), p, pbuf(4, 1024, raw::PacketMetadata::EMPTY), pbuf(1, 64, raw::PacketMetadata::EMPTY));
            socks.raw.push(node.sockets.add(s));
        }
    }
    if c.dns {
        let s = dns::Socket::new(&[a.peer.to_smol()], vec![]);
        let h = node.sockets.add(s);
        let ty = if c.v6 { DnsQueryType::Aaaa } else { DnsQueryType::A };
        let q = {
            let cx = node.iface.context();
            node.sockets.get_mut::<dns::Socket>(h).start_query(cx, DNS_NAME, ty).expect("start_query")
        };
        socks.dns = Some((h, q));
        let out = quiesce(&mut node);
        for fr in out {
            let ipb = if eth {
                match decode_eth(&fr) {
                    Ok(e) if e.ethertype == ETH_IPV4 || e.ethertype == ETH_IPV6 => e.payload,
                    _ => continue,
                }
            } else {
                fr
            };
            if let Ok(ip) = decode_ip(&ipb, true) {
                if ip.proto() == PROTO_UDP {
                    if let Ok(u) = decode_udp(ip.payload(), &ip.src(), &ip.dst()) {
                        if u.dport == 53 && u.payload.len() >= 12 {
                            socks.dns_wire = Some((u.sport, u16::from_be_bytes([u.payload[0], u.payload[1]])));
                        }
                    }
                }
            }
        }
    }
    quiesce(&mut node);
    World { node, socks, med }
}

// ------------------------------------------------------------------ packet

struct Pkt {
    frame: Vec<u8>,
    src: Ip,
    dst: Ip,
    sport: u16,
    /// destination port (TCP/UDP), identifier (echo) or quoted source port / identifier (errors)
    key: u16,
    payload: Vec<u8>,
    desc: String,
    targets_dns: bool,
    /// a DNS response differing from the awaited one in the destination port or the txid only
    near_miss: bool,
}

fn dns_response(txid: u16, v6: bool) -> Vec<u8> {
    let mut b = vec![];
    b.extend_from_slice(&txid.to_be_bytes());
    b.extend_from_slice(&[0x81, 0x80, 0, 1, 0, 1, 0, 0, 0, 0]);
    for l in DNS_NAME.split('.') {
        b.push(l.len() as u8);
        b.extend_from_slice(l.as_bytes());
    }
    b.push(0);
    let ty: u16 = if v6 { 28 } else { 1 };
    b.extend_from_slice(&ty.to_be_bytes());
    b.extend_from_slice(&[0, 1]);
    b.extend_from_slice(&[0xc0, 0x0c]);
    b.extend_from_slice(&ty.to_be_bytes());
    b.extend_from_slice(&[0, 1, 0, 0, 0, 60]);
    if v6 {
        b.extend_from_slice(&[0, 16]);
        b.extend_from_slice(&[0x20, 0x01, 0x0d, 0xb8, 0, 0, 0, 0, 0, 0, 0, 0, 0, 0, 0, 0x35]);
    } else {
        b.extend_from_slice(&[0, 4, 203, 0, 113, 53]);
    }
    b
}

fn build_packet(c: &Coord, f: &Fill, a: &Addrs, w: &World) -> Pkt {
    let src = src_addr(c, f, a);
    let dst = dst_addr(c, f, a);
    let port = if c.bound_port { f.p } else { f.closed };
    let mut sport = f.sport;
    let mut payload = f.payload.clone();
    let mut key = port;
    let mut targets_dns = false;
    let mut near_miss = false;
    let desc;
    let ip: IpPkt = match c.proto {
        Proto::TcpSyn | Proto::TcpAck | Proto::TcpRst | Proto::TcpData => {
            let mut t = match c.proto {
                Proto::TcpSyn => {
                    let mut t = Tcp::new(sport, port, f.seq, None, SYN, f.win);
                    if let Some(m) = f.syn_mss {
                        t.opts.push(TcpOpt::Mss(m));
                    }
                    t
                }
                Proto::TcpAck => Tcp::new(sport, port, f.seq, Some(f.ack), 0, f.win),
                Proto::TcpRst => Tcp::new(sport, port, f.seq, if f.rst_with_ack { Some(f.ack) } else { None }, RST | f.rst_extra, 0),
                _ => {
                    let mut t = Tcp::new(sport, port, f.seq, Some(f.ack), PSH, f.win);
                    if payload.is_empty() {
                        payload = vec![0x55];
                    }
                    t.payload = payload.clone();
                    t
                }
            };
            if c.proto != Proto::TcpData {
                payload.clear();
                t.payload.clear();
            }
            desc = format!("{}", t);
            IpPkt::build(src, dst, PROTO_TCP, f.hop, t.encode(&src, &dst))
        }
        Proto::Udp | Proto::Hbh00 | Proto::Hbh01 | Proto::Hbh10 | Proto::Hbh11 => {
            let mut dport = port;
            if c.dns && c.bound_port {
                if let Some((qport, txid)) = w.socks.dns_wire {
                    // a usable answer to the pending query, from the server (53) unless the
                    // sender is not the server, then from the mDNS port which the socket takes from anyone
                    dport = qport;
                    payload = dns_response(txid, c.v6);
                    let from_server = c.src == SrcC::OnLink;
                    sport = if from_server != f.dns_sport_flip { 53 } else { 5353 };
                    targets_dns = true;
                }
            } else if c.dns && f.dns_near_miss != 0 {
                if let Some((qport, txid)) = w.socks.dns_wire {
                    // from the server's port 53 and well-formed: the only thing that tells this
                    // datagram from the awaited answer is the destination port / the transaction id
                    sport = 53;
                    if f.dns_near_miss == 1 {
                        if dport == qport {
                            dport ^= 1;
                        }
                        payload = dns_response(txid, c.v6);
                    } else {
                        dport = qport;
                        payload = dns_response(txid ^ 0x0101, c.v6);
                    }
                    near_miss = true;
                }
            }
            key = dport;
            let u = Udp::new(sport, dport, payload.clone());
            let l4 = u.encode(&src, &dst);
            match c.proto.hbh_action() {
                None => {
                    desc = format!("udp {}->{} len={}", sport, dport, payload.len());
                    IpPkt::build(src, dst, PROTO_UDP, f.hop, l4)
                }
                Some(act) => {
                    let ty = (act << 6) | (f.hbh_low & 0x3f);
                    let l = f.hbh_len.min(4) as usize;
                    let mut body = vec![ty, l as u8];
                    body.extend(std::iter::repeat(0xaa).take(l));
                    let rem = 6 - body.len();
                    match rem {
                        0 => {}
                        1 => body.push(0),
                        n => {
                            body.push(1);
                            body.push((n - 2) as u8);
                            body.extend(std::iter::repeat(0).take(n - 2));
                        }
                    }
                    desc = format!("hop-by-hop[option type {:#04x} len {}] udp {}->{} len={}", ty, l, sport, dport, payload.len());
                    let (Ip::V6(s), Ip::V6(d)) = (src, dst) else { unreachable!() };
                    let mut p = Ip6::new(s, d, PROTO_UDP, l4);
                    p.hop = f.hop;
                    p.ext.push(ExtHdr { kind: PROTO_HOPOPT, body });
                    IpPkt::V6(p)
                }
            }
        }
        Proto::Echo => {
            key = if c.bound_port { f.ident } else { f.other_ident };
            let m = Icmp::echo(c.v6, true, key, f.icmp_seq, payload.clone());
            desc = format!("echo request ident={:#06x} seq={} len={}", key, f.icmp_seq, payload.len());
            let l4 = if c.v6 { m.encode6(&src, &dst) } else { m.encode4() };
            IpPkt::build(src, dst, if c.v6 { PROTO_ICMPV6 } else { PROTO_ICMP }, f.hop, l4)
        }
        Proto::ErrTcp | Proto::ErrUdp | Proto::ErrEcho => {
            // the offending packet: something "we" sent from the first own address to the peer
            let (isrc, idst) = (a.own1, a.peer);
            let inner = match c.proto {
                Proto::ErrTcp => {
                    let t = Tcp::new(port, 33000, f.ack, None, SYN, 1024);
                    IpPkt::build(isrc, idst, PROTO_TCP, 63, t.encode(&isrc, &idst))
                }
                Proto::ErrUdp => {
                    let u = Udp::new(port, 33434, vec![1, 2, 3, 4]);
                    IpPkt::build(isrc, idst, PROTO_UDP, 63, u.encode(&isrc, &idst))
                }
                _ => {
                    key = if c.bound_port { f.ident } else { f.other_ident };
                    let m = Icmp::echo(c.v6, true, key, 9, vec![7; 8]);
                    let l4 = if c.v6 { m.encode6(&isrc, &idst) } else { m.encode4() };
                    IpPkt::build(isrc, idst, if c.v6 { PROTO_ICMPV6 } else { PROTO_ICMP }, 63, l4)
                }
            };
            payload = inner.encode();
            let (ty, code) = match (c.v6, f.err_kind) {
                (false, 0) => (3, 3),
                (false, 1) => (11, 0),
                (false, _) => (3, 0),
                (true, 0) => (1, 4),
                (true, 1) => (3, 0),
                (true, _) => (1, 0),
            };
            let m = Icmp { ty, code, rest: [0; 4], body: payload.clone() };
            desc = format!("icmp error type {} code {} quoting {} (quoted source port/ident {})", ty, code, c.proto.name(), key);
            let l4 = if c.v6 { m.encode6(&src, &dst) } else { m.encode4() };
            IpPkt::build(src, dst, if c.v6 { PROTO_ICMPV6 } else { PROTO_ICMP }, f.hop, l4)
        }
        Proto::Unknown => {
            if payload.len() < 8 {
                payload = vec![0x11; 8];
            }
            desc = format!("ip protocol {} len={}", f.unk_proto, payload.len());
            IpPkt::build(src, dst, f.unk_proto, f.hop, payload.clone())
        }
    };
    let frame = if w.med == Med::Ieee {
        let IpPkt::V6(p6) = &ip else { unreachable!("IPv6 only on 802.15.4") };
        let (pan, l2dst) = match c.l2 {
            L2::IeeeOwn => (OWN_PAN, IeeeDst::Ext(OWN_EXT)),
            L2::IeeeOtherStation => (OWN_PAN, IeeeDst::Ext(OTHER_EXT)),
            L2::IeeeOtherPan => (OTHER_PAN, IeeeDst::Ext(OWN_EXT)),
            L2::IeeeNoDstOtherPan => (OTHER_PAN, IeeeDst::Absent),
            _ => (0xffff, IeeeDst::Short(0xffff)),
        };
        let mut l2src = PEER_EXT;
        if let Some(m) = f.rand_mac {
            l2src[2..].copy_from_slice(&m);
        }
        ieee_encode(pan, l2dst, l2src, f.icmp_seq as u8, p6)
    } else {
        let l2dst = match c.l2 {
            L2::EthOther => OTHER_MAC,
            L2::EthBroadcast => MAC_BROADCAST,
            L2::EthMulticast => mac_for_multicast(&dst),
            _ => OWN_MAC,
        };
        let l2src = f.rand_mac.unwrap_or(if c.src == SrcC::OffLink { GW_MAC } else { PEER_MAC });
        wrap_l2(w.med == Med::Eth, l2dst, l2src, &ip)
    };
    Pkt { frame, src, dst, sport, key, payload, desc, targets_dns, near_miss }
}

/// The independent decoder confirms that the injected frame is a well-formed packet of the class.
fn wellformed(c: &Coord, p: &Pkt, med: Med) -> Result<(), String> {
    let ipb = match med {
        Med::Eth => {
            let e = decode_eth(&p.frame)?;
            let want = if c.v6 { ETH_IPV6 } else { ETH_IPV4 };
            if e.ethertype != want {
                return Err(format!("ethertype {:#06x}", e.ethertype));
            }
            e.payload
        }
        Med::Ip => p.frame.clone(),
        Med::Ieee => {
            let (pan, dst, _src, ipb) = ieee_decode(&p.frame)?;
            let ok = match c.l2 {
                L2::IeeeOwn => pan == OWN_PAN && dst == IeeeDst::Ext(OWN_EXT),
                L2::IeeeOtherStation => pan == OWN_PAN && matches!(dst, IeeeDst::Ext(a) if a != OWN_EXT),
                L2::IeeeOtherPan => pan != OWN_PAN && pan != 0xffff && dst != IeeeDst::Absent,
                L2::IeeeNoDstOtherPan => pan != OWN_PAN && pan != 0xffff && dst == IeeeDst::Absent,
                _ => pan == 0xffff && dst == IeeeDst::Short(0xffff),
            };
            if !ok {
                return Err("802.15.4 addressing does not match the class".into());
            }
            ipb
        }
    };
    let ip = decode_ip(&ipb, true)?;
    if ip.src() != p.src || ip.dst() != p.dst {
        return Err("addresses".into());
    }
    if let IpPkt::V6(p6) = &ip {
        for e in &p6.ext {
            check_tlv_options(&e.body)?;
        }
        if c.proto.hbh_action().is_some() != (p6.ext.len() == 1) {
            return Err("extension headers".into());
        }
    }
    match c.proto {
        Proto::TcpSyn | Proto::TcpAck | Proto::TcpRst | Proto::TcpData => {
            let d = decode_tcp(ip.payload(), &ip.src(), &ip.dst())?;
            if !d.opts_wellformed {
                return Err("tcp options".into());
            }
            let want = match c.proto {
                Proto::TcpSyn => SYN,
                Proto::TcpAck => ACK,
                Proto::TcpRst => RST,
                _ => ACK | PSH,
            };
            if c.proto == Proto::TcpRst {
                // a reset may carry further flags (the fill decides): it stays a reset
                if d.seg.flags & RST == 0 || d.seg.flags & !(ACK | RST | FIN | PSH | SYN) != 0 {
                    return Err(format!("tcp flags {:#x}", d.seg.flags));
                }
            } else if d.seg.flags & !ACK != want & !ACK || (d.seg.flags & ACK) != (want & ACK) {
                return Err(format!("tcp flags {:#x}", d.seg.flags));
            }
        }
        Proto::Udp | Proto::Hbh00 | Proto::Hbh01 | Proto::Hbh10 | Proto::Hbh11 => {
            if ip.proto() != PROTO_UDP {
                return Err("not udp".into());
            }
            decode_udp(ip.payload(), &ip.src(), &ip.dst())?;
        }
        Proto::Echo | Proto::ErrTcp | Proto::ErrUdp | Proto::ErrEcho => {
            let m = if c.v6 { decode_icmp6(ip.payload(), &ip.src(), &ip.dst())? } else { decode_icmp4(ip.payload())? };
            if c.proto.is_icmp_error() {
                if !(if c.v6 { m.is_error6() } else { m.is_error4() }) {
                    return Err("not an icmp error".into());
                }
                let inner = decode_ip(&m.body, true)?;
                match c.proto {
                    Proto::ErrTcp => {
                        decode_tcp(inner.payload(), &inner.src(), &inner.dst())?;
                    }
                    Proto::ErrUdp => {
                        decode_udp(inner.payload(), &inner.src(), &inner.dst())?;
                    }
                    _ => {
                        if c.v6 {
                            decode_icmp6(inner.payload(), &inner.src(), &inner.dst())?;
                        } else {
                            decode_icmp4(inner.payload())?;
                        }
                    }
                }
            } else if m.ty != if c.v6 { 128 } else { 8 } {
                return Err("not an echo request".into());
            }
        }
        Proto::Unknown => {
            if matches!(ip.proto(), PROTO_TCP | PROTO_UDP | PROTO_ICMP | PROTO_ICMPV6 | PROTO_IGMP | PROTO_HOPOPT | PROTO_V6FRAG | PROTO_V6ROUTE | PROTO_V6OPTS | PROTO_V6NONXT) {
                return Err("protocol is a known one".into());
            }
        }
    }
    Ok(())
}

// ------------------------------------------------------------------ observation

#[derive(Debug, Clone, PartialEq, Eq)]
enum Tx {
    ArpRequest,
    ArpReply,
    NeighborSolicit,
    NeighborAdvert,
    TcpRst,
    TcpOther(u8),
    IcmpError { v6: bool, ty: u8, code: u8 },
    EchoReply,
    Other(String),
}

fn classify_tx(frame: &[u8], med: Med) -> Result<(Tx, String), Fail> {
    if med == Med::Ieee {
        // compressed 6LoWPAN output is not decoded (no independent IPHC/NHC decoder)
        return Ok((Tx::Other("ieee802154-frame(undecoded)".into()), format!("802.15.4 frame of {} bytes (not decoded)", frame.len())));
    }
    let eth = med == Med::Eth;
    let bad = |e: String| Fail::new("emit:undecodable", format!("emitted frame does not decode: {} in {:02x?}", e, &frame[..frame.len().min(80)]));
    let ipb = if eth {
        let e = decode_eth(frame).map_err(bad)?;
        match e.ethertype {
            ETH_ARP => {
                let a = decode_arp(&e.payload).map_err(bad)?;
                let d = format!("arp op={} {:?} -> {:?}", a.op, a.spa, a.tpa);
                return Ok((if a.op == 1 { Tx::ArpRequest } else { Tx::ArpReply }, d));
            }
            ETH_IPV4 | ETH_IPV6 => e.payload,
            t => return Ok((Tx::Other(format!("ethertype {:#06x}", t)), format!("ethertype {:#06x}", t))),
        }
    } else {
        frame.to_vec()
    };
    let ip = decode_ip(&ipb, true).map_err(bad)?;
    let hdr = format!("{} -> {}", ip.src(), ip.dst());
    match ip.proto() {
        PROTO_TCP => {
            let d = decode_tcp(ip.payload(), &ip.src(), &ip.dst()).map_err(bad)?;
            let desc = format!("{} {}", hdr, d.seg);
            Ok((if d.seg.has(RST) { Tx::TcpRst } else { Tx::TcpOther(d.seg.flags) }, desc))
        }
        PROTO_ICMP if ip.dst().is_v4() => {
            let m = decode_icmp4(ip.payload()).map_err(bad)?;
            let desc = format!("{} icmpv4 type {} code {}", hdr, m.ty, m.code);
            let t = if m.ty == 0 {
                Tx::EchoReply
            } else if m.is_error4() {
                Tx::IcmpError { v6: false, ty: m.ty, code: m.code }
            } else {
                Tx::Other(format!("icmpv4 type {}", m.ty))
            };
            Ok((t, desc))
        }
        PROTO_ICMPV6 if !ip.dst().is_v4() => {
            let m = decode_icmp6(ip.payload(), &ip.src(), &ip.dst()).map_err(bad)?;
            let desc = format!("{} icmpv6 type {} code {}", hdr, m.ty, m.code);
            let t = match m.ty {
                129 => Tx::EchoReply,
                ND_NS => Tx::NeighborSolicit,
                ND_NA => Tx::NeighborAdvert,
                t if t < 128 => Tx::IcmpError { v6: true, ty: m.ty, code: m.code },
                t => Tx::Other(format!("icmpv6 type {}", t)),
            };
            Ok((t, desc))
        }
        p => Ok((Tx::Other(format!("ip protocol {}", p)), format!("{} ip protocol {}", hdr, p))),
    }
}

/// Stable name of an emitted ICMP error for failure keys.
fn err_name(t: &Tx) -> String {
    match t {
        Tx::IcmpError { v6: false, ty: 3, .. } | Tx::IcmpError { v6: true, ty: 1, .. } => "icmp-dst-unreachable".to_string(),
        Tx::IcmpError { v6: false, ty: 11, .. } | Tx::IcmpError { v6: true, ty: 3, .. } => "icmp-time-exceeded".to_string(),
        Tx::IcmpError { v6: true, ty: 4, code: 1 } => "icmp-param-problem-unrecognized-next-header".to_string(),
        Tx::IcmpError { v6: true, ty: 4, code: 2 } => "icmp-param-problem-unrecognized-option".to_string(),
        Tx::IcmpError { v6, ty, .. } => format!("icmpv{}-error-type{}", if *v6 { 6 } else { 4 }, ty),
        _ => "not-an-icmp-error".to_string(),
    }
}

struct Effects {
    tcp_state: Option<(tcp::State, tcp::State)>,
    tcp_rx: usize,
    udp: Vec<(Vec<u8>, Ip, u16, Option<Ip>)>,
    icmp_ident: Vec<Vec<u8>>,
    icmp_udp: Vec<Vec<u8>>,
    icmp_tcp: Vec<Vec<u8>>,
    /// Some(true) = the pending query completed or failed
    dns_changed: Option<bool>,
    raw: usize,
    tx: Vec<(Tx, String)>,
}

fn drain_icmp(node: &mut Node, h: Option<SocketHandle>) -> Vec<Vec<u8>> {
    let mut v = vec![];
    if let Some(h) = h {
        let s = node.sockets.get_mut::<icmp::Socket>(h);
        while s.can_recv() {
            let (d, _) = s.recv().expect("icmp recv");
            v.push(d.to_vec());
        }
    }
    v
}

// ------------------------------------------------------------------ the cell

/// `ctx.report`, plus a development knob: with VERIF_C11_PAST=all (or a comma
/// separated list of key prefixes) those violations are only labelled
/// ("violation:<key>") and the case goes on. Ignored in replay (strict) mode.
fn report(ctx: &mut Ctx, f: Fail) -> Result<(), Fail> {
    static PAST: std::sync::OnceLock<Vec<String>> = std::sync::OnceLock::new();
    let past = PAST.get_or_init(|| std::env::var("VERIF_C11_PAST").map(|v| v.split(',').map(|s| s.to_string()).collect()).unwrap_or_default());
    if !ctx.strict && past.iter().any(|p| p == "all" || p == "1" || f.key.starts_with(p.as_str())) {
        ctx.label(&format!("violation:{}", f.key));
        return Ok(());
    }
    ctx.report(f)
}

/// Runs one cell and returns every rule violation observed (in a fixed order).
fn run_cell(c: &Coord, f: &Fill, ctx: &mut Ctx) -> Result<Vec<Fail>, Fail> {
    let a = addrs(c.v6, f);
    let mut w = build_world(c, f, &a);
    let pkt = build_packet(c, f, &a, &w);
    let med = w.med;
    let eth = med == Med::Eth;

    ctx.label(&format!("fam:{}", c.fam()));
    ctx.label(&format!("l2:{}", c.l2.name()));
    ctx.label(&format!("src:{}", c.src_name()));
    ctx.label(&format!("dst:{}", c.dst_name()));
    ctx.label(&format!("proto:{}", c.proto.name()));
    ctx.label(if c.bound_port { "port:bound" } else { "port:closed" });
    ctx.label(match c.bind {
        Bind::Any => "cfg:bind-any",
        Bind::Specific => "cfg:bind-specific",
        Bind::NoSockets => "cfg:no-tcp-udp-icmp-sockets",
    });
    if c.raw {
        ctx.label("cfg:raw-sockets");
    }
    if c.dns {
        ctx.label(if w.socks.dns_wire.is_some() { "cfg:dns-pending-query" } else { "cfg:dns-query-not-seen-on-wire" });
    }
    if pkt.targets_dns {
        ctx.label("pkt:dns-response-to-query-port");
    }
    if f.aborted_prelude && c.bind != Bind::NoSockets && w.med != Med::Ieee && (w.med != Med::Eth || f.cached) {
        ctx.label("history:listener-after-aborted-handshake");
    }
    if c.proto == Proto::TcpRst && f.rst_extra != 0 {
        ctx.label("pkt:reset-with-further-flags");
    }
    if pkt.near_miss {
        ctx.label(if f.dns_near_miss == 1 { "pkt:dns-response-to-another-port" } else { "pkt:dns-response-with-another-txid" });
    }
    if eth && !f.cached {
        ctx.label("cfg:neighbour-cache-empty");
    }
    ctx.note(|| {
        format!(
            "cell: {} l2={} src={} dst={} proto={} port={} bind={:?} raw={} dns={}",
            c.fam(),
            c.l2.name(),
            c.src.name(),
            c.dst.name(c.v6),
            c.proto.name(),
            if c.bound_port { "bound" } else { "closed" },
            c.bind,
            c.raw,
            c.dns
        )
    });
    ctx.note(|| format!("sockets bound to port {} ident {:#06x}; dns query on the wire (port, txid) = {:?}; neighbour cached = {}", f.p, f.ident, w.socks.dns_wire, f.cached));
    ctx.note(|| format!("inject: {} -> {} hop={} : {}", pkt.src, pkt.dst, f.hop, pkt.desc));

    match wellformed(c, &pkt, med) {
        Ok(()) => ctx.nontrivial = true,
        Err(e) => panic!("harness: injected packet is not well-formed: {} ({:?})", e, c),
    }

    // ---- before
    let tcp_before = w.socks.tcp.map(|h| w.node.sockets.get_mut::<tcp::Socket>(h).state());
    if let Some(h) = w.socks.udp {
        assert!(!w.node.sockets.get_mut::<udp::Socket>(h).can_recv());
    }
    if let Some((h, q)) = w.socks.dns {
        let r = w.node.sockets.get_mut::<dns::Socket>(h).get_query_result(q);
        assert!(matches!(r, Err(dns::GetQueryResultError::Pending)), "harness: dns query not pending before the injection");
    }
    for h in w.socks.raw.clone() {
        assert!(!w.node.sockets.get_mut::<raw::Socket>(h).can_recv());
    }

    // ---- the single poll
    w.node.inject(pkt.frame.clone());
    let frames = w.node.poll(ms(NOW_MS), None);

    // ---- after
    let mut fx = Effects { tcp_state: None, tcp_rx: 0, udp: vec![], icmp_ident: vec![], icmp_udp: vec![], icmp_tcp: vec![], dns_changed: None, raw: 0, tx: vec![] };
    if let Some(h) = w.socks.tcp {
        let s = w.node.sockets.get_mut::<tcp::Socket>(h);
        fx.tcp_state = Some((tcp_before.unwrap(), s.state()));
        fx.tcp_rx = s.recv_queue();
    }
    if let Some(h) = w.socks.udp {
        let s = w.node.sockets.get_mut::<udp::Socket>(h);
        while s.can_recv() {
            let (d, m) = s.recv().expect("udp recv");
            fx.udp.push((d.to_vec(), Ip::from_smol(m.endpoint.addr), m.endpoint.port, m.local_address.map(Ip::from_smol)));
        }
    }
    fx.icmp_ident = drain_icmp(&mut w.node, w.socks.icmp_ident);
    fx.icmp_udp = drain_icmp(&mut w.node, w.socks.icmp_udp);
    fx.icmp_tcp = drain_icmp(&mut w.node, w.socks.icmp_tcp);
    if let Some((h, q)) = w.socks.dns {
        let r = w.node.sockets.get_mut::<dns::Socket>(h).get_query_result(q);
        fx.dns_changed = Some(!matches!(r, Err(dns::GetQueryResultError::Pending)));
    }
    for h in w.socks.raw.clone() {
        let s = w.node.sockets.get_mut::<raw::Socket>(h);
        while s.can_recv() {
            let _ = s.recv();
            fx.raw += 1;
        }
    }
    for fr in &frames {
        fx.tx.push(classify_tx(fr, med)?);
    }

    let tcp_changed = fx.tcp_state.map_or(false, |(b, a)| b != a) || fx.tcp_rx > 0;
    let dns_changed = fx.dns_changed == Some(true);
    ctx.note(|| {
        format!(
            "effects: tcp listener {:?} rxq={} | udp datagrams {} | icmp(ident/udp/tcp) {}/{}/{} | dns changed {:?} | raw {}",
            fx.tcp_state,
            fx.tcp_rx,
            fx.udp.len(),
            fx.icmp_ident.len(),
            fx.icmp_udp.len(),
            fx.icmp_tcp.len(),
            fx.dns_changed,
            fx.raw
        )
    });
    for (_, d) in &fx.tx {
        ctx.note(|| format!("tx: {}", d));
    }
    if fx.tx.is_empty() {
        ctx.note(|| "tx: nothing".to_string());
    }

    // labels for the effects (shows that the classes are alive)
    if tcp_changed {
        ctx.label("fx:tcp-listener-changed");
    }
    if !fx.udp.is_empty() {
        ctx.label("fx:udp-delivered");
    }
    if !fx.icmp_ident.is_empty() {
        ctx.label("fx:icmp-ident-socket-delivered");
    }
    if !fx.icmp_udp.is_empty() {
        ctx.label("fx:icmp-udp-endpoint-socket-delivered");
    }
    if !fx.icmp_tcp.is_empty() {
        ctx.label("fx:icmp-tcp-endpoint-socket-delivered");
    }
    if dns_changed {
        ctx.label("fx:dns-query-completed");
    }
    if fx.raw > 0 {
        ctx.label("fx:raw-delivered");
    }
    for (t, _) in &fx.tx {
        match t {
            Tx::ArpRequest => {
                ctx.label("tx:arp-request(not counted as an answer)")
            }
            Tx::NeighborSolicit => {
                ctx.label("tx:neighbor-solicit(not counted as an answer)")
            }
            Tx::ArpReply => ctx.label("tx:arp-reply"),
            Tx::NeighborAdvert => ctx.label("tx:neighbor-advert"),
            Tx::TcpRst => ctx.label("tx:tcp-rst"),
            Tx::TcpOther(fl) => ctx.label(&format!("tx:tcp-{}", flags_str(*fl))),
            Tx::IcmpError { v6, ty, code } => ctx.label(&format!("tx:icmpv{}-error-type{}-code{}", if *v6 { 6 } else { 4 }, ty, code)),
            Tx::EchoReply => ctx.label("tx:echo-reply"),
            Tx::Other(s) => ctx.label(&format!("tx:other:{}", s)),
        }
    }
    if fx.tx.is_empty() {
        ctx.label("tx:nothing");
    }

    // ---- rules
    let mut v: Vec<Fail> = vec![];
    let dstn = c.dst_name();
    let what = format!(
        "[{} l2={} src={} dst={} proto={} port={} bind={:?} raw={} dns={}] {} -> {} : {}",
        c.fam(),
        c.l2.name(),
        c.src.name(),
        c.dst.name(c.v6),
        c.proto.name(),
        if c.bound_port { "bound" } else { "closed" },
        c.bind,
        c.raw,
        c.dns,
        pkt.src,
        pkt.dst,
        pkt.desc
    );
    let answers: Vec<&(Tx, String)> = fx.tx.iter().filter(|(t, _)| !matches!(t, Tx::ArpRequest | Tx::NeighborSolicit)).collect();
    let rst = fx.tx.iter().find(|(t, _)| *t == Tx::TcpRst);
    let icmp_err = fx.tx.iter().find(|(t, _)| matches!(t, Tx::IcmpError { .. }));

    // R1: not addressed to us => no socket changed, nothing emitted
    let l2_foreign = matches!(c.l2, L2::EthOther | L2::IeeeOtherPan | L2::IeeeNoDstOtherPan);
    if l2_foreign || c.dst.not_ours() {
        ctx.label("rule:R1-applies");
        let cls = match c.l2 {
            L2::EthOther => "l2=other-station".to_string(),
            L2::IeeeOtherPan => "l2=ieee802154-other-pan".to_string(),
            L2::IeeeNoDstOtherPan => "l2=ieee802154-no-destination-source-in-other-pan".to_string(),
            _ => format!("dst={}", dstn),
        };
        let why = match c.l2 {
            L2::EthOther => "the frame is for another station",
            L2::IeeeOtherPan => "the frame is for another PAN",
            L2::IeeeNoDstOtherPan => "the frame carries no destination and comes from another PAN (it is for that PAN's coordinator)",
            _ => "the IP destination is not an address or group of the interface",
        };
        if tcp_changed {
            v.push(Fail::new(format!("R1:tcp-listener-changed:{}", cls), format!("{}, yet the TCP listener went {:?} (rx queue {}): {}", why, fx.tcp_state, fx.tcp_rx, what)));
        }
        if !fx.udp.is_empty() {
            v.push(Fail::new(format!("R1:udp-delivered:{}", cls), format!("{}, yet the UDP socket received {} datagram(s): {}", why, fx.udp.len(), what)));
        }
        if !fx.icmp_ident.is_empty() || !fx.icmp_udp.is_empty() || !fx.icmp_tcp.is_empty() {
            v.push(Fail::new(format!("R1:icmp-delivered:{}", cls), format!("{}, yet an ICMP socket received the message: {}", why, what)));
        }
        if dns_changed {
            v.push(Fail::new(format!("R1:dns-query-answered:{}", cls), format!("{}, yet the pending DNS query left the Pending state: {}", why, what)));
        }
        if med == Med::Ieee {
            // emitted 6LoWPAN frames are not decoded: an answer cannot be told from a neighbour
            // solicitation, except for a foreign PAN where the frame must die at the link layer
            if matches!(c.l2, L2::IeeeOtherPan | L2::IeeeNoDstOtherPan) && !fx.tx.is_empty() {
                v.push(Fail::new(format!("R1:frame-emitted:{}", cls), format!("{}, yet {} frame(s) were emitted: {}", why, fx.tx.len(), what)));
            } else if !fx.tx.is_empty() {
                ctx.label("r1:ieee802154-frames-emitted(not judged)");
            }
        }
        for (t, d) in answers.iter().filter(|_| med != Med::Ieee) {
            let k = match t {
                Tx::TcpRst => "tcp-rst".to_string(),
                Tx::TcpOther(fl) => format!("tcp-{}", flags_str(*fl)),
                Tx::IcmpError { .. } => err_name(t),
                Tx::EchoReply => "echo-reply".to_string(),
                _ => "other".to_string(),
            };
            v.push(Fail::new(format!("R1:answered-{}:{}", k, cls), format!("{}, yet the stack answered with [{}]: {}", why, d, what)));
        }
    }

    // R2: anything a socket received matches its bound endpoint
    {
        let own1 = a.own1;
        let addr_ok = |bound_specific: bool| !bound_specific || pkt.dst == own1 || c.dst.is_broadcast() || c.dst.is_multicast();
        let specific = c.bind == Bind::Specific;
        if tcp_changed {
            if !c.proto.is_tcp() || pkt.key != f.p {
                v.push(Fail::new("R2:tcp-listener-wrong-port", format!("listener on port {} changed ({:?}) by: {}", f.p, fx.tcp_state, what)));
            } else if specific && pkt.dst != own1 {
                v.push(Fail::new(format!("R2:tcp-listener-wrong-address:dst={}", dstn), format!("listener bound to {} changed ({:?}) by: {}", own1, fx.tcp_state, what)));
            }
        }
        for (d, from, fport, local) in &fx.udp {
            if !c.proto.is_udp() || pkt.key != f.p {
                v.push(Fail::new("R2:udp-wrong-port", format!("UDP socket bound to port {} received: {}", f.p, what)));
            } else if !addr_ok(specific) {
                v.push(Fail::new(format!("R2:udp-wrong-address:dst={}", dstn), format!("UDP socket bound to {} received: {}", own1, what)));
            }
            if *d != pkt.payload || *from != pkt.src || *fport != pkt.sport || *local != Some(pkt.dst) {
                v.push(Fail::new("R2:udp-content-mismatch", format!("UDP socket yielded {} bytes from {}:{} local {:?}, injected: {}", d.len(), from, fport, local, what)));
            }
        }
        if !fx.icmp_ident.is_empty() && (c.proto != Proto::Echo || pkt.key != f.ident) {
            v.push(Fail::new("R2:icmp-ident-socket-wrong-ident", format!("ICMP socket bound to ident {:#06x} received: {}", f.ident, what)));
        }
        for (got, want, name) in [(&fx.icmp_udp, Proto::ErrUdp, "udp"), (&fx.icmp_tcp, Proto::ErrTcp, "tcp")] {
            if got.is_empty() {
                continue;
            }
            if c.proto != want || pkt.key != f.p {
                v.push(Fail::new(format!("R2:icmp-{}-endpoint-socket-wrong-port", name), format!("ICMP socket bound to {} port {} received: {}", name, f.p, what)));
            } else if !addr_ok(specific) {
                v.push(Fail::new(format!("R2:icmp-{}-endpoint-socket-wrong-address:dst={}", name, dstn), format!("ICMP socket bound to {} {} port {} received: {}", name, own1, f.p, what)));
            }
        }
        if dns_changed && !(c.proto.is_udp() && pkt.targets_dns) {
            v.push(Fail::new("R2:dns-wrong-port", format!("pending query (port, txid) {:?} left Pending by: {}", w.socks.dns_wire, what)));
        }
    }

    // R3: broadcast/multicast destination or non-unicast source => no RST, no ICMP error
    let r3_dst = c.dst.is_broadcast() || c.dst.is_multicast();
    if med == Med::Ieee {
        // tx log not decoded on this medium; the IP layer code judged by R3/R4 is medium independent
        ctx.label("rule:R3-R4-not-evaluated(ieee802154 tx undecoded)");
    }
    if r3_dst || c.src.non_unicast() {
        ctx.label("rule:R3-applies");
        let cls = if r3_dst { format!("dst={}", dstn) } else { format!("src={}", c.src_name()) };
        if let Some((_, d)) = rst {
            v.push(Fail::new(format!("R3:tcp-rst:{}", cls), format!("TCP reset [{}] sent in answer to: {}", d, what)));
        }
        if let Some((t, d)) = icmp_err {
            let exempt = c.proto == Proto::Hbh10 && matches!(t, Tx::IcmpError { v6: true, ty: 4, code: 2 });
            if exempt {
                // RFC 8200 4.2 / RFC 4443 2.4(e.3): required even for multicast destinations
                ctx.label("r3-exempt:param-problem-code2-for-option-10xxxxxx");
                ctx.count("r3_exempt_param_problem_code2", 1);
            } else {
                v.push(Fail::new(format!("R3:{}:{}", err_name(t), cls), format!("ICMP error [{}] sent in answer to: {}", d, what)));
            }
        }
    }

    // R4: no error in answer to an ICMP error or a RST
    if c.proto.is_icmp_error() || c.proto == Proto::TcpRst {
        ctx.label("rule:R4-applies");
        let input = if c.proto == Proto::TcpRst { "tcp-rst" } else { "icmp-error" };
        if let Some((_, d)) = rst {
            v.push(Fail::new(format!("R4:tcp-rst-answers-{}", input), format!("TCP reset [{}] sent in answer to: {}", d, what)));
        }
        if let Some((t, d)) = icmp_err {
            v.push(Fail::new(format!("R4:{}-answers-{}", err_name(t), input), format!("ICMP error [{}] sent in answer to: {}", d, what)));
        }
    }

    // R5: TCP to broadcast / multicast / loopback-from-the-network never changes a socket's state
    if c.proto.is_tcp() && (r3_dst || c.dst == DstC::Loopback) {
        ctx.label("rule:R5-applies");
        if let Some((b, af)) = fx.tcp_state {
            if b != af {
                v.push(Fail::new(format!("R5:listener-state-changed:dst={}", dstn), format!("listener went {} -> {} on: {}", b, af, what)));
            }
        }
    }

    // positive controls (labels only): plain unicast traffic for us behaves as expected
    if c.dst == DstC::Own && matches!(c.src, SrcC::OnLink | SrcC::OffLink) && matches!(c.l2, L2::IpMedium | L2::EthOwn | L2::IeeeOwn | L2::IeeeOtherStation | L2::IeeeBroadcast) && !c.raw && c.bind == Bind::Any && (f.cached || !eth) {
        if med == Med::Ieee {
            match c.proto {
                Proto::TcpSyn if c.bound_port => ctx.label(if tcp_changed { "ctl:ieee-syn-accepted" } else { "ctl:FAILED-ieee-syn-not-accepted" }),
                Proto::Udp if c.bound_port => ctx.label(if fx.udp.len() == 1 { "ctl:ieee-udp-delivered" } else { "ctl:FAILED-ieee-udp-not-delivered" }),
                Proto::Echo if c.bound_port => ctx.label(if fx.icmp_ident.len() == 1 { "ctl:ieee-echo-to-ident-socket" } else { "ctl:FAILED-ieee-echo-not-delivered" }),
                Proto::ErrTcp if c.bound_port && f.err_kind < 2 => ctx.label(if fx.icmp_tcp.len() == 1 { "ctl:ieee-icmp-error-to-tcp-endpoint-socket" } else { "ctl:FAILED-ieee-icmp-error-not-delivered" }),
                _ => {}
            }
        } else {
        match c.proto {
            Proto::TcpSyn if c.bound_port => ctx.label(if tcp_changed && fx.tx.iter().any(|(t, _)| matches!(t, Tx::TcpOther(fl) if fl & SYN != 0)) { "ctl:syn-accepted-synack-sent" } else { "ctl:FAILED-syn-not-accepted" }),
            Proto::TcpSyn => ctx.label(if rst.is_some() { "ctl:closed-port-rst" } else { "ctl:FAILED-no-rst-for-closed-port" }),
            Proto::Udp if c.bound_port && !c.dns => ctx.label(if fx.udp.len() == 1 { "ctl:udp-delivered" } else { "ctl:FAILED-udp-not-delivered" }),
            Proto::Udp if c.bound_port && pkt.targets_dns && (pkt.sport == 5353 || c.src == SrcC::OnLink) => ctx.label(if dns_changed { "ctl:dns-answer-accepted" } else { "ctl:FAILED-dns-answer-not-accepted" }),
            Proto::Udp if !c.bound_port => ctx.label(if icmp_err.is_some() { "ctl:closed-port-unreachable" } else { "ctl:FAILED-no-port-unreachable" }),
            Proto::Echo => ctx.label(if fx.tx.iter().any(|(t, _)| *t == Tx::EchoReply) { "ctl:echo-replied" } else { "ctl:FAILED-no-echo-reply" }),
            Proto::ErrUdp if c.bound_port && f.err_kind < 2 => ctx.label(if fx.icmp_udp.len() == 1 { "ctl:icmp-error-to-udp-endpoint-socket" } else { "ctl:FAILED-icmp-error-not-delivered" }),
            Proto::ErrTcp if c.bound_port && f.err_kind < 2 => ctx.label(if fx.icmp_tcp.len() == 1 { "ctl:icmp-error-to-tcp-endpoint-socket" } else { "ctl:FAILED-icmp-error-not-delivered" }),
            Proto::Hbh11 | Proto::Hbh10 => ctx.label(if matches!(icmp_err, Some((Tx::IcmpError { ty: 4, code: 2, .. }, _))) { "ctl:hbh-param-problem" } else { "ctl:FAILED-no-param-problem" }),
            _ => {}
        }
        }
    }
    for f in &v {
        let key = f.key.clone();
        ctx.note(|| format!("violation: {}", key));
    }
    Ok(v)
}

/// Replay form: [skip?] coordinates [free fields]. A leading `15 k` makes the
/// case ignore the first k violations of the cell (the table phase uses it to
/// give every distinct key of a cell its own replayable tape).
fn cell(src: &mut Src, ctx: &mut Ctx) -> Result<(), Fail> {
    let skip = if src.chance(1, 16) { src.draw(15) as usize } else { 0 };
    let c = read_coord(src);
    let f = Fill::draw(src);
    ctx.digest.str(&format!("{:?}", c));
    ctx.digest.str(&format!("{:?}", f));
    let v = run_cell(&c, &f, ctx)?;
    for fail in v.into_iter().skip(skip) {
        report(ctx, fail)?;
    }
    Ok(())
}

// ------------------------------------------------------------------ exhaustive phase

#[derive(Default)]
struct Acc {
    evaluations: u64,
    nontrivial: u64,
    /// key -> (cells, lowest cell index, tape, failure)
    keys: BTreeMap<String, (u64, usize, Vec<u64>, Fail)>,
    labels: BTreeMap<String, u64>,
    counters: BTreeMap<String, u64>,
    cells_with_violation: u64,
}

fn table(env: &RunEnv) -> PhaseResult {
    let cells = all_cells();
    let n = cells.len();
    let nthreads: usize = std::env::var("VERIF_THREADS")
        .ok()
        .and_then(|s| s.parse().ok())
        .unwrap_or_else(|| std::thread::available_parallelism().map(|n| n.get()).unwrap_or(8))
        .max(1);
    let known = env.known_open.clone();
    let accs: Vec<Acc> = std::thread::scope(|s| {
        let mut hs = vec![];
        for t in 0..nthreads {
            let cells = &cells;
            let known = known.clone();
            hs.push(s.spawn(move || {
                vkit::runner::set_quiet(true);
                let mut acc = Acc::default();
                let mut i = t;
                while i < n {
                    let tape = &cells[i];
                    let mut ctx = Ctx::new(false, known.clone(), false);
                    let mut src = Src::replay(tape);
                    let c = read_coord(&mut src);
                    let f = Fill::default_fill();
                    let res = guarded(|| run_cell(&c, &f, &mut ctx));
                    acc.evaluations += 1;
                    if ctx.nontrivial {
                        acc.nontrivial += 1;
                    }
                    for l in &ctx.labels {
                        *acc.labels.entry(l.clone()).or_insert(0) += 1;
                    }
                    for (k, v) in &ctx.counters {
                        *acc.counters.entry(k.clone()).or_insert(0) += *v;
                    }
                    let fails: Vec<(usize, Fail)> = match res {
                        Ok(Ok(v)) => v.into_iter().enumerate().collect(),
                        Ok(Err(f)) => vec![(0, f)],
                        Err(p) => {
                            if panic_in_smoltcp(&p) {
                                vec![(0, Fail::new(panic_key(&p), format!("panic at {}:{}: {} (cell {:?})", p.file, p.line, p.msg, c)))]
                            } else {
                                panic!("harness bug in table phase: {}:{}: {}", p.file, p.line, p.msg)
                            }
                        }
                    };
                    if !fails.is_empty() {
                        acc.cells_with_violation += 1;
                    }
                    for (k, fail) in fails {
                        let mk = |k: usize| {
                            let mut t = if k == 0 { vec![0u64] } else { vec![15, k as u64] };
                            t.extend_from_slice(tape);
                            t
                        };
                        let e = acc.keys.entry(fail.key.clone()).or_insert_with(|| (0, i, mk(k), fail.clone()));
                        e.0 += 1;
                        // prefer a cell in which this key is the first violation (plain coordinate tape)
                        if k == 0 && e.2[0] != 0 {
                            *e = (e.0, i, mk(0), fail.clone());
                        }
                    }
                    i += nthreads;
                }
                acc
            }));
        }
        hs.into_iter().map(|h| h.join().expect("table worker")).collect()
    });
    let mut tot = Acc::default();
    for a in accs {
        tot.evaluations += a.evaluations;
        tot.nontrivial += a.nontrivial;
        tot.cells_with_violation += a.cells_with_violation;
        for (k, v) in a.labels {
            *tot.labels.entry(k).or_insert(0) += v;
        }
        for (k, v) in a.counters {
            *tot.counters.entry(k).or_insert(0) += v;
        }
        for (k, (cnt, idx, tape, fail)) in a.keys {
            match tot.keys.get_mut(&k) {
                None => {
                    tot.keys.insert(k, (cnt, idx, tape, fail));
                }
                Some(e) => {
                    e.0 += cnt;
                    // plain coordinate tapes first, then the lowest cell index
                    if (tape[0] != 0, idx) < (e.2[0] != 0, e.1) {
                        e.1 = idx;
                        e.2 = tape;
                        e.3 = fail;
                    }
                }
            }
        }
    }
    let mut pr = PhaseResult {
        name: "class table: family x medium/L2 destination x IP source class x IP destination class x protocol x port relation x socket configuration, default free fields".into(),
        evaluations: tot.evaluations,
        nontrivial: tot.nontrivial,
        exhaustive: true,
        ..Default::default()
    };
    let v4 = cells.iter().filter(|t| t[0] == 0).count();
    let key_hist: BTreeMap<String, u64> = tot.keys.iter().map(|(k, v)| (k.clone(), v.0)).collect();
    pr.extra = json!({
        "cells": n,
        "cells_ipv4": v4,
        "cells_ipv6": n - v4,
        "cells_wellformed_by_independent_decoder": tot.nontrivial,
        "cells_with_a_violation": tot.cells_with_violation,
        "violation_keys_cells": key_hist,
        "labels": tot.labels,
        "counters": tot.counters,
        "media": "Ethernet, Ip, IEEE 802.15.4 (IPv6, ingress side only: tx frames on that medium are not decoded)",
    });
    // one sample per family
    for tape in [vec![0u64, 1, 0, 4, 0, 0, 0, 0, 0], vec![1u64, 0, 0, 5, 4, 0, 0, 0, 0]] {
        let mut ctx = Ctx::new(true, known.clone(), false);
        let mut src = Src::replay(&tape);
        let c = read_coord(&mut src);
        let _ = guarded(|| run_cell(&c, &Fill::default_fill(), &mut ctx));
        pr.samples.push(json!({ "phase": "table", "tape": tape, "case": ctx.desc }));
    }
    // development aid: VERIF_C11_DUMP=<dir> writes one replay file per distinct key (the runner
    // itself reports at most 25 keys per run)
    if let Ok(dir) = std::env::var("VERIF_C11_DUMP") {
        for (key, (_, _, tape, fail)) in &tot.keys {
            let mut ctx = Ctx::new(true, std::sync::Arc::new(vec![]), true);
            let mut src = Src::replay(tape);
            let _ = guarded(|| cell(&mut src, &mut ctx));
            let name: String = key.chars().map(|c| if c.is_ascii_alphanumeric() || c == '-' { c } else { '_' }).collect();
            vkit::runner::write_replay(&format!("{}/C11-{}.tape", dir, name), "C11", "cell", tape, fail, &ctx.desc);
        }
    }
    for (_, (_, _, tape, fail)) in tot.keys {
        pr.failures.push(("cell".to_string(), tape, fail));
    }
    pr
}

pub fn prop() -> Prop {
    Prop {
        id: "C11",
        parts: vec![Part { name: "cell", case: cell, quick: 50_000, thorough: 2_500_000 }],
        phases: vec![table],
        smoltcp_panic_is_violation: true,
        rule: "class table enumerated exhaustively (phase `table`, both tiers): family {IPv4, IPv6} x medium/L2 destination {Medium::Ip; Ethernet own MAC, other station, broadcast, multicast mapping of the IP destination; [v6: IEEE 802.15.4 our PAN + own address, our PAN + other station, other PAN, broadcast PAN + broadcast address - without joined-group, unknown-protocol, hop-by-hop and DNS classes]} x IP source {on-link unicast, off-link unicast, own address, [v4: subnet broadcast, limited broadcast,] multicast, unspecified, loopback} x IP destination {own, second own address, other on-link unicast, off-link unicast, [v6: foreign unicast sharing the low 16 / low 24 bits of an own address,] [v4: subnet broadcast, limited broadcast,] all-systems/all-nodes, [v6: solicited-node of own address / of another address / of another address sharing our low 16 bits,] joined group, unjoined group, unspecified, loopback} x protocol {TCP SYN, ACK, RST, data; UDP; ICMP echo request; ICMP error quoting TCP / UDP / echo; unknown IP protocol; [v6: hop-by-hop header with an unknown option of action 00/01/10/11 followed by UDP]} x port relation {bound/listening port or identifier, closed} x sockets {TCP listener + UDP socket + ICMP sockets (ident, UDP-endpoint, TCP-endpoint) bound to any address / to the first own address / absent} x raw sockets {absent, present} x DNS socket with a pending query {absent, present}; interface with two addresses per family, default routes, one joined group per family, any_ip off, sender and gateway in the neighbour cache; one packet per cell built by the independent encoder with valid checksums, injected, and the effects of the single Interface::poll that ingests it (socket states / queues before and after, tx frames decoded by the independent decoder) judged by rules R1-R5 of DESIGN.md C11. The part `cell` is the replay form (tape = coordinates) and, with random tapes, also draws the free fields (ports, identifiers, payload, sequence numbers, hop limit, TCP options, ICMP error type, option type/length, unknown protocol number, peer address, source MAC, neighbour cache empty, which own address donates the low bits, foreign prefix, which subnet's broadcast, raw-socket flavour, DNS source port). A cell is non-trivial once the independent decoder confirms the injected frame is a well-formed packet of its class; distinct = table cells (phase) plus distinct (cell, free-field) fills (part)",
        assumptions: vec![
            "independent Ethernet/ARP/NDISC/IPv4/IPv6/TCP/UDP/ICMP codec in vkit::indep builds the injected packet and decodes the tx log",
            "an ARP request / neighbour solicitation emitted during the poll is not counted as an answer to the packet (labelled)",
            "R1 is asserted only when the frame is for another station's unicast MAC or the IP destination is a foreign unicast address, a loopback or unspecified address, an unjoined group or another node's solicited-node group; raw sockets are outside R1",
            "ICMPv6 Parameter Problem code 2 for an unknown hop-by-hop option of type 10xxxxxx is exempt from R3 (RFC 8200 4.2, unit test hop_by_hop_discard_with_multicast); echo replies are not errors",
            "the DNS socket's pending query port / transaction id are read off the query datagram it emits",
            "IEEE 802.15.4: frames are injected with a minimal independent 802.15.4/IPHC encoder (everything in line); emitted 6LoWPAN frames are not decoded, so on that medium only socket effects (R1, R2, R5) and 'nothing emitted for a foreign PAN' are judged; smoltcp has no 802.15.4 destination-address filter and the statement names only foreign PANs, so frames for another station of our PAN are observed, not judged",
        ],
    }
}
