//! C03 - no received frame sequence can panic, hang or wedge the interface.
//!
//! Per case: an interface on Ethernet / raw IP / IEEE 802.15.4 with a drawn socket
//! zoo receives 1..64 steps of random bytes, grammar frames of every supported
//! protocol, mutated grammar frames (checksums recomputed half of the time),
//! reflections (correct or nearly correct answers to what the stack itself just
//! emitted) and time advances. Oracles: every Interface::poll returns (watchdog)
//! without a panic attributed to smoltcp; afterwards a fresh neighbour's ICMP echo
//! request to an own address that nothing on the wire can take away is answered.

#[path = "c20_lowpan.rs"]
#[allow(dead_code)]
mod lowpan;
#[path = "c03_env.rs"]
mod env;
#[path = "c03_gram.rs"]
mod gram;
#[path = "c03_ctl.rs"]
mod ctl;
#[path = "c03_mut.rs"]
mod mutate;
#[path = "c03_wrap.rs"]
mod wrap;
#[path = "c03_refl.rs"]
mod refl;
#[path = "c03_world.rs"]
mod world;

use ctl::*;
use env::*;
use gram::*;
use lowpan::Ll;
use mutate::{fixup_checksums, fixup_ip, Framing};
use refl::{reflect, reflect_lowpan_frag, Emitted, Seen};
use smoltcp::socket::{dns, icmp, tcp, udp};
use smoltcp::wire::{DnsQueryType, IpEndpoint};
use vkit::indep::*;
use vkit::runner::{Fail, Part, Prop};
use vkit::{Ctx, Src};
use world::*;

// ------------------------------------------------------------------ grammar dispatch

/// One grammar production: packet descriptions (several for fragment trains).
fn grammar(src: &mut Src, w: &mut World, ctx: &mut Ctx) -> Vec<Pkt> {
    let env = &mut w.env;
    let med = env.own.med;
    let has4 = env.own.v4.is_some();
    let big = if med == Med::Lowpan { 300 } else { 1400 };
    // weights: tcp udp echo icmp-error rawproto arp ndisc mld igmp dhcp dns ip4-fragments
    let weights: [u32; 12] = [8, 5, 3, 4, 2, if med == Med::Eth { 3 } else { 0 }, if med == Med::Ip { 1 } else { 5 }, 3, if has4 { 3 } else { 0 }, if med == Med::Eth { 4 } else { 0 }, 4, if has4 { 4 } else { 0 }];
    let k = src.weighted(&weights);
    let mut pkts: Vec<Pkt> = match k {
        0 => vec![gen_tcp(src, env)],
        1 => vec![gen_udp(src, env, big)],
        2 => vec![gen_echo(src, env, big)],
        3 => vec![gen_icmp_error(src, env, None)],
        4 => vec![gen_rawproto(src, env)],
        5 => {
            if src.chance(1, 6) {
                // other ethertypes: 802.1Q, LLDP, length-style 802.3, experimental
                let et = *src.pick(&[0x8100u16, 0x88cc, 0x0040, 0x88b5, 0x0000, 0x8035]);
                vec![Pkt { body: Body::Eth(et, payload_bytes(src, 100)), from: 0, l2dst: if src.bool() { L2Dst::Own } else { L2Dst::Bcast }, class: "ethernet-other-ethertype" }]
            } else {
                vec![gen_arp(src, env, None)]
            }
        }
        6 => vec![gen_ndisc(src, env, None)],
        7 => vec![gen_mld(src, env)],
        8 => vec![gen_igmp(src, env)],
        9 => {
            let proper = src.chance(1, 3);
            vec![gen_dhcp_reply(src, env, None, proper)]
        }
        10 => {
            let proper = src.chance(1, 3);
            vec![gen_dns_reply(src, env, proper)]
        }
        _ => {
            // an IPv4 datagram cut into fragments
            let inner = match src.weighted(&[3, 2, 2]) {
                0 => gen_udp_v4(src, env, 3000),
                1 => gen_echo_v4(src, env, 2000),
                _ => gen_tcp(src, env),
            };
            match &inner.body {
                Body::V4(b) => match decode_ip4(b, true) {
                    Ok(mut p) => {
                        if src.chance(1, 4) {
                            decorate4(src, &mut p);
                        }
                        let (frags, name) = fragment4(src, &p);
                        ctx.label(name);
                        frags.iter().map(|f| Pkt { body: Body::V4(f.encode()), from: inner.from, l2dst: inner.l2dst, class: "ipv4-fragment" }).collect()
                    }
                    Err(_) => vec![inner],
                },
                _ => vec![inner],
            }
        }
    };
    // network-layer decoration: IPv4 options / TTL, IPv6 extension headers / hop limit
    if k <= 4 && src.chance(1, 3) {
        for p in pkts.iter_mut() {
            match &p.body {
                Body::V4(b) => {
                    if let Ok(mut q) = decode_ip4(b, true) {
                        decorate4(src, &mut q);
                        p.body = Body::V4(q.encode());
                        ctx.label("gram:ipv4-decorated");
                    }
                }
                Body::V6(b) => {
                    if let Ok(mut q) = decode_ip6(b, true) {
                        if q.ext.is_empty() {
                            decorate6(src, env, &mut q);
                            if !q.ext.is_empty() {
                                ctx.label("gram:ipv6-extension-headers");
                            }
                            p.body = Body::V6(q.encode());
                        }
                    }
                }
                _ => {}
            }
        }
    }
    for p in &pkts {
        ctx.label(&format!("gram:{}", p.class));
    }
    pkts
}

fn gen_udp_v4(src: &mut Src, env: &mut Env, max: usize) -> Pkt {
    let peer = pick_peer(src);
    let s = Ip::V4(env.peers[peer].v4);
    let d = pick_dst(src, env, false);
    let dport = if !env.udp_ports.is_empty() && src.chance(3, 4) { *src.pick(&env.udp_ports) } else { 9 };
    let n = src.usize(16, max);
    let payload: Vec<u8> = (0..n).map(|i| (i * 13) as u8).collect();
    let mut p = Ip4::new(env.peers[peer].v4, match d { Ip::V4(a) => a, _ => unreachable!() }, PROTO_UDP, Udp::new(4000, dport, payload).encode(&s, &d));
    p.id = env.next_id();
    Pkt::v4(p.encode(), peer, "udp")
}

fn gen_echo_v4(src: &mut Src, env: &mut Env, max: usize) -> Pkt {
    let peer = pick_peer(src);
    let d = pick_dst(src, env, false);
    let n = src.usize(16, max);
    let e = Icmp::echo(false, true, env.icmp_ident, src.u16(), (0..n).map(|i| (i * 5) as u8).collect());
    let mut p = Ip4::new(env.peers[peer].v4, match d { Ip::V4(a) => a, _ => unreachable!() }, PROTO_ICMP, e.encode4());
    p.id = env.next_id();
    Pkt::v4(p.encode(), peer, "icmp-echo-request")
}

/// Packet descriptions -> link frames of the case's medium. `mutate_ip`: on 802.15.4 mutate the
/// datagram before compression.
fn to_frames(src: &mut Src, w: &mut World, ctx: &mut Ctx, pkts: &[Pkt], mutate_ip: bool) -> Vec<Vec<u8>> {
    let mut out = vec![];
    for p in pkts {
        match w.env.own.med {
            Med::Eth => out.push(wrap::wrap_eth(src, &w.env, p)),
            Med::Ip => match &p.body {
                Body::V4(b) | Body::V6(b) => out.push(b.clone()),
                // no link layer: ARP and foreign ethertypes do not exist here; deliver the bytes anyway
                Body::Arp(b) | Body::Eth(_, b) => out.push(b.clone()),
            },
            Med::Lowpan => {
                let mut q = p.clone();
                if mutate_ip {
                    if let Body::V6(b) = &mut q.body {
                        let other = w.injected.back().cloned().unwrap_or_default();
                        let name = mutate::mutate(src, b, &other, Framing::Ip, 1280);
                        ctx.label(name);
                        if src.bool() {
                            fixup_ip(b);
                            ctx.label("mut:checksums-recomputed");
                        }
                    }
                }
                out.extend(wrap::wrap_lowpan(src, &mut w.env, &q, ctx));
            }
        }
    }
    out
}

fn mutate_frames(src: &mut Src, w: &mut World, ctx: &mut Ctx, frames: &mut Vec<Vec<u8>>) {
    if frames.is_empty() {
        return;
    }
    let i = src.draw(frames.len() as u64 - 1) as usize;
    let other = w.injected.back().cloned().unwrap_or_default();
    let (framing, cap) = match w.env.own.med {
        Med::Eth => (Framing::Eth, w.env.own.mtu),
        Med::Ip => (Framing::Ip, w.env.own.mtu),
        Med::Lowpan => (Framing::Ip, 127),
    };
    let name = mutate::mutate(src, &mut frames[i], &other, framing, cap);
    ctx.label(name);
    if w.env.own.med != Med::Lowpan && src.bool() {
        fixup_checksums(&mut frames[i], framing);
        ctx.label("mut:checksums-recomputed");
    }
}

// ------------------------------------------------------------------ application actions

fn app_action(src: &mut Src, w: &mut World, ctx: &mut Ctx) {
    let med = w.env.own.med;
    match src.weighted(&[3, 3, 1, 2, 2, 2, 2]) {
        0 => {
            if !w.socks.tcp.is_empty() {
                let (h, _, _, _) = *src.pick(&w.socks.tcp);
                let s = w.node.sockets.get_mut::<tcp::Socket>(h);
                if s.may_send() {
                    let n = src.usize(1, 1024);
                    let _ = s.send_slice(&vec![0x42; n]);
                    ctx.label("app:tcp-send");
                }
            }
        }
        1 => {
            if !w.socks.tcp.is_empty() {
                let (h, _, _, _) = *src.pick(&w.socks.tcp);
                let s = w.node.sockets.get_mut::<tcp::Socket>(h);
                if s.is_open() && s.state() != tcp::State::Listen {
                    s.close();
                    ctx.label("app:tcp-close");
                }
            }
        }
        2 => {
            if !w.socks.tcp.is_empty() {
                let (h, _, _, _) = *src.pick(&w.socks.tcp);
                w.node.sockets.get_mut::<tcp::Socket>(h).abort();
                ctx.label("app:tcp-abort");
            }
        }
        3 => {
            // a closed socket listens / connects again
            for (h, role, port, _) in w.socks.tcp.clone() {
                let s = w.node.sockets.get_mut::<tcp::Socket>(h);
                if s.state() == tcp::State::Closed {
                    match role {
                        TcpRole::Connect => {
                            let v6 = med == Med::Lowpan || src.bool();
                            let p = &w.env.peers[0];
                            let raddr = if v6 { Ip::V6(p.g6) } else { Ip::V4(p.v4) };
                            let lport = port.wrapping_add(1 + src.draw(3) as u16).max(49152);
                            let _ = s.connect(w.node.iface.context(), (raddr.to_smol(), PEER_TCP_PORT), lport);
                            ctx.label("app:tcp-reconnect");
                        }
                        _ => {
                            let _ = s.listen(port);
                            ctx.label("app:tcp-relisten");
                        }
                    }
                    break;
                }
            }
        }
        4 => {
            // a datagram from a UDP socket (large ones leave in fragments)
            if !w.socks.udp.is_empty() {
                let (h, _, v6_bound) = *src.pick(&w.socks.udp);
                // a socket bound to an IPv6 address must not be asked to send to an IPv4 one (API misuse)
                let v6 = med == Med::Lowpan || v6_bound || src.bool();
                let peer = src.weighted(&[4, 1, 0, 1]);
                let p = &w.env.peers[peer];
                let dst = if v6 { Ip::V6(p.g6) } else { Ip::V4(p.v4) };
                let n = if med == Med::Lowpan { *src.pick(&[10usize, 90, 300, 1100]) } else { *src.pick(&[10usize, 600, 2000, 3500]) };
                let s = w.node.sockets.get_mut::<udp::Socket>(h);
                let _ = s.send_slice(&vec![0x75; n], IpEndpoint::new(dst.to_smol(), 9));
                ctx.label("app:udp-send");
            }
        }
        5 => {
            if let Some(h) = w.socks.icmp_ident {
                let v6 = med == Med::Lowpan || src.bool();
                let p = &w.env.peers[0];
                let dst = if v6 { Ip::V6(p.g6) } else { Ip::V4(p.v4) };
                let e = Icmp::echo(v6, true, ICMP_IDENT, 1, vec![1, 2, 3, 4]);
                let b = if v6 { e.encode6(&Ip::V6(w.env.own.g6), &dst) } else { e.encode4() };
                let _ = w.node.sockets.get_mut::<icmp::Socket>(h).send_slice(&b, dst.to_smol());
                ctx.label("app:icmp-send");
            }
        }
        _ => {
            if let Some((h, mut qs)) = w.socks.dns.clone() {
                if qs.len() < 1 {
                    let s = w.node.sockets.get_mut::<dns::Socket>(h);
                    if let Ok(q) = s.start_query(w.node.iface.context(), "again.example.com", if src.bool() { DnsQueryType::A } else { DnsQueryType::Aaaa }) {
                        qs.push(q);
                        ctx.label("app:dns-new-query");
                    }
                    w.socks.dns = Some((h, qs));
                }
            }
        }
    }
}

// ------------------------------------------------------------------ the probe

const FRESH_MAC: [u8; 6] = [0x02, 0, 0, 0, 0x77, 0x07];
const FRESH_LL: Ll = Ll::Ext([0x02, 0x77, 0, 0, 0, 0, 0x77, 0x07]);
const FRESH_V4: [u8; 4] = [192, 168, 69, 77];
const PROBE_IDENT: u16 = 0xc03c;
const PROBE_SEQ: u16 = 0x0303;
const PROBE_DATA: &[u8] = b"C03probe";

/// After the sequence: a neighbour never seen before introduces itself (ARP request for the own
/// IPv4 address / NS with source link-layer address option for the own link-local address) and
/// sends a small ICMP echo request to an own unicast address. Targets are the static IPv4 address
/// (nothing received can change the IPv4 configuration: DHCP events are not applied) and the
/// link-local IPv6 address (SLAAC never derives or removes it: link-local prefixes are refused
/// by Slaac::add_prefix / is_valid_prefix_info) - not the global address, which a router
/// advertisement for its prefix can legitimately expire when its IID is the hardware one.
fn probe(src: &mut Src, w: &mut World, ctx: &mut Ctx) -> Result<(), Fail> {
    let med = w.env.own.med;
    let v6 = med == Med::Lowpan || src.bool();
    if !probe_one(src, w, ctx, if v6 { 1 } else { 0 })? {
        return Ok(());
    }
    // The global address: demanded only when the interface holds it before and after the probe
    // (an RA for its prefix may legitimately have expired it, or expire it right now).
    let g = smoltcp::wire::IpCidr::new(Ip::V6(w.env.own.g6).to_smol(), 64);
    if w.node.iface.ip_addrs().contains(&g) {
        probe_one(src, w, ctx, 2)?;
    } else {
        ctx.label("probe:global-address-gone-after-ra");
    }
    Ok(())
}

/// kind 0: IPv4, 1: IPv6 link-local, 2: IPv6 global. Ok(false): the case ended (known panic).
fn probe_one(src: &mut Src, w: &mut World, ctx: &mut Ctx, kind: u8) -> Result<bool, Fail> {
    let med = w.env.own.med;
    let v6 = kind != 0;
    let (fmac, fll, fresh6) = if kind == 2 { ([0x02, 0, 0, 0, 0x77, 0x08], Ll::Ext([0x02, 0x77, 0, 0, 0, 0, 0x77, 0x08]), v6addr(G_PREFIX, [0, 0, 0, 0, 0, 0x77, 0, 0x08])) } else { (FRESH_MAC, FRESH_LL, v6addr(LL_PREFIX, [0, 0, 0, 0, 0, 0x77, 0, 0x07])) };
    let own6 = if kind == 2 { w.env.own.g6 } else { w.env.own.ll6 };
    let (s, d) = if v6 { (Ip::V6(fresh6), Ip::V6(own6)) } else { (Ip::V4(FRESH_V4), Ip::V4(w.env.own.v4.unwrap())) };
    w.now += 1;
    if let Some(f) = w.introduce(fmac, fll, FRESH_V4, fresh6, v6) {
        w.inject(ctx, f, "probe: fresh neighbour introduces itself");
    }
    let e = Icmp::echo(v6, true, PROBE_IDENT, PROBE_SEQ + kind as u16, PROBE_DATA.to_vec());
    let body = if v6 { e.encode6(&s, &d) } else { e.encode4() };
    let ipb = IpPkt::build(s, d, if v6 { PROTO_ICMPV6 } else { PROTO_ICMP }, 64, body).encode();
    let f = w.frame_plain(fmac, fll, &ipb);
    w.inject(ctx, f, "probe: echo request");
    let mut seen: Vec<String> = vec![];
    let mut polls = 0;
    let names = ["v4", "v6", "v6-global"];
    loop {
        let Some(out) = w.poll(src, ctx, None)? else { return Ok(false) };
        for e in &out {
            if let Seen::EchoReply { ident, seq, data, src: rs, dst: rd } = &e.seen {
                if *ident == PROBE_IDENT && *seq == PROBE_SEQ + kind as u16 && data == PROBE_DATA && *rs == d && *rd == s {
                    ctx.label(&format!("probe:answered-{}", names[kind as usize]));
                    return Ok(true);
                }
            }
            seen.push(e.seen.name().to_string());
        }
        polls += 1;
        if polls == 10 {
            w.now += 2000; // a pending rate limit must not hide the reply
        } else if polls > 10 {
            break;
        } else {
            w.now += 1;
        }
    }
    if kind == 2 {
        let g = smoltcp::wire::IpCidr::new(Ip::V6(w.env.own.g6).to_smol(), 64);
        if !w.node.iface.ip_addrs().contains(&g) {
            ctx.label("probe:global-address-expired-during-probe");
            return Ok(true);
        }
    }
    Err(Fail::new(
        format!("probe:no-echo-reply:{}:{}", med.name(), names[kind as usize]),
        format!(
            "after the frame sequence a fresh neighbour ({}) introduced itself and sent an ICMP echo request {} -> {} (ident {:#06x} seq {:#06x}); no matching echo reply within 11 polls (last one 2 s later); emitted instead: [{}]; interface addresses now: {:?}",
            if med == Med::Eth { format!("{:02x?}", fmac) } else { format!("{}", fll) },
            s,
            d,
            PROBE_IDENT,
            PROBE_SEQ + kind as u16,
            seen.join(", "),
            w.node.iface.ip_addrs()
        ),
    ))
}

// ------------------------------------------------------------------ the case

fn case(src: &mut Src, ctx: &mut Ctx, med: Med, part: &'static str) -> Result<(), Fail> {
    let mut w = World::build(src, ctx, med, part);
    ctx.note(|| format!("medium {} mtu {} slaac {} addrs {:?}", med.name(), w.env.own.mtu, w.env.own.slaac, w.node.iface.ip_addrs()));
    // first poll: SYN, DNS query, DHCP DISCOVER, RS, reports go out (or wait for neighbours)
    if w.poll(src, ctx, None)?.is_none() {
        return Ok(());
    }
    // established sockets: handshake completed by crafted frames
    for (h, role, port, _) in w.socks.tcp.clone() {
        if matches!(role, TcpRole::ListenSmall | TcpRole::ListenBig) && src.chance(1, 2) {
            let v6 = med == Med::Lowpan || (role == TcpRole::ListenBig) || src.bool();
            match w.establish(src, ctx, port, v6, role == TcpRole::ListenBig)? {
                None => return Ok(()),
                Some(true) => {
                    ctx.label("sock:tcp-established-by-crafted-handshake");
                    let s = w.node.sockets.get_mut::<tcp::Socket>(h);
                    if s.may_send() && src.bool() {
                        let n = src.usize(1, 1024);
                        let _ = s.send_slice(&vec![0x41; n]);
                    }
                    for t in w.socks.tcp.iter_mut() {
                        if t.0 == h {
                            t.1 = TcpRole::Established;
                        }
                    }
                }
                Some(false) => ctx.label("setup:handshake-not-completed"),
            }
        }
    }
    let steps = 1 + src.draw(63);
    ctx.digest.u64(steps);
    for _ in 0..steps {
        let kind = src.weighted(&[2, 6, 6, 7, 3, 2]);
        let mut frames: Vec<Vec<u8>> = vec![];
        let mut what = "";
        match kind {
            0 => {
                let cap = if med == Med::Lowpan { 127 } else { w.env.own.mtu };
                let n = match src.weighted(&[3, 3, 1]) {
                    0 => src.usize(0, 24),
                    1 => src.usize(0, 128.min(cap)),
                    _ => src.usize(0, cap),
                };
                let mut f = src.bytes(n);
                // sometimes steer the first octets past the link-layer filter
                if src.bool() && n >= 14 && med == Med::Eth {
                    f[..6].copy_from_slice(&w.env.own.mac);
                    f[12..14].copy_from_slice(&(*src.pick(&[ETH_IPV4, ETH_IPV6, ETH_ARP])).to_be_bytes());
                } else if src.bool() && n >= 1 && med == Med::Ip {
                    f[0] = *src.pick(&[0x45u8, 0x60, 0x46, 0x4f]);
                }
                frames.push(f);
                what = "random bytes";
                ctx.label("step:random-bytes");
            }
            1 | 2 => {
                let mutated = kind == 2;
                let lowpan_native = med == Med::Lowpan && src.chance(1, 4);
                if lowpan_native {
                    frames = wrap::lowpan_adversarial(src, &mut w.env, ctx);
                } else {
                    let pkts = grammar(src, &mut w, ctx);
                    let mutate_ip = mutated && med == Med::Lowpan && src.chance(2, 3);
                    frames = to_frames(src, &mut w, ctx, &pkts, mutate_ip);
                    if mutated && !mutate_ip {
                        mutate_frames(src, &mut w, ctx, &mut frames);
                    }
                }
                what = if mutated { "mutated grammar frame" } else { "grammar frame" };
                ctx.label(if mutated { "step:mutated" } else { "step:grammar" });
            }
            3 => {
                if w.recent.is_empty() {
                    ctx.label("step:reflection-nothing-emitted-yet");
                } else {
                    let n = w.recent.len();
                    let i = n - 1 - src.weighted(&[6, 3, 2, 1, 1, 1]).min(n - 1);
                    let e = Emitted { seen: w.recent[i].seen.clone(), ip: w.recent[i].ip.clone() };
                    let proper = src.chance(2, 3);
                    if let Seen::LowpanFrag { tag, size } = e.seen {
                        for pl in reflect_lowpan_frag(src, tag, size) {
                            let mut f = lowpan::Mac::data(0, w.env.own.pan.unwrap_or(0xbeef), w.env.own.ll, w.env.peers[0].ll).encode();
                            f.extend_from_slice(&pl);
                            frames.push(f);
                        }
                    } else {
                        let pkts = reflect(src, &mut w.env, &e, proper, ctx);
                        frames = to_frames(src, &mut w, ctx, &pkts, false);
                        if !proper && src.chance(1, 3) {
                            mutate_frames(src, &mut w, ctx, &mut frames);
                        }
                    }
                    ctx.label(&format!("reflect:{}:{}", e.seen.name(), if proper { "proper" } else { "near-miss" }));
                    what = "reflection";
                    ctx.label("step:reflection");
                }
            }
            4 => {
                let dt = if w.dhcp_configured && src.bool() {
                    // around the renewal / rebinding / expiry instants of the leases the grammar hands out
                    *src.pick(&[55_000i64, 1_800_000, 3_500_000, 5_000, 40_000])
                } else {
                    *src.pick(&[0i64, 1, 1000, 61_000, 3_600_000, 10, 200, 55_000, 1_800_000])
                };
                w.now += dt;
                ctx.note(|| format!("  time advances by {} ms to {} ms", dt, w.now));
                ctx.label("step:time");
            }
            _ => {
                app_action(src, &mut w, ctx);
                ctx.label("step:app");
            }
        }
        let nframes = frames.len();
        for (i, f) in frames.into_iter().enumerate() {
            w.inject(ctx, f, what);
            // fragment trains: sometimes a poll between the parts
            if i + 1 < nframes && src.chance(1, 4) {
                if w.poll(src, ctx, None)?.is_none() {
                    return Ok(());
                }
            }
        }
        if kind >= 4 || src.chance(3, 4) {
            let budget = if src.chance(1, 6) { Some(src.usize(0, 3)) } else { None };
            if w.poll(src, ctx, budget)?.is_none() {
                return Ok(());
            }
            w.sample(src, ctx);
        }
    }
    // drain what is still queued, then the liveness probe
    if w.poll(src, ctx, None)?.is_none() {
        return Ok(());
    }
    w.sample(src, ctx);
    if w.responses > 0 {
        ctx.nontrivial = true;
    }
    probe(src, &mut w, ctx)
}

fn case_eth(src: &mut Src, ctx: &mut Ctx) -> Result<(), Fail> {
    case(src, ctx, Med::Eth, "ethernet")
}
fn case_ip(src: &mut Src, ctx: &mut Ctx) -> Result<(), Fail> {
    case(src, ctx, Med::Ip, "ip")
}
fn case_lowpan(src: &mut Src, ctx: &mut Ctx) -> Result<(), Fail> {
    case(src, ctx, Med::Lowpan, "ieee802154")
}

pub fn prop() -> Prop {
    Prop {
        id: "C03",
        parts: vec![
            Part { name: "ethernet", case: case_eth, quick: 150_000, thorough: 7_500_000 },
            Part { name: "ip", case: case_ip, quick: 80_000, thorough: 4_000_000 },
            Part { name: "ieee802154", case: case_lowpan, quick: 120_000, thorough: 6_000_000 },
        ],
        phases: vec![],
        smoltcp_panic_is_violation: true,
        rule: "per case an interface on Ethernet / Medium::Ip / IEEE 802.15.4 (own IPv4 /24 + link-local + global IPv6; IPv6 only on 802.15.4; hardware address extended or short, PAN id set or unset, 0-2 address contexts; SLAAC on or off; default routes or none; joined IPv4/IPv6 groups except on 802.15.4; MTU from a small set) with a drawn socket zoo (TCP listening with small and >64 KiB receive buffers, connecting, established by a crafted handshake, with drawn keep-alive / timeout / ack-delay / Nagle / congestion control / timestamps; UDP; ICMP bound to an ident, a UDP port, a TCP port; raw receive-only sockets for protocols 253, 254 and 17; DNS with a pending query (also .local); DHCPv4 client on Ethernet, events never applied) receives 1..64 steps, each: random bytes; a grammar frame (TCP on observed/new/closed connections with every flag combination and well-formed and malformed options, UDP, ICMP echo, ICMP errors quoting UDP/TCP/ICMP/truncated headers, raw protocols, ARP, NS/NA/RS/RA/Redirect with all options incl. zero and oversized lengths, MLD v1/v2, IGMP v1/v2/v3-sized, DHCP OFFER/ACK/NAK, DNS responses, IPv4 options, IPv4 fragment trains with disorder/overlap/bad sizes, IPv6 extension headers with every option action class; on 802.15.4 compressed by the independent IPHC/NHC encoder in a drawn legal mode, NHC extension headers, FRAG1/FRAGN trains with disorder, bad sizes, tiny datagram_size, FRAGN first, plus adversarial dispatch/NHC frames); the same mutated (boundary value, length field +-k, truncation, noise, splice, growth) with all checksums recomputed half of the time; a reflection answering one of the last 12 frames the stack itself emitted (SYN->SYN-ACK, SYN-ACK->ACK, data->ACK/data/FIN/RST, DNS query->response, DHCP DISCOVER->OFFER, REQUEST->ACK/NAK, NS->NA, RS->RA, ARP request->reply, anything else->ICMP error quoting it, 6LoWPAN fragments->fragments with the same tag) correctly or nearly so; a time advance from {0,1,10,200 ms,1 s,55 s,61 s,30 min,1 h}; an application action (send/close/abort/re-listen/reconnect on TCP, UDP datagram up to 3.5 KiB, ICMP echo, new DNS query); polls with unlimited or 0..3 transmit budget. Non-trivial: at least one injected frame is judged well-formed and addressed to the interface down to the transport header by the independent decoders, or the stack emitted a frame; digest = all injected frames",
        assumptions: vec![
            "independent Ethernet/ARP/IPv4/IPv6/UDP/TCP/ICMP/NDISC codecs in vkit::indep, 802.15.4/6LoWPAN codec in vcheck/src/c20_lowpan.rs, DHCP/DNS/RA/MLD/IGMP builders in vcheck/src/c03_ctl.rs",
            "a panic counts when vkit::runner attributes it to /repo/src (raised there, or in a library with a smoltcp frame innermost on the stack)",
            "hang: a single Interface::poll consuming more than 10 s of CPU time without returning (watchdog thread reads the thread's CPU clock, writes the tape and exits 1; a stall without CPU consumption is exit 2, never a violation); non-termination of the egress loop: more than 50 000 frames handled in one poll while no socket holds more than 2 KiB",
            "liveness probe: fresh on-link neighbour introduces itself (ARP request / NS with SLLAO, which fill the neighbour cache when the target is an own address) and sends an 8-octet ICMP echo request to the static IPv4 address or the link-local IPv6 address in the same poll; the reply fits one frame, needs no discovery, no fragmentation buffer and no transmit budget (it uses the token paired with the received frame); neither address can be removed by anything received (DHCP events are not applied; SLAAC refuses link-local prefixes); the global IPv6 address is deliberately not probed because an RA for its prefix may expire it",
            "API misuse kept out: no multicast joins and no raw-socket sends on 802.15.4, SLAAC only with a link-local address and a hardware address, no sends to unspecified destinations",
        ],
    }
}

/// Entry for the coverage-guided fuzz target (/verif/fuzz): the bytes drive the same case
/// functions through `Src::from_bytes`; a violation is written as an ordinary tape replay
/// (`./check C03 --replay <file>`) before the process panics for libFuzzer.
#[allow(dead_code)]
pub fn fuzz_one(data: &[u8]) {
    if data.len() < 2 {
        return;
    }
    let p = prop();
    let part = &p.parts[data[0] as usize % p.parts.len()];
    let mut src = Src::from_bytes(&data[1..]);
    let mut ctx = Ctx::new(false, std::sync::Arc::new(vkit::runner::open_keys("C03")), false);
    let r = vkit::runner::guarded(|| (part.case)(&mut src, &mut ctx));
    let fail = match r {
        Ok(Ok(())) => return,
        Ok(Err(f)) => f,
        Err(p) if vkit::runner::panic_in_smoltcp(&p) => Fail::new(vkit::runner::panic_key(&p), format!("smoltcp panicked at {}:{}: {}", p.file, p.line, p.msg)),
        Err(p) => panic!("harness panic at {}:{}: {}", p.file, p.line, p.msg),
    };
    vkit::runner::fuzz_violation("C03", part.name, &src.used(), &fail);
}

/// Seed corpus for the fuzz target: generated cases of every part, encoded so that
/// `Src::from_bytes` reproduces them draw for draw.
#[allow(dead_code)]
pub fn fuzz_seeds(dir: &str, per_part: usize, seed: u64) -> usize {
    let p = prop();
    let mut n = 0;
    for (pi, part) in p.parts.iter().enumerate() {
        for k in 0..per_part {
            let mut src = Src::generate(vkit::tape::mix(seed, part.name, k as u64));
            let mut ctx = Ctx::new(false, std::sync::Arc::new(vkit::runner::open_keys("C03")), false);
            let _ = vkit::runner::guarded(|| (part.case)(&mut src, &mut ctx));
            let mut b = vec![pi as u8];
            b.extend(src.to_bytes());
            if b.len() <= 4096 && std::fs::write(format!("{}/c03-{}-{:03}", dir, part.name, k), &b).is_ok() {
                n += 1;
            }
        }
    }
    n
}
