//! Small DHCPv4 codec written from RFC 2131 (message layout, section 2) and
//! RFC 2132 (options), sharing no code with `smoltcp::wire::dhcpv4`.
//!
//! message = op htype hlen hops | xid | secs flags | ciaddr | yiaddr | siaddr |
//!           giaddr | chaddr[16] | sname[64] | file[128]        (236 bytes)
//!           magic cookie 99.130.83.99                            (4 bytes)
//!           options: code len data..., pad = 0, end = 255

pub const COOKIE: u32 = 0x6382_5363;
pub const FIXED: usize = 236;

pub const OPT_PAD: u8 = 0;
pub const OPT_MASK: u8 = 1;
pub const OPT_ROUTER: u8 = 3;
pub const OPT_DNS: u8 = 6;
pub const OPT_LEASE: u8 = 51;
pub const OPT_MSG_TYPE: u8 = 53;
pub const OPT_SERVER_ID: u8 = 54;
pub const OPT_T1: u8 = 58;
pub const OPT_T2: u8 = 59;
pub const OPT_END: u8 = 255;

pub const DISCOVER: u8 = 1;
pub const OFFER: u8 = 2;
pub const REQUEST: u8 = 3;
pub const DECLINE: u8 = 4;
pub const ACK: u8 = 5;
pub const NAK: u8 = 6;
pub const RELEASE: u8 = 7;
pub const INFORM: u8 = 8;

pub fn type_name(t: u8) -> &'static str {
    match t {
        DISCOVER => "DISCOVER",
        OFFER => "OFFER",
        REQUEST => "REQUEST",
        DECLINE => "DECLINE",
        ACK => "ACK",
        NAK => "NAK",
        RELEASE => "RELEASE",
        INFORM => "INFORM",
        _ => "type?",
    }
}

/// How the option area ends (encoder only).
#[derive(Clone, Copy, Debug, PartialEq, Eq)]
pub enum Tail {
    /// the regular `255`
    End,
    /// option list simply stops at the end of the datagram
    NoEnd,
    /// a last option whose length octet claims more bytes than the datagram has
    Overrun,
}

#[derive(Clone, Debug)]
pub struct DhcpMsg {
    pub op: u8,
    pub htype: u8,
    pub hlen: u8,
    pub hops: u8,
    pub xid: u32,
    pub secs: u16,
    pub flags: u16,
    pub ciaddr: [u8; 4],
    pub yiaddr: [u8; 4],
    pub siaddr: [u8; 4],
    pub giaddr: [u8; 4],
    pub chaddr: [u8; 16],
    pub cookie: u32,
    /// options in wire order, pads removed
    pub opts: Vec<(u8, Vec<u8>)>,
    pub tail: Tail,
    /// decoder: the list ran into the end of the datagram without `255`
    pub no_end: bool,
    /// decoder: an option header or body ran past the end of the datagram
    pub truncated: bool,
}

impl DhcpMsg {
    pub fn reply(xid: u32, chaddr6: [u8; 6]) -> DhcpMsg {
        let mut chaddr = [0u8; 16];
        chaddr[..6].copy_from_slice(&chaddr6);
        DhcpMsg {
            op: 2,
            htype: 1,
            hlen: 6,
            hops: 0,
            xid,
            secs: 0,
            flags: 0,
            ciaddr: [0; 4],
            yiaddr: [0; 4],
            siaddr: [0; 4],
            giaddr: [0; 4],
            chaddr,
            cookie: COOKIE,
            opts: vec![],
            tail: Tail::End,
            no_end: false,
            truncated: false,
        }
    }

    pub fn encode(&self) -> Vec<u8> {
        let mut b = vec![0u8; FIXED];
        b[0] = self.op;
        b[1] = self.htype;
        b[2] = self.hlen;
        b[3] = self.hops;
        b[4..8].copy_from_slice(&self.xid.to_be_bytes());
        b[8..10].copy_from_slice(&self.secs.to_be_bytes());
        b[10..12].copy_from_slice(&self.flags.to_be_bytes());
        b[12..16].copy_from_slice(&self.ciaddr);
        b[16..20].copy_from_slice(&self.yiaddr);
        b[20..24].copy_from_slice(&self.siaddr);
        b[24..28].copy_from_slice(&self.giaddr);
        b[28..44].copy_from_slice(&self.chaddr);
        // sname (44..108) and file (108..236) stay zero
        b.extend_from_slice(&self.cookie.to_be_bytes());
        for (code, data) in &self.opts {
            assert!(*code != OPT_PAD && *code != OPT_END && data.len() <= 255);
            b.push(*code);
            b.push(data.len() as u8);
            b.extend_from_slice(data);
        }
        match self.tail {
            Tail::End => b.push(OPT_END),
            Tail::NoEnd => {}
            Tail::Overrun => {
                // vendor-specific option claiming 200 bytes, 3 present
                b.extend_from_slice(&[43, 200, 1, 2, 3]);
            }
        }
        b
    }

    pub fn opt(&self, code: u8) -> Option<&[u8]> {
        self.opts.iter().find(|o| o.0 == code).map(|o| o.1.as_slice())
    }
    pub fn opt4(&self, code: u8) -> Option<[u8; 4]> {
        match self.opt(code) {
            Some(d) if d.len() == 4 => Some([d[0], d[1], d[2], d[3]]),
            _ => None,
        }
    }
    pub fn opt_u32(&self, code: u8) -> Option<u32> {
        self.opt4(code).map(u32::from_be_bytes)
    }
    pub fn msg_type(&self) -> Option<u8> {
        match self.opt(OPT_MSG_TYPE) {
            Some(d) if d.len() == 1 => Some(d[0]),
            _ => None,
        }
    }
    /// list of addresses in an option made of 4-byte items; None when the option is
    /// absent, Err(()) when its length is not a multiple of four
    pub fn addr_list(&self, code: u8) -> Option<Result<Vec<[u8; 4]>, ()>> {
        let d = self.opt(code)?;
        if d.len() % 4 != 0 {
            return Some(Err(()));
        }
        Some(Ok(d.chunks(4).map(|c| [c[0], c[1], c[2], c[3]]).collect()))
    }
}

/// Lenient decoder: the fixed part and cookie position must be present; the option
/// list is read until `255`, the end of the datagram, or an option that does not fit
/// (flags `no_end` / `truncated` tell which).
pub fn decode_dhcp(b: &[u8]) -> Result<DhcpMsg, String> {
    if b.len() < FIXED + 4 {
        return Err(format!("dhcp: {} bytes, shorter than fixed part + cookie", b.len()));
    }
    let a4 = |o: usize| [b[o], b[o + 1], b[o + 2], b[o + 3]];
    let mut chaddr = [0u8; 16];
    chaddr.copy_from_slice(&b[28..44]);
    let mut m = DhcpMsg {
        op: b[0],
        htype: b[1],
        hlen: b[2],
        hops: b[3],
        xid: u32::from_be_bytes(a4(4)),
        secs: u16::from_be_bytes([b[8], b[9]]),
        flags: u16::from_be_bytes([b[10], b[11]]),
        ciaddr: a4(12),
        yiaddr: a4(16),
        siaddr: a4(20),
        giaddr: a4(24),
        chaddr,
        cookie: u32::from_be_bytes(a4(FIXED)),
        opts: vec![],
        tail: Tail::End,
        no_end: false,
        truncated: false,
    };
    let mut i = FIXED + 4;
    loop {
        if i >= b.len() {
            m.no_end = true;
            m.tail = Tail::NoEnd;
            break;
        }
        let code = b[i];
        if code == OPT_END {
            break;
        }
        if code == OPT_PAD {
            i += 1;
            continue;
        }
        if i + 1 >= b.len() {
            m.truncated = true;
            break;
        }
        let l = b[i + 1] as usize;
        if i + 2 + l > b.len() {
            m.truncated = true;
            break;
        }
        m.opts.push((code, b[i + 2..i + 2 + l].to_vec()));
        i += 2 + l;
    }
    Ok(m)
}

/// A subnet mask is contiguous when it is a run of ones followed by zeros.
pub fn mask_prefix(m: [u8; 4]) -> Option<u8> {
    let v = u32::from_be_bytes(m);
    let ones = v.leading_ones();
    if ones == 32 || (v << ones) == 0 {
        Some(ones as u8)
    } else {
        None
    }
}

pub fn prefix_mask(p: u8) -> [u8; 4] {
    let v: u32 = if p == 0 { 0 } else { u32::MAX << (32 - p as u32) };
    v.to_be_bytes()
}

/// unicast = not 0.0.0.0, not 255.255.255.255, not class D
pub fn v4_unicast(a: [u8; 4]) -> bool {
    a != [0; 4] && a != [255; 4] && !(224..=239).contains(&a[0])
}

pub fn ip_s(a: [u8; 4]) -> String {
    format!("{}.{}.{}.{}", a[0], a[1], a[2], a[3])
}
