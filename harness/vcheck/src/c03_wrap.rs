//! C03 helper: turning a packet description into link frames for the three media.
//! On IEEE 802.15.4 the independent encoder of c20_lowpan.rs is used (IPHC in a
//! drawn legal mode, UDP NHC, RFC 4944 fragmentation) plus an own encoder for
//! NHC-compressed extension headers and adversarial FRAG1/FRAGN/NHC frames.

use super::env::*;
use super::lowpan::*;
use vkit::indep::*;
use vkit::{Ctx, Src};

pub fn own_ll(env: &Env) -> Ll {
    env.own.ll
}

fn l2_dst_mac(env: &Env, l2: L2Dst, ipdst: Option<Ip>) -> [u8; 6] {
    match l2 {
        L2Dst::Own => env.own.mac,
        L2Dst::Bcast => MAC_BROADCAST,
        L2Dst::Other => [0x02, 0, 0, 0, 0, 0x99],
        L2Dst::Auto => match ipdst {
            Some(Ip::V4(a)) if a == [255; 4] || Some(a) == env.own.v4_bcast() => MAC_BROADCAST,
            Some(ip) if ip.is_multicast() => mac_for_multicast(&ip),
            _ => env.own.mac,
        },
    }
}

fn ip_dst_of(b: &[u8]) -> Option<Ip> {
    match b.first().map(|x| x >> 4) {
        Some(4) if b.len() >= 20 => Some(Ip::V4([b[16], b[17], b[18], b[19]])),
        Some(6) if b.len() >= 40 => {
            let mut d = [0u8; 16];
            d.copy_from_slice(&b[24..40]);
            Some(Ip::V6(d))
        }
        _ => None,
    }
}

/// Ethernet frame for a packet description.
pub fn wrap_eth(src: &mut Src, env: &Env, p: &Pkt) -> Vec<u8> {
    let (et, payload) = match &p.body {
        Body::V4(b) => (ETH_IPV4, b.clone()),
        Body::V6(b) => (ETH_IPV6, b.clone()),
        Body::Arp(b) => (ETH_ARP, b.clone()),
        Body::Eth(t, b) => (*t, b.clone()),
    };
    let ipdst = match &p.body {
        Body::V4(b) | Body::V6(b) => ip_dst_of(b),
        _ => None,
    };
    let l2 = if p.l2dst == L2Dst::Auto && src.chance(1, 24) { *src.pick(&[L2Dst::Bcast, L2Dst::Own, L2Dst::Other]) } else { p.l2dst };
    let mut payload = payload;
    if payload.len() < 46 && src.chance(1, 4) {
        payload.resize(46, 0); // minimum frame padding
    }
    Eth { dst: l2_dst_mac(env, l2, ipdst), src: env.peers[p.from.min(env.peers.len() - 1)].mac, ethertype: et, payload }.encode()
}

// ------------------------------------------------------------------ 802.15.4 / 6LoWPAN

fn mac_header(src: &mut Src, env: &mut Env, from: Ll, to: Ll) -> Vec<u8> {
    env.seq154 = env.seq154.wrapping_add(1);
    let pan = match env.own.pan {
        Some(p) => match src.weighted(&[12, 1, 1]) {
            0 => p,
            1 => 0xffff,
            _ => p ^ 0x0101,
        },
        None => *src.pick(&[0xbeefu16, 0xffff, 0x1234]),
    };
    let mut m = Mac::data(env.seq154, pan, to, from);
    if src.chance(1, 16) {
        match src.weighted(&[2, 2, 1, 1, 1, 1]) {
            0 => m.src = Ll::None,
            1 => {
                // no PAN id compression: both PAN ids present
                m.pan_comp = false;
                m.src_pan = Some(pan);
            }
            2 => m.ftype = *src.pick(&[0u8, 2, 3, 5, 7]),
            3 => m.security = true,
            4 => m.version = *src.pick(&[1u8, 2, 3]),
            _ => {
                m.dst = Ll::None;
                m.dst_pan = None;
                m.pan_comp = false;
                m.src_pan = Some(pan);
            }
        }
    }
    m.encode()
}

/// IPHC with every field carried in-line and NH=1, followed by the extension headers as
/// LOWPAN_NHC (RFC 6282 4.2); `inconsistent` draws wrong length octets.
fn compress_ext(src: &mut Src, p: &Ip6, inconsistent: bool) -> Vec<u8> {
    // 011 TF=11 NH=1 HLIM=00 | CID=0 SAC=0 SAM=00 M DAC=0 DAM=00
    let m = (p.dst[0] == 0xff) as u8;
    let mut b = vec![0x7c, m << 3, p.hop];
    b.extend_from_slice(&p.src);
    b.extend_from_slice(&p.dst);
    let n = p.ext.len();
    for (i, e) in p.ext.iter().enumerate() {
        let eid = match e.kind {
            PROTO_HOPOPT => 0u8,
            PROTO_V6ROUTE => 1,
            PROTO_V6FRAG => 2,
            _ => 3,
        };
        let last = i + 1 == n;
        // the last extension header either names the upper protocol in-line or (UDP) continues with NHC
        let udp_nhc = last && p.proto == PROTO_UDP && p.payload.len() >= 8 && src.bool();
        let nh = !last || udp_nhc;
        b.push(0xe0 | (eid << 1) | nh as u8);
        if !nh {
            b.push(p.proto);
        }
        let len = if inconsistent && src.chance(1, 2) { *src.pick(&[0u8, 1, 7, 200, 255]) } else { e.body.len() as u8 };
        b.push(len);
        b.extend_from_slice(&e.body);
        if udp_nhc {
            // UDP NHC, ports in-line, checksum in-line
            b.push(0xf0);
            b.extend_from_slice(&p.payload[0..4]);
            b.extend_from_slice(&p.payload[6..8]);
            b.extend_from_slice(&p.payload[8..]);
            return b;
        }
    }
    b.extend_from_slice(&p.payload);
    b
}

/// LOWPAN payloads (one, or FRAG1 + FRAGN...) for an IPv6 datagram, in a drawn legal mode.
pub fn lowpan_payloads(src: &mut Src, env: &mut Env, dgram: &[u8], from: Ll, to: Ll, ctx: &mut Ctx) -> Vec<Vec<u8>> {
    if dgram.len() < 40 || dgram[0] >> 4 != 6 || dgram.len() > 2040 {
        // cannot be expressed in IPHC: send it behind an "uncompressed IPv6" dispatch / as is
        let mut v = if src.bool() { vec![0x41] } else { vec![] };
        v.extend_from_slice(&dgram[..dgram.len().min(110)]);
        ctx.label("lowpan:not-compressible");
        return vec![v];
    }
    let (comp, comp_hdr, unc_hdr): (Vec<u8>, usize, usize) = match decode_ip6(dgram, false) {
        Ok(p) if !p.ext.is_empty() && src.chance(3, 4) => {
            let inconsistent = src.chance(1, 5);
            ctx.label(if inconsistent { "lowpan:nhc-ext-inconsistent" } else { "lowpan:nhc-ext" });
            let c = compress_ext(src, &p, inconsistent);
            let n = c.len();
            (c, n, dgram.len())
        }
        _ => {
            let tc = (dgram[0] << 4) | (dgram[1] >> 4);
            let flow = (((dgram[1] & 15) as u32) << 16) | ((dgram[2] as u32) << 8) | dgram[3] as u32;
            let sa: [u8; 16] = dgram[8..24].try_into().unwrap();
            let da: [u8; 16] = dgram[24..40].try_into().unwrap();
            let tf = *src.pick(&legal_tf(tc, flow));
            let (sac, sam, sci) = if sa == [0; 16] && src.bool() { (true, 0, 0) } else { *src.pick(&legal_unicast_modes(&sa, from, &env.ctxs)) };
            let (dac, dam, dci) = if da[0] == 0xff { (false, *src.pick(&legal_multicast_modes(&da)), 0) } else { *src.pick(&legal_unicast_modes(&da, to, &env.ctxs)) };
            let is_udp = dgram[6] == PROTO_UDP && dgram.len() >= 48;
            let udp_nhc = is_udp && src.chance(3, 4);
            let udp_p = if is_udp {
                let sp = u16::from_be_bytes([dgram[40], dgram[41]]);
                let dp = u16::from_be_bytes([dgram[42], dgram[43]]);
                *src.pick(&legal_udp_p(sp, dp))
            } else {
                0
            };
            let mode = EncMode { tf, hlim_inline: src.chance(1, 3), sac, sam, sci, dac, dam, dci, force_cid: src.chance(1, 5), udp_nhc, udp_p, udp_c: udp_nhc && src.chance(1, 8) };
            let (hdr, unc) = compress(dgram, from, to, &env.ctxs, &mode);
            let ch = hdr.len();
            let mut c = hdr;
            c.extend_from_slice(&dgram[unc..]);
            (c, ch, unc)
        }
    };
    let room = 127 - 23; // worst-case MAC header
    let size = unc_hdr + comp.len() - comp_hdr;
    let can_frag = size < 2048 && comp_hdr + 8 <= room - 4 && size > unc_hdr.div_ceil(8) * 8 + 8;
    if !can_frag || (comp.len() <= room && src.chance(7, 8)) {
        let mut c = comp;
        c.truncate(room);
        return vec![c];
    }
    let max_first_unc = ((room - 4 - comp_hdr) + unc_hdr) / 8 * 8;
    let min_first_unc = unc_hdr.div_ceil(8) * 8;
    if max_first_unc < min_first_unc || min_first_unc >= size {
        let mut c = comp;
        c.truncate(room);
        return vec![c];
    }
    let first_unc = (min_first_unc + 8 * src.draw(((max_first_unc - min_first_unc) / 8) as u64) as usize).min((size - 1) / 8 * 8).max(min_first_unc);
    let max_next = (room - 5) / 8 * 8;
    let mut next = 8 * (1 + src.draw((max_next / 8 - 1) as u64) as usize);
    if (size - first_unc) / next > 12 {
        next = max_next;
    }
    if first_unc >= size || first_unc / 8 > 255 || (size / 8) > 255 + next / 8 {
        let mut c = comp;
        c.truncate(room);
        return vec![c];
    }
    let tag = src.u16();
    let mut frags = fragment(&comp, comp_hdr, unc_hdr, tag, first_unc, next);
    ctx.label("lowpan:fragmented");
    // arrival disorder and inconsistencies
    match src.weighted(&[4, 2, 2, 1, 1, 1, 1, 1, 1]) {
        0 => {}
        1 => frags.reverse(),
        2 => {
            let n = frags.len();
            for i in 0..n - 1 {
                let j = i + src.draw((n - 1 - i) as u64) as usize;
                frags.swap(i, j);
            }
        }
        3 => {
            let i = src.draw(frags.len() as u64 - 1) as usize;
            let f = frags[i].clone();
            frags.push(f);
        }
        4 => {
            let i = src.draw(frags.len() as u64 - 1) as usize;
            frags.remove(i);
        }
        5 => {
            // one fragment names another datagram_size
            let i = src.draw(frags.len() as u64 - 1) as usize;
            let sz = *src.pick(&[0usize, 1, 39, 40, 41, 48, size + 8, size.saturating_sub(8), 2047]);
            frags[i][0] = (frags[i][0] & 0xf8) | (sz >> 8) as u8;
            frags[i][1] = sz as u8;
            ctx.label("lowpan:frag-bad-size");
        }
        6 => {
            // overlapping / wrong offset
            let i = src.draw(frags.len() as u64 - 1) as usize;
            if frags[i][0] & 0xe0 == 0xe0 && frags[i].len() > 4 {
                frags[i][4] = *src.pick(&[0u8, 1, 5, 255, frags[i][4].wrapping_sub(1), frags[i][4].wrapping_add(1)]);
                ctx.label("lowpan:frag-overlap");
            }
        }
        7 => {
            // tiny datagram_size in FRAG1 (smaller than the decompressed headers)
            let sz = *src.pick(&[40usize, 41, 44, 47, 48, 56]);
            for f in frags.iter_mut() {
                f[0] = (f[0] & 0xf8) | (sz >> 8) as u8;
                f[1] = sz as u8;
            }
            ctx.label("lowpan:frag-tiny-size");
        }
        _ => {
            // FRAGN first, FRAG1 last
            let f = frags.remove(0);
            frags.push(f);
            ctx.label("lowpan:fragn-before-frag1");
        }
    }
    frags
}

/// 802.15.4 frames for a packet description (IPv6 only).
pub fn wrap_lowpan(src: &mut Src, env: &mut Env, p: &Pkt, ctx: &mut Ctx) -> Vec<Vec<u8>> {
    let dgram = match &p.body {
        Body::V6(b) => b.clone(),
        Body::V4(b) | Body::Arp(b) | Body::Eth(_, b) => b.clone(),
    };
    let from = env.peers[p.from.min(env.peers.len() - 1)].ll;
    let multicast = dgram.len() >= 40 && dgram[24] == 0xff;
    let to = match p.l2dst {
        L2Dst::Bcast => Ll::Short([0xff, 0xff]),
        L2Dst::Other => Ll::Ext([2, 0, 0, 0, 0, 0, 0, 0x99]),
        L2Dst::Own => own_ll(env),
        L2Dst::Auto => {
            if multicast && src.chance(3, 4) {
                Ll::Short([0xff, 0xff])
            } else {
                own_ll(env)
            }
        }
    };
    let payloads = lowpan_payloads(src, env, &dgram, from, to, ctx);
    let mut out = vec![];
    for pl in payloads {
        let mut f = mac_header(src, env, from, to);
        f.extend_from_slice(&pl);
        f.truncate(127);
        out.push(f);
    }
    out
}

/// Adversarial 6LoWPAN frames that are not derived from a datagram.
pub fn lowpan_adversarial(src: &mut Src, env: &mut Env, ctx: &mut Ctx) -> Vec<Vec<u8>> {
    let from = env.peers[src.weighted(&[3, 1]) as usize].ll;
    let to = if src.chance(1, 5) { Ll::Short([0xff, 0xff]) } else { own_ll(env) };
    let mut payloads: Vec<Vec<u8>> = vec![];
    match src.weighted(&[3, 3, 2, 2, 2]) {
        0 => {
            ctx.label("lowpan-adv:fragn-without-frag1");
            let sz = *src.pick(&[200usize, 40, 41, 48, 1280, 2047, 0, 39]);
            let tag = *src.pick(&[7u16, 8, 0]);
            for _ in 0..src.usize(1, 4) {
                let off = 8 * *src.pick(&[0usize, 1, 5, 6, 25, 128, 255]);
                let mut f = fragn_header(sz, tag, off);
                let n = src.usize(0, 100);
                f.extend(src.bytes(n));
                payloads.push(f);
            }
        }
        1 => {
            ctx.label("lowpan-adv:random-iphc");
            let k = src.usize(2, 60);
            let mut p = src.bytes(k);
            p[0] = 0x60 | (p[0] & 0x1f);
            if src.bool() {
                let mut f = frag1_header(src.usize(0, 300), src.u16());
                f.extend(p);
                payloads.push(f);
            } else {
                payloads.push(p);
            }
        }
        2 => {
            ctx.label("lowpan-adv:nhc-chain");
            // IPHC with NH=1, elided link-local addresses, then NHC headers with drawn lengths
            let mut p = vec![0x7e, 0x33];
            for _ in 0..src.usize(1, 3) {
                let eid = src.draw(7) as u8;
                let nhc = src.bool();
                p.push(0xe0 | (eid << 1) | nhc as u8);
                if !nhc {
                    p.push(*src.pick(&[17u8, 58, 6, 0, 60, 59, 43, 44]));
                }
                let l = *src.pick(&[0usize, 1, 6, 14, 255, 100, 7]);
                p.push(l as u8);
                let have = src.usize(0, l.min(60));
                p.extend(src.bytes(have));
            }
            if src.bool() {
                p.push(0xf0 | src.draw(7) as u8);
                let k = src.usize(0, 12);
                p.extend(src.bytes(k));
            }
            if src.bool() {
                let mut f = frag1_header(*src.pick(&[40usize, 41, 48, 56, 64, 200]), src.u16());
                f.extend(p);
                payloads.push(f);
            } else {
                payloads.push(p);
            }
        }
        3 => {
            ctx.label("lowpan-adv:udp-nhc-short");
            // IPHC (link-local elided) + UDP NHC whose ports / checksum are cut short, optionally in FRAG1 with a small size
            let mut p = vec![0x7e, 0x33, 0xf0 | src.draw(7) as u8];
            let k = src.usize(0, 10);
            p.extend(src.bytes(k));
            if src.chance(2, 3) {
                let mut f = frag1_header(*src.pick(&[40usize, 41, 44, 47, 48, 49, 56]), src.u16());
                f.extend(p);
                payloads.push(f);
            } else {
                payloads.push(p);
            }
        }
        _ => {
            ctx.label("lowpan-adv:other-dispatch");
            let k = src.usize(0, 40);
            let mut p = vec![*src.pick(&[0x41u8, 0x00, 0x3f, 0x50, 0x80, 0xbf, 0xc7, 0xe7, 0xff, 0x40])];
            p.extend(src.bytes(k));
            payloads.push(p);
        }
    }
    let mut out = vec![];
    for pl in payloads {
        let mut f = mac_header(src, env, from, to);
        f.extend_from_slice(&pl);
        f.truncate(127);
        out.push(f);
    }
    out
}
