//! C17 - TCP sockets follow the RFC 9293 connection state diagram.
//!
//! One socket, one event at a time (a segment through poll_ingress_single only,
//! an egress pass only, an API call, a time advance); every observed state
//! change must be an edge of the diagram and the event must satisfy the
//! edge's guard, evaluated by an independent sequence-space view built from
//! the socket's own emitted segments and the harness' API calls.

use smoltcp::socket::tcp::{self, State};
use smoltcp::time::Duration;
use std::collections::BTreeSet;
use vkit::indep::*;
use vkit::runner::{Fail, Part, Prop};
use vkit::sim::tcpbed::{prf_bytes, TcpBed};
use vkit::{Ctx, Src};

#[derive(Default, Clone)]
struct View {
    /// own initial sequence number, once seen on an emitted SYN
    iss: Option<u32>,
    /// peer's initial sequence number: seq of the SYN that was accepted
    irs: Option<u32>,
    /// highest sequence number emitted (seq + len incl. SYN/FIN)
    snd_nxt: Option<u32>,
    /// last ACK number / window emitted
    last_ack: Option<u32>,
    last_win: u32,
    /// bytes accepted by send_slice since the connection was opened
    written: u32,
    close_called: bool,
    /// peer stream offsets (relative to IRS+1) that arrived in some segment
    covered: BTreeSet<u32>,
    from_listen: bool,
    t_open_us: i64,
    t_timewait_us: i64,
    /// instant of the last segment that arrived while the socket was in TIME-WAIT (the only
    /// thing that may restart the 2MSL timer)
    t_last_seg_in_timewait_us: i64,
    timeout_us: Option<i64>,
    /// close() was called in SYN-RECEIVED, i.e. while the own SYN was still unacknowledged
    closed_before_syn_acked: bool,
    /// some segment from the peer carried FIN
    peer_fin_seen: bool,
}

impl View {
    fn fin_seq(&self) -> Option<u32> {
        // sequence number of our FIN: right after everything written
        if self.close_called {
            self.iss.map(|i| i.wrapping_add(1).wrapping_add(self.written))
        } else {
            None
        }
    }
    fn acks_own_fin(&self, seg: &Tcp) -> Option<bool> {
        if !seg.has(ACK) {
            return Some(false);
        }
        self.fin_seq().map(|f| seg.ack == f.wrapping_add(1))
    }
    fn acks_iss(&self, seg: &Tcp) -> Option<bool> {
        if !seg.has(ACK) {
            return Some(false);
        }
        self.iss.map(|i| seg.ack == i.wrapping_add(1))
    }
    /// FIN is in order: every peer octet before it has arrived in some segment.
    fn fin_in_order(&self, seg: &Tcp) -> Option<bool> {
        let irs = self.irs?;
        let off = seq_diff(seg.seq, irs.wrapping_add(1));
        if off < 0 {
            // segment starts before the first data octet: FIN position decides
        }
        let fin_off = off + seg.payload.len() as i64;
        if fin_off < 0 {
            return Some(false);
        }
        if fin_off > 200_000 {
            return Some(false);
        }
        for o in 0..fin_off as u32 {
            let in_this = (o as i64) >= off && (o as i64) < fin_off;
            if !in_this && !self.covered.contains(&o) {
                return Some(false);
            }
        }
        Some(true)
    }
    /// RST sequence number inside the window last advertised (necessary condition)
    fn rst_in_window(&self, seg: &Tcp) -> Option<bool> {
        let a = self.last_ack?;
        let d = seq_diff(seg.seq, a);
        let len = seg.payload.len() as i64;
        let end = d + len;
        let w = self.last_win as i64;
        // RFC 9293 3.10.7.4 acceptability test; the window starts no earlier than the last
        // acknowledgment number sent and ends exactly last_ack + last_win (right edge excluded)
        // (a window filled completely since the last acknowledgment is a zero window at its
        // old right edge: a zero-length segment exactly there is acceptable)
        let filled = d == w && self.rcv_nxt_may_reach(a.wrapping_add(self.last_win));
        Some(match (len == 0, w == 0) {
            (true, true) => d == 0,
            (true, false) => (d >= 0 && d < w) || filled,
            (false, true) => false,
            (false, false) => (d >= 0 && d < w) || (end > 0 && end <= w),
        })
    }
    /// Upper bound on RCV.NXT (contiguous prefix of everything that ever arrived, plus a
    /// FIN) is at or beyond `edge`.
    fn rcv_nxt_may_reach(&self, edge: u32) -> bool {
        let irs = match self.irs {
            Some(i) => i,
            None => return true,
        };
        let mut n = 0u32;
        while self.covered.contains(&n) {
            n += 1;
        }
        let upper = irs.wrapping_add(1).wrapping_add(n).wrapping_add(self.peer_fin_seen as u32);
        !seq_lt(upper, edge)
    }
    fn note_arrival(&mut self, seg: &Tcp) {
        if seg.has(FIN) {
            self.peer_fin_seen = true;
        }
        if let Some(irs) = self.irs {
            let off = seq_diff(seg.seq, irs.wrapping_add(1));
            for i in 0..seg.payload.len() as i64 {
                let o = off + i;
                if (0..200_000).contains(&o) {
                    self.covered.insert(o as u32);
                }
            }
        }
    }
    fn observe_emitted(&mut self, seg: &Tcp) {
        if seg.has(RST) {
            return;
        }
        if seg.has(SYN) {
            self.iss = Some(seg.seq);
        }
        let end = seg.seq.wrapping_add(seg.seg_len());
        match self.snd_nxt {
            Some(n) if !seq_lt(n, end) => {}
            _ => self.snd_nxt = Some(end),
        }
        if seg.has(ACK) {
            self.last_ack = Some(seg.ack);
            self.last_win = seg.win as u32; // no window scaling offered by this peer
        }
    }
}

#[derive(Clone, Debug)]
enum Ev {
    Seg(Tcp),
    Egress,
    Listen,
    Connect,
    Close,
    Abort,
    Send(usize),
    Recv(usize),
    Time(i64),
}

fn st(s: State) -> &'static str {
    match s {
        State::Closed => "CLOSED",
        State::Listen => "LISTEN",
        State::SynSent => "SYN-SENT",
        State::SynReceived => "SYN-RECEIVED",
        State::Established => "ESTABLISHED",
        State::FinWait1 => "FIN-WAIT-1",
        State::FinWait2 => "FIN-WAIT-2",
        State::CloseWait => "CLOSE-WAIT",
        State::Closing => "CLOSING",
        State::LastAck => "LAST-ACK",
        State::TimeWait => "TIME-WAIT",
    }
}

/// Returns Ok(()) if (before -> after) by `ev` is allowed; Err(reason) otherwise.
/// `None` from a guard means the view cannot evaluate it (e.g. ISS not yet seen): not judged.
fn judge(before: State, after: State, ev: &Ev, v: &View, now_us: i64, unknown: &mut bool) -> Result<(), String> {
    use State::*;
    let mut need = |g: Option<bool>, what: &str| -> Result<(), String> {
        match g {
            Some(true) => Ok(()),
            Some(false) => Err(what.to_string()),
            None => {
                *unknown = true;
                Ok(())
            }
        }
    };
    match ev {
        Ev::Listen => match (before, after) {
            (Closed, Listen) | (TimeWait, Listen) => Ok(()),
            _ => Err("listen() may only open a closed socket".into()),
        },
        Ev::Connect => match (before, after) {
            (Closed, SynSent) | (TimeWait, SynSent) => Ok(()),
            _ => Err("connect() may only open a closed socket".into()),
        },
        Ev::Close => match (before, after) {
            (Listen, Closed) | (SynSent, Closed) | (SynReceived, FinWait1) | (Established, FinWait1) | (CloseWait, LastAck) => Ok(()),
            _ => Err("not a close() edge".into()),
        },
        Ev::Abort => {
            if after == Closed {
                Ok(())
            } else {
                Err("abort() must lead to CLOSED".into())
            }
        }
        Ev::Send(_) | Ev::Recv(_) | Ev::Time(_) => Err("send/recv/time advance must not change the state".into()),
        Ev::Egress => match (before, after) {
            (TimeWait, Closed) => {
                if now_us - v.t_timewait_us >= 10_000_000 {
                    Ok(())
                } else if let Some(t) = v.timeout_us {
                    if now_us - v.t_open_us >= t {
                        Ok(())
                    } else {
                        Err(format!("TIME-WAIT ended after {} us (< 10 s)", now_us - v.t_timewait_us))
                    }
                } else {
                    Err(format!("TIME-WAIT ended after {} us (< 10 s)", now_us - v.t_timewait_us))
                }
            }
            (_, Closed) => match v.timeout_us {
                Some(t) if now_us - v.t_open_us >= t => Ok(()),
                Some(t) => Err(format!("closed by an egress pass {} us after opening with timeout {} us", now_us - v.t_open_us, t)),
                None => Err("closed by an egress pass without a configured timeout".into()),
            },
            _ => Err("an egress pass may only close by timeout or end TIME-WAIT".into()),
        },
        Ev::Seg(seg) => {
            let syn = seg.has(SYN);
            let ack = seg.has(ACK);
            let fin = seg.has(FIN);
            let rst = seg.has(RST);
            // reset edges
            if rst {
                return match (before, after) {
                    (SynSent, Closed) => {
                        if !ack {
                            return Err("RST without ACK closed a SYN-SENT socket".into());
                        }
                        need(v.acks_iss(seg), "RST in SYN-SENT does not acknowledge ISS+1")
                    }
                    (SynReceived, Listen) => {
                        if !v.from_listen {
                            return Err("RST returned an actively opened socket to LISTEN".into());
                        }
                        need(v.rst_in_window(seg), "RST outside the advertised window")
                    }
                    (Listen, _) | (Closed, _) | (SynSent, _) => Err("RST caused an impossible transition".into()),
                    (_, Closed) => need(v.rst_in_window(seg), "RST outside the advertised window"),
                    _ => Err("RST may only lead to CLOSED (or LISTEN from SYN-RECEIVED)".into()),
                };
            }
            match (before, after) {
                (Listen, SynReceived) => {
                    if syn && !ack && !fin {
                        Ok(())
                    } else {
                        Err("LISTEN left by something other than a plain SYN".into())
                    }
                }
                (SynSent, Established) => {
                    if !(syn && ack) {
                        return Err("ESTABLISHED from SYN-SENT without SYN+ACK".into());
                    }
                    need(v.acks_iss(seg), "SYN+ACK does not acknowledge exactly ISS+1")
                }
                (SynSent, SynReceived) => {
                    if syn && !ack {
                        Ok(())
                    } else {
                        Err("SYN-RECEIVED from SYN-SENT without a plain SYN".into())
                    }
                }
                (SynReceived, Established) => {
                    // (a FIN that is not in order is legitimately disregarded, so FIN may be set)
                    if syn || !ack {
                        return Err("ESTABLISHED from SYN-RECEIVED by a segment that is not an ACK".into());
                    }
                    need(v.acks_iss(seg), "ACK completing the handshake does not acknowledge exactly ISS+1")
                }
                (SynReceived, CloseWait) | (Established, CloseWait) => {
                    if !fin || syn {
                        return Err("CLOSE-WAIT entered without a FIN".into());
                    }
                    if before == SynReceived {
                        need(v.acks_iss(seg), "FIN in SYN-RECEIVED does not acknowledge ISS+1")?;
                    }
                    need(v.fin_in_order(seg), "CLOSE-WAIT entered by a FIN that is not in order")
                }
                (FinWait1, Closing) => {
                    if !fin {
                        return Err("CLOSING entered without a FIN".into());
                    }
                    need(v.fin_in_order(seg), "CLOSING entered by a FIN that is not in order")
                }
                (FinWait1, FinWait2) => {
                    // (a FIN that is not in order is legitimately disregarded, so FIN may be set)
                    need(v.acks_own_fin(seg), "FIN-WAIT-2 entered without an acknowledgment of the own FIN")
                }
                (FinWait1, TimeWait) => {
                    if !fin {
                        return Err("TIME-WAIT from FIN-WAIT-1 without a FIN".into());
                    }
                    need(v.acks_own_fin(seg), "TIME-WAIT from FIN-WAIT-1 without an acknowledgment of the own FIN")?;
                    need(v.fin_in_order(seg), "TIME-WAIT from FIN-WAIT-1 by a FIN that is not in order")
                }
                (FinWait2, TimeWait) => {
                    if !fin {
                        return Err("TIME-WAIT from FIN-WAIT-2 without a FIN".into());
                    }
                    need(v.fin_in_order(seg), "TIME-WAIT entered by a FIN that is not in order")
                }
                (Closing, TimeWait) => need(v.acks_own_fin(seg), "TIME-WAIT from CLOSING without an acknowledgment of the own FIN"),
                (LastAck, Closed) => need(v.acks_own_fin(seg), "CLOSED from LAST-ACK without an acknowledgment of the own FIN"),
                _ => Err("not an edge of the RFC 9293 state diagram".into()),
            }
        }
    }
}

fn gen_segment(src: &mut Src, bed: &TcpBed, v: &View, peer_irs: u32, stream_seed: u64) -> Tcp {
    // sequence number candidates
    let rcv_nxt = v.last_ack.unwrap_or(v.irs.unwrap_or(peer_irs).wrapping_add(1));
    let win = v.last_win;
    let seq = match src.weighted(&[8, 2, 2, 2, 2, 1, 1, 1]) {
        0 => rcv_nxt,
        1 => rcv_nxt.wrapping_sub(1),
        2 => rcv_nxt.wrapping_add(1),
        3 => rcv_nxt.wrapping_add(win.saturating_sub(1)),
        4 => rcv_nxt.wrapping_add(win),
        5 => peer_irs,
        6 => rcv_nxt.wrapping_add(src.range(0, 5000) as u32),
        _ => src.u32(),
    };
    let iss = v.iss.unwrap_or(0);
    let ackv = match src.weighted(&[6, 4, 3, 2, 2, 1, 1]) {
        0 => iss.wrapping_add(1),
        1 => v.snd_nxt.unwrap_or(iss.wrapping_add(1)),
        2 => v.fin_seq().map(|f| f.wrapping_add(1)).unwrap_or(iss.wrapping_add(1).wrapping_add(v.written)),
        3 => iss.wrapping_add(1).wrapping_add(v.written),
        4 => v.snd_nxt.unwrap_or(iss).wrapping_add(1),
        5 => iss,
        _ => src.u32(),
    };
    let kind = src.weighted(&[10, 4, 4, 3, 2, 1]);
    let mut flags = match kind {
        0 => 0,
        1 => SYN,
        2 => FIN,
        3 => RST,
        4 => PSH,
        _ => *src.pick(&[SYN | FIN, SYN | RST, FIN | RST, URG, SYN | FIN | RST]),
    };
    let with_ack = if flags & SYN != 0 { src.bool() } else { src.chance(7, 8) };
    if with_ack {
        flags |= ACK;
    }
    let mut t = Tcp::new(bed.rport, bed.lport, seq, None, flags, src.u16());
    if with_ack {
        t.ack = ackv;
    }
    let plen = match src.weighted(&[5, 3, 1]) {
        0 => 0,
        1 => src.usize(1, 8),
        _ => src.usize(1, 64),
    };
    if plen > 0 {
        // consistent peer stream: byte at offset o relative to IRS+1
        let irs = v.irs.unwrap_or(peer_irs);
        let off = seq.wrapping_sub(irs.wrapping_add(1));
        t.payload = prf_bytes(stream_seed, off as u64, plen);
    }
    if flags & SYN != 0 && src.bool() {
        t.opts.push(TcpOpt::Mss(*src.pick(&[1460u16, 536, 0, 1])));
    }
    t
}

/// The segment the RFC expects next in `state` (deep part: drives the socket along the
/// good edges so that the random events meet it in the late states).
fn helpful_segment(src: &mut Src, bed: &TcpBed, v: &View, peer_irs: u32, state: State) -> Option<Tcp> {
    let irs = v.irs.unwrap_or(peer_irs);
    let rcv_nxt = v.last_ack.unwrap_or(irs.wrapping_add(1));
    let iss = v.iss?;
    let snd_nxt = v.snd_nxt.unwrap_or(iss.wrapping_add(1));
    let mk = |seq: u32, ack: Option<u32>, flags: u8| {
        let mut t = Tcp::new(bed.rport, bed.lport, seq, None, flags | if ack.is_some() { ACK } else { 0 }, 4096);
        if let Some(a) = ack {
            t.ack = a;
        }
        t
    };
    match state {
        State::SynSent => Some(mk(peer_irs, Some(iss.wrapping_add(1)), SYN)),
        State::SynReceived => Some(mk(irs.wrapping_add(1), Some(iss.wrapping_add(1)), 0)),
        State::Established | State::FinWait1 | State::FinWait2 => Some(match src.weighted(&[2, 2, 1]) {
            0 => mk(rcv_nxt, Some(snd_nxt), FIN),
            1 => mk(rcv_nxt, Some(snd_nxt), 0),
            _ => mk(rcv_nxt, Some(v.fin_seq().map(|f| f.wrapping_add(1)).unwrap_or(snd_nxt)), FIN),
        }),
        State::Closing | State::LastAck => Some(mk(rcv_nxt, Some(v.fin_seq().map(|f| f.wrapping_add(1)).unwrap_or(snd_nxt)), 0)),
        _ => None,
    }
}

fn case(src: &mut Src, ctx: &mut Ctx) -> Result<(), Fail> {
    run_case(src, ctx, false)
}

/// Same events, same oracle; the event choice leans towards what moves the connection
/// forward, and close() is not called in SYN-RECEIVED (the open finding there would end
/// the case before the late states are reached).
fn case_deep(src: &mut Src, ctx: &mut Ctx) -> Result<(), Fail> {
    run_case(src, ctx, true)
}

fn run_case(src: &mut Src, ctx: &mut Ctx, deep: bool) -> Result<(), Fail> {
    let v6 = src.chance(1, 5);
    let rx_cap = *src.pick(&[64usize, 256, 4096, 1, 16]);
    let tx_cap = *src.pick(&[64usize, 256, 4096, 16]);
    let seed = src.u64();
    let stream_seed = src.u64();
    let mut bed = TcpBed::new(v6, rx_cap, tx_cap, 1500, seed);
    let timeout_us: Option<i64> = if src.chance(1, 4) { Some(*src.pick(&[5_000_000i64, 1_000_000, 30_000_000])) } else { None };
    bed.sock().set_timeout(timeout_us.map(|t| Duration::from_micros(t as u64)));
    if src.bool() {
        bed.sock().set_ack_delay(None);
    }
    ctx.note(|| format!("{} rx={} tx={} timeout={:?}", if v6 { "ipv6" } else { "ipv4" }, rx_cap, tx_cap, timeout_us));
    let mut v = View {
        timeout_us,
        ..Default::default()
    };
    let mut peer_irs = src.u32();
    let mut visited: BTreeSet<&'static str> = BTreeSet::new();
    let mut rejected = 0u32;
    let mut unknown_any = false;
    visited.insert(st(bed.sock().state()));
    let mut n = 0;
    while n < 120 && src.more(49, 50) {
        n += 1;
        let before = bed.sock().state();
        // choose an event, biased by state so that deep states are reached
        let steer = deep && src.chance(1, 2);
        let ev = if steer {
            match before {
                State::Closed | State::TimeWait => {
                    if src.bool() {
                        Ev::Listen
                    } else {
                        Ev::Connect
                    }
                }
                State::Listen => {
                    let mut t = Tcp::new(bed.rport, bed.lport, peer_irs, None, SYN, 4096);
                    if src.bool() {
                        t.opts.push(TcpOpt::Mss(1460));
                    }
                    Ev::Seg(t)
                }
                State::CloseWait => src.pick(&[Ev::Close, Ev::Egress, Ev::Recv(64)]).clone(),
                st0 => match (v.iss, src.weighted(&[3, 2, 1])) {
                    (None, _) | (Some(_), 1) => Ev::Egress,
                    (Some(_), 2) if st0 == State::Established => Ev::Close,
                    _ => match helpful_segment(src, &bed, &v, peer_irs, st0) {
                        Some(t) => Ev::Seg(t),
                        None => Ev::Egress,
                    },
                },
            }
        } else {
          match src.weighted(&[12, 6, 2, 2, 2, 1, 2, 2, 3]) {
            0 => Ev::Seg(gen_segment(src, &bed, &v, peer_irs, stream_seed)),
            1 => Ev::Egress,
            2 => Ev::Listen,
            3 => Ev::Connect,
            4 => Ev::Close,
            5 => Ev::Abort,
            6 => Ev::Send(src.usize(1, 100)),
            7 => Ev::Recv(src.usize(1, 100)),
            _ => Ev::Time(*src.pick(&[1_000i64, 10_000, 1_000_000, 3_000_000, 9_999_999, 10_000_000, 60_000_000])),
          }
        };
        // (deep part) close() in SYN-RECEIVED is the registered open finding: stay clear of it
        let ev = if deep && before == State::SynReceived && matches!(ev, Ev::Close) { Ev::Egress } else { ev };
        ctx.note(|| match &ev {
            Ev::Seg(s) => format!("[{}] segment {}", st(before), s),
            other => format!("[{}] {:?}", st(before), other),
        });
        let mut emitted = vec![];
        match &ev {
            Ev::Seg(s) => {
                emitted = bed.ingress_single(s)?;
            }
            Ev::Egress => {
                emitted = bed.egress()?;
            }
            Ev::Listen => {
                let p = bed.lport;
                let r = bed.sock().listen(p);
                if r.is_ok() && !matches!(before, State::Listen) {
                    v = View {
                        timeout_us,
                        from_listen: true,
                        t_open_us: bed.now_us,
                        ..Default::default()
                    };
                    peer_irs = src.u32();
                }
            }
            Ev::Connect => {
                let remote = (bed.remote.to_smol(), bed.rport);
                let lport = bed.lport;
                let h = bed.handle;
                let cx = bed.node.iface.context();
                let r = bed.node.sockets.get_mut::<tcp::Socket>(h).connect(cx, remote, lport);
                if r.is_ok() {
                    v = View {
                        timeout_us,
                        from_listen: false,
                        t_open_us: bed.now_us,
                        ..Default::default()
                    };
                    peer_irs = src.u32();
                }
            }
            Ev::Close => {
                bed.sock().close();
                if matches!(before, State::SynReceived | State::Established | State::CloseWait) {
                    v.close_called = true;
                }
                if before == State::SynReceived {
                    v.closed_before_syn_acked = true;
                }
            }
            Ev::Abort => bed.sock().abort(),
            Ev::Send(k) => {
                let data = prf_bytes(stream_seed ^ 1, v.written as u64, *k);
                if let Ok(w) = bed.sock().send_slice(&data) {
                    v.written = v.written.wrapping_add(w as u32);
                }
            }
            Ev::Recv(k) => {
                let mut buf = vec![0u8; *k];
                let _ = bed.sock().recv_slice(&mut buf);
            }
            Ev::Time(d) => bed.advance(*d),
        }
        let after = bed.sock().state();
        // "TIME-WAIT ends by itself after 10 s": only an arriving segment can restart the timer,
        // so an egress pass 10 s or more after the later of (entry into TIME-WAIT, last segment
        // received in TIME-WAIT) must find the timer expired and close the socket
        if before == State::TimeWait {
            if let Ev::Seg(_) = &ev {
                v.t_last_seg_in_timewait_us = bed.now_us;
            }
            // (a pass that still had something to send - the ACK of the peer's FIN - closes on
            // the next pass, which follows at once inside Interface::poll: only a pass with
            // nothing to send is judged)
            if matches!(ev, Ev::Egress) && after == State::TimeWait && emitted.is_empty() {
                let since = v.t_timewait_us.max(v.t_last_seg_in_timewait_us);
                if bed.now_us - since >= 10_000_000 {
                    ctx.report(Fail::new(
                        "time-wait-does-not-end",
                        format!("still in TIME-WAIT after an egress pass with nothing to send {} us after it was entered / last refreshed by a segment (10 s are over)", bed.now_us - since),
                    ))?;
                    ctx.label("ended-at-known-finding");
                    return Ok(());
                }
            }
        }
        // the peer's ISN is the sequence number of the SYN that was accepted
        if let Ev::Seg(s) = &ev {
            if s.has(SYN) && matches!((before, after), (State::Listen, State::SynReceived) | (State::SynSent, State::Established) | (State::SynSent, State::SynReceived)) {
                if before == State::Listen {
                    // a new passive connection (possibly after a RST returned the socket to
                    // LISTEN): nothing of an earlier connection applies any more; the
                    // timeout clock of a passive open starts with the SYN
                    v = View {
                        timeout_us,
                        from_listen: true,
                        t_open_us: bed.now_us,
                        ..Default::default()
                    };
                }
                v.irs = Some(s.seq);
                v.covered.clear();
            }
            v.note_arrival(s);
        }
        if before != after {
            let mut unknown = false;
            if let Err(why) = judge(before, after, &ev, &v, bed.now_us, &mut unknown) {
                let evs = match &ev {
                    Ev::Seg(s) => format!("segment {}", s),
                    other => format!("{:?}", other),
                };
                let class = match &ev {
                    Ev::Seg(_) => "segment",
                    Ev::Egress => "egress",
                    _ => "api",
                };
                // root cause classifier: the ACK of the own SYN taken for the ACK of the own FIN
                // after close() in SYN-RECEIVED
                let syn_ack_as_fin_ack = match &ev {
                    Ev::Seg(s) => v.closed_before_syn_acked && why.contains("acknowledgment of the own FIN") && v.acks_iss(s) == Some(true),
                    _ => false,
                };
                let key = if syn_ack_as_fin_ack {
                    "close-in-syn-received:ack-of-syn-taken-as-ack-of-fin".to_string()
                } else {
                    format!("illegal-transition:{}->{}:{}", st(before), st(after), class)
                };
                let known_root_cause = syn_ack_as_fin_ack;
                ctx.report(Fail::new(
                    key,
                    format!("{} -> {} caused by {}: {} (view: iss={:?} irs={:?} last_ack={:?} win={} written={} fin_seq={:?})", st(before), st(after), evs, why, v.iss, v.irs, v.last_ack, v.last_win, v.written, v.fin_seq()),
                ))?;
                // an open known finding: the socket is now in a state the model cannot follow
                let _ = known_root_cause;
                ctx.label("ended-at-known-finding");
                return Ok(());
            }
            if unknown {
                unknown_any = true;
            }
            if after == State::TimeWait {
                v.t_timewait_us = bed.now_us;
            }
            ctx.label(&format!("{}->{}", st(before), st(after)));
        } else if let Ev::Seg(_) = &ev {
            rejected += 1;
        }
        for s in &emitted {
            ctx.note(|| format!("    sock: {}", s));
            v.observe_emitted(s);
        }
        visited.insert(st(after));
        ctx.digest.str(st(after));
    }
    if unknown_any {
        ctx.label("guard-not-evaluable");
    }
    if visited.len() >= 3 && rejected >= 1 {
        ctx.nontrivial = true;
    }
    for s in &visited {
        ctx.label(&format!("visited:{}", s));
    }
    ctx.digest.u64(n);
    ctx.digest.u64(rejected as u64);
    Ok(())
}

pub fn prop() -> Prop {
    Prop {
        id: "C17",
        parts: vec![Part { name: "states", case, quick: 1_500_000, thorough: 30_000_000 }, Part { name: "deep", case: case_deep, quick: 750_000, thorough: 15_000_000 }],
        phases: vec![],
        smoltcp_panic_is_violation: true,
        rule: "one TCP socket driven one event at a time (a generated segment through poll_ingress_single only, an egress pass only, listen/connect/close/abort/send/recv, a time advance; <=120 events, several connection life cycles per case); segment seq/ack are drawn around the values that matter (RCV.NXT, window edges, ISS+1, SND.NXT, FIN+1, +-1, random) from an independent view built from the socket's emitted segments; every observed state change must be an edge of the RFC 9293 diagram whose guard the event satisfies; non-trivial = >= 3 distinct states visited and >= 1 segment that left the state unchanged; distinct by digest of the state sequence; part `deep` is the same loop with half of the events chosen as what the RFC expects next in the current state (the right SYN, the handshake ACK, an in-order FIN, the ACK of the own FIN, close() in CLOSE-WAIT) so that the random half meets the socket in ESTABLISHED and the closing states",
        assumptions: vec![
            "guards are necessary conditions evaluated from emitted segments and API calls; when the socket's ISS has not been observed yet the guard is not judged (counted under label guard-not-evaluable)",
            "the own FIN's sequence number is ISS+1+bytes accepted by send_slice, whether or not the FIN has been transmitted yet",
            "in-order FIN = every earlier peer octet has arrived in some segment (necessary condition); in-window RST = RFC 9293 acceptability test against [last ACK sent, last ACK sent + last window sent) - right edge excluded; a zero-length segment exactly at that edge counts only when the octets that ever arrived could have filled the window",
            "the scripted peer never offers window scaling (windows are compared unscaled)",
        ],
    }
}
