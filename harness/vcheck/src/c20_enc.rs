//! C20: (5) the independent IPHC/NHC encoder + fragmenter feed a receiving interface
//! in every legal mode; (adversarial) crafted FRAG1/FRAGN/IPHC/NHC frames.

use super::dgram::*;
use super::lowpan::*;
use super::world::*;
use smoltcp::wire::SixlowpanAddressContext;
use vkit::indep::*;
use vkit::runner::Fail;
use vkit::sim::ms;
use vkit::{Ctx, Src};

struct Crafted {
    cfg: Cfg,
    w: World,
    socks: Socks,
    ctxs: Ctxs,
    x_ll: Ll,
    mac_dst: Ll,
    pan: u16,
    dgram: Vec<u8>,
    pkt: Ip6,
    mode: EncMode,
    comp: Vec<u8>,
    comp_hdr: usize,
    unc_hdr: usize,
    /// LOWPAN payloads (one unfragmented, or FRAG1 + FRAGN...)
    payloads: Vec<Vec<u8>>,
    /// (first, offset, len) of each payload in uncompressed space
    ranges: Vec<(bool, usize, usize)>,
    src_class: &'static str,
}

const OTHER_PREFIX: [u8; 8] = [0x20, 0x01, 0x0d, 0xb8, 0xaa, 0xaa, 0xbb, 0xbb];

fn craft(src: &mut Src, ctx: &mut Ctx, max_payload: usize) -> Crafted {
    let mut cl = draw_classes(src);
    if cl.pan.is_none() && src.bool() {
        cl.pan = Some(0x4321);
    }
    let cfg = make_cfg(&cl);
    let mut w = World::new(&cfg, true, 1280);
    let b = &cfg.n[1];
    let spec = SockSpec { udp_ports: vec![draw_port(src), 0x1234], icmp_ident: Some(src.u16()), raw_udp: true };
    let spec = if spec.udp_ports[0] == 0x1234 { SockSpec { udp_ports: vec![0x1235, 0x1234], ..spec } } else { spec };
    let socks = make_socks(&mut w.s[1].node, &spec);
    // contexts known to the receiver (and to the encoder): index 0 = the receiver's global prefix
    let nctx = src.weighted(&[2, 2, 2]);
    let mut ctxs = Ctxs::default();
    let prefixes = [G_PREFIXES[cl.prefix as usize], OTHER_PREFIX];
    for i in 0..nctx {
        ctxs.0[i] = Some(prefixes[i]);
        w.s[1].node.iface.sixlowpan_address_context_mut().push(SixlowpanAddressContext(prefixes[i])).expect("context table");
    }
    ctx.label(&format!("enc:contexts-{}", nctx));
    // phantom sender X
    let xs = src.u64();
    let (_, x_ll) = make_hw(src.weighted(&[2, 1]) as u64, xs, cl.pan);
    let sclass = src.draw(7);
    let r = mixh(xs, 9).to_be_bytes();
    let iid = |k: u64| -> [u8; 8] {
        match k {
            0 => x_ll.iid().unwrap(),
            1 => [0, 0, 0, 0xff, 0xfe, 0, r[0], r[1] | 1],
            _ => {
                let mut v = r;
                v[7] |= 1;
                v
            }
        }
    };
    let (sprefix, siid, src_class): ([u8; 8], [u8; 8], &'static str) = match sclass {
        0 => ([0xfe, 0x80, 0, 0, 0, 0, 0, 0], iid(0), "enc-src:ll-derived"),
        1 => ([0xfe, 0x80, 0, 0, 0, 0, 0, 0], iid(1), "enc-src:ll-16bit"),
        2 => ([0xfe, 0x80, 0, 0, 0, 0, 0, 0], iid(2), "enc-src:ll-other"),
        3 => (prefixes[0], iid(0), "enc-src:ctx0-derived"),
        4 => (prefixes[0], iid(1), "enc-src:ctx0-16bit"),
        5 => (prefixes[0], iid(2), "enc-src:ctx0-other"),
        6 => (prefixes[1], iid(src.draw(2)), "enc-src:ctx1-prefix"),
        _ => ([0x20, 0x01, 0x0d, 0xb8, 0xff, 0xff, 0, 9], iid(src.draw(2)), "enc-src:uncovered-global"),
    };
    let mut sa = [0u8; 16];
    sa[..8].copy_from_slice(&sprefix);
    sa[8..].copy_from_slice(&siid);
    let dclass = src.weighted(&[3, 3, 2, 1]);
    let da = match dclass {
        0 => b.addrs[0],
        1 => b.addrs[1],
        2 => dst_addr(2, &cfg, 1),
        _ => solicited_node(&b.addrs[0]),
    };
    let mac_dst = if da[0] == 0xff && src.chance(2, 3) { Ll::Short([0xff, 0xff]) } else { b.ll };
    let proto = if src.chance(1, 4) { PROTO_ICMPV6 } else { PROTO_UDP };
    let len = match src.weighted(&[3, 3, 2]) {
        0 => src.usize(0, 60),
        1 => src.usize(40, 300.min(max_payload)),
        _ => src.usize(0, max_payload),
    };
    let payload = make_payload(src.u64(), len);
    let sport = draw_port(src).max(1);
    let (s, d) = (Ip::V6(sa), Ip::V6(da));
    let l4 = if proto == PROTO_UDP { Udp::new(sport, spec.udp_ports[0], payload).encode(&s, &d) } else { Icmp::echo(true, true, spec.icmp_ident.unwrap(), src.u16(), payload).encode6(&s, &d) };
    let mut pkt = Ip6::new(sa, da, proto, l4);
    pkt.hop = draw_hop(src);
    if src.chance(1, 3) {
        pkt.tc = match src.weighted(&[1, 1, 1]) {
            0 => src.draw(3) as u8,        // ECN only
            1 => (src.draw(63) as u8) << 2, // DSCP only
            _ => src.u8(),
        };
    }
    if src.chance(1, 3) {
        pkt.flow = src.draw(0xfffff) as u32;
    }
    let dgram = pkt.encode();
    // a legal mode in every dimension
    let tf = *src.pick(&legal_tf(pkt.tc, pkt.flow));
    let (sac, sam, sci) = *src.pick(&legal_unicast_modes(&sa, x_ll, &ctxs));
    let (dac, dam, dci) = if da[0] == 0xff { (false, *src.pick(&legal_multicast_modes(&da)), 0) } else { *src.pick(&legal_unicast_modes(&da, mac_dst, &ctxs)) };
    let udp_nhc = proto == PROTO_UDP && src.chance(3, 4);
    let udp_p = if proto == PROTO_UDP { *src.pick(&legal_udp_p(sport, spec.udp_ports[0])) } else { 0 };
    let mode = EncMode { tf, hlim_inline: src.chance(1, 3), sac, sam, sci, dac, dam, dci, force_cid: if (sac && sam != 0) || dac { src.chance(4, 5) } else { src.chance(1, 6) }, udp_nhc, udp_p, udp_c: false };
    let (hdr, unc_hdr) = compress(&dgram, x_ll, mac_dst, &ctxs, &mode);
    let comp_hdr = hdr.len();
    let mut comp = hdr;
    comp.extend_from_slice(&dgram[unc_hdr..]);
    let pan = cl.pan.unwrap_or(0xbeef);
    let mac_len = Mac::data(0, pan, mac_dst, x_ll).encode().len();
    let room = 127 - mac_len;
    let (payloads, ranges) = if comp.len() <= room && src.chance(7, 8) || dgram.len() < unc_hdr + 16 {
        (vec![comp.clone()], vec![(true, 0, dgram.len())])
    } else {
        // first fragment: all compressed headers plus k*8 - unc_hdr payload octets
        let max_first_unc = ((room - 4 - comp_hdr) + unc_hdr) / 8 * 8;
        let min_first_unc = unc_hdr.div_ceil(8) * 8;
        let first_unc = (min_first_unc + 8 * src.draw(((max_first_unc - min_first_unc) / 8) as u64) as usize).min((dgram.len() - 1) / 8 * 8).max(min_first_unc);
        let max_next = (room - 5) / 8 * 8;
        let next = 8 * (1 + src.draw((max_next / 8 - 1) as u64) as usize);
        // keep the number of fragments moderate
        let next = if (dgram.len() - first_unc) / next > 40 { max_next } else { next };
        let p = fragment(&comp, comp_hdr, unc_hdr, src.u16(), first_unc, next);
        let mut r = vec![(true, 0usize, first_unc)];
        let mut off = first_unc;
        for f in p.iter().skip(1) {
            r.push((false, off, f.len() - 5));
            off += f.len() - 5;
        }
        (p, r)
    };
    // the decoder must agree with the encoder (keeps the two independent halves honest)
    {
        let first = match decode_dispatch(&payloads[0]).expect("own frame") {
            Lp::Iphc(p) => decompress(p, x_ll, mac_dst, &ctxs).expect("own IPHC").build(None),
            Lp::Frag1 { size, rest, .. } => {
                let mut b = decompress(rest, x_ll, mac_dst, &ctxs).expect("own IPHC").build(Some(size));
                for f in payloads.iter().skip(1) {
                    if let Lp::FragN { rest, offset, .. } = decode_dispatch(f).unwrap() {
                        assert_eq!(offset, b.len());
                        b.extend_from_slice(rest);
                    }
                }
                b
            }
            _ => unreachable!(),
        };
        assert_eq!(first, dgram, "independent encoder and decoder disagree for mode {:?}", mode);
    }
    ctx.note(|| format!("receiver {} pan {:#06x}; phantom sender ll={} ; datagram {} -> {} proto {} hop {} tc {:#04x} flow {:#x} length {}; mode {:?}; {} LOWPAN payload(s) {:?}", describe_cfg(&cfg), pan, x_ll, a2s(&sa), a2s(&da), proto, pkt.hop, pkt.tc, pkt.flow, dgram.len(), mode, payloads.len(), payloads.iter().map(|p| p.len()).collect::<Vec<_>>()));
    Crafted { cfg, w, socks, ctxs, x_ll, mac_dst, pan, dgram, pkt, mode, comp, comp_hdr, unc_hdr, payloads, ranges, src_class }
}

fn frame(c: &Crafted, seq: u8, payload: &[u8]) -> Vec<u8> {
    let mut f = Mac::data(seq, c.pan, c.mac_dst, c.x_ll).encode();
    f.extend_from_slice(payload);
    f
}

/// Failure key: the two known ways stateful (context-based) address modes go wrong get their own keys.
fn stateful_key(c: &Crafted, generic: &str) -> String {
    let m = &c.mode;
    let multicast = c.pkt.dst[0] == 0xff;
    let stateful = (m.sac && m.sam != 0) || (m.dac && !multicast);
    let cid_octet = m.force_cid || (m.sac && m.sam != 0 && m.sci != 0) || (!multicast && m.dac && m.dci != 0);
    if stateful && !cid_octet {
        "ingress:iphc-stateful-address-with-default-context-0-rejected-when-cid-octet-absent".into()
    } else if (m.sac && m.sam == 2) || (m.dac && !multicast && m.dam == 2) {
        "ingress:iphc-stateful-16bit-address-decompressed-without-00ff-fe00-mapping".into()
    } else {
        generic.into()
    }
}

pub fn enc_case(src: &mut Src, ctx: &mut Ctx) -> Result<(), Fail> {
    let mut c = craft(src, ctx, 1200);
    let variant = src.weighted(&[6, 2, 1]);
    // variant 1: flip a payload bit after the checksum was computed (UDP, checksum in-line)
    // variant 2: elide the UDP checksum (C=1); the decompressor must recompute it
    let mut expect = true;
    if variant == 1 && c.pkt.proto == PROTO_UDP && c.dgram.len() > 48 {
        let last = c.payloads.len() - 1;
        let n = c.payloads[last].len();
        c.payloads[last][n - 1] ^= 0x01;
        expect = false;
        ctx.label("enc:udp-payload-corrupted");
    } else if variant == 2 && c.mode.udp_nhc {
        let mut m = c.mode;
        m.udp_c = true;
        let (hdr, unc) = compress(&c.dgram, c.x_ll, c.mac_dst, &c.ctxs, &m);
        if c.payloads.len() == 1 {
            let mut p = hdr;
            p.extend_from_slice(&c.dgram[unc..]);
            c.payloads = vec![p];
            ctx.label("enc:udp-checksum-elided");
        }
    }
    let n = c.payloads.len();
    // arrival order: within what the reassembler can track
    let mut order: Vec<usize> = (0..n).collect();
    if n > 1 {
        match src.weighted(&[3, 1, 2]) {
            0 => {}
            1 => order.reverse(),
            _ => {
                for i in 0..n - 1 {
                    let j = i + src.draw((n - 1 - i) as u64) as usize;
                    order.swap(i, j);
                }
            }
        }
    }
    let reasm_timeout_ms = c.w.s[1].node.iface.reassembly_timeout().total_millis() as i64;
    let mut model = RefReasm::new(smoltcp::config::REASSEMBLY_BUFFER_COUNT, smoltcp::config::ASSEMBLER_MAX_SEGMENT_COUNT, reasm_timeout_ms);
    let key: FragKey = (c.x_ll, c.mac_dst, c.dgram.len(), 0);
    let mut complete = n == 1;
    let one_by_one = src.bool();
    let mut now = 0i64;
    for (k, i) in order.iter().enumerate() {
        let f = frame(&c, k as u8, &c.payloads[*i]);
        assert!(f.len() <= 127);
        if n > 1 {
            let (first, off, len) = c.ranges[*i];
            if model.fragment(now, key, first, off, len) {
                complete = true;
            }
        }
        c.w.s[1].node.inject(f);
        if one_by_one {
            c.w.s[1].node.poll(ms(now), None);
            now += 1;
        }
    }
    c.w.s[1].node.poll(ms(now), None);
    let evs = read_events(&mut c.w.s[1].node, &c.socks);
    let raws = read_raw(&mut c.w.s[1].node, &c.socks);
    let want = event_for(&c.pkt, &c.socks).expect("datagram addressed to a bound socket");
    let m = &c.mode;
    let mode_label = format!("enc:tf{}-hl{}-s{}{}-d{}{}{}", m.tf, if m.hlim_inline { "i" } else { "c" }, if m.sac { "c" } else { "" }, m.sam, if c.pkt.dst[0] == 0xff { "m" } else if m.dac { "c" } else { "" }, m.dam, if c.pkt.proto == PROTO_UDP { if m.udp_nhc { format!("-nhc{}", m.udp_p) } else { "-udp-inline".into() } } else { "-icmp".into() });
    ctx.label(&mode_label);
    ctx.label(c.src_class);
    ctx.label(frag_bucket(n));
    ctx.digest.str(&mode_label);
    ctx.digest.str(c.src_class);
    ctx.digest.u64(c.dgram.len() as u64);
    ctx.digest.u64(n as u64);
    if !expect {
        if let Some(e) = evs.first() {
            return Err(Fail::new(
                "ingress:udp-nhc-checksum-not-verified",
                format!("a LOWPAN_NHC-compressed UDP datagram whose payload was altered after its (in-line) checksum was computed was delivered: {}; the decompressor rebuilds the UDP header with checksum 0 instead of the transmitted checksum, so the datagram that reaches UDP is not the one that was sent and is never verified (mode {:?})", e.brief(), c.mode),
            ));
        }
        ctx.nontrivial = true;
        return Ok(());
    }
    if !complete {
        ctx.label("enc:order-beyond-assembler-limit");
        for e in &evs {
            if *e != want {
                return Err(Fail::new("ingress:delivered-data-matches-no-datagram-sent", format!("{} but the datagram sent would give {}", e.brief(), want.brief())));
            }
        }
        return Ok(());
    }
    // the raw sockets show the decompressed datagram with its IPv6 header: apart from traffic class and
    // flow label (which smoltcp does not keep) it must be the datagram that was compressed
    for got in &raws {
        if got.len() != c.dgram.len() || got[4..] != c.dgram[4..] {
            return Err(Fail::new(
                stateful_key(&c, "ingress:independently-compressed-datagram-decompressed-differently"),
                format!("datagram {} -> {} proto {} hop {} length {} compressed by the independent encoder in legal mode {:?} reached a raw socket as {} octets with next header {} hop limit {}; {}", a2s(&c.pkt.src), a2s(&c.pkt.dst), c.pkt.proto, c.pkt.hop, c.dgram.len(), c.mode, got.len(), got.get(6).copied().unwrap_or(0), got.get(7).copied().unwrap_or(0), first_diff(got, &c.dgram)),
            ));
        }
        ctx.count("raw_socket_datagrams_compared", 1);
    }
    match evs.len() {
        1 if evs[0] == want => {
            ctx.nontrivial = true;
            Ok(())
        }
        0 => Err(Fail::new(
            stateful_key(&c, "ingress:independently-compressed-datagram-not-delivered"),
            format!("datagram {} -> {} proto {} length {} compressed by the independent encoder in legal mode {:?} ({} frame(s), order {:?}, MAC {} -> {}) was not delivered; expected: {}", a2s(&c.pkt.src), a2s(&c.pkt.dst), c.pkt.proto, c.dgram.len(), c.mode, n, order, c.x_ll, c.mac_dst, want.brief()),
        )),
        _ => Err(Fail::new(
            stateful_key(&c, "ingress:independently-compressed-datagram-delivered-differently"),
            format!("sent (mode {:?}) what should give: {}; got {} event(s), first: {}", c.mode, want.brief(), evs.len(), evs[0].brief()),
        )),
    }
}

// ------------------------------------------------------------------ adversarial frames: must never panic

pub fn adv_case(src: &mut Src, ctx: &mut Ctx) -> Result<(), Fail> {
    let mut c = craft(src, ctx, 400);
    let mut now = 0i64;
    let mut seq = 0u8;
    // optionally run a complete, valid, fragmented datagram through first so that a reassembly
    // slot with a grown buffer is left behind
    if src.chance(2, 3) {
        for p in c.payloads.clone() {
            let f = frame(&c, seq, &p);
            seq = seq.wrapping_add(1);
            c.w.s[1].node.inject(f);
        }
        c.w.s[1].node.poll(ms(now), None);
        now += 1;
        ctx.label("adv:primed-with-valid-datagram");
    }
    let size = c.dgram.len();
    let steps = 1 + src.draw(5);
    for _ in 0..steps {
        let kind = src.weighted(&[3, 3, 2, 2, 2, 2, 2, 1]);
        let mut lp: Vec<u8> = match kind {
            0 => {
                // FRAG1 whose datagram_size is smaller than the decompressed headers / arbitrary
                let sz = match src.weighted(&[3, 2, 1]) {
                    0 => src.usize(40, 64),
                    1 => src.usize(0, 48),
                    _ => src.usize(0, 2047),
                };
                ctx.label("adv:frag1-small-datagram-size");
                let mut f = frag1_header(sz, src.u16());
                let take = src.usize(c.comp_hdr.min(c.comp.len()), c.comp.len()).min(110);
                f.extend_from_slice(&c.comp[..take]);
                f
            }
            1 => {
                // truncate a valid frame at every octet
                ctx.label("adv:truncated");
                let p = c.payloads[src.draw(c.payloads.len() as u64 - 1) as usize].clone();
                let at = src.draw(p.len() as u64) as usize;
                p[..at].to_vec()
            }
            2 => {
                ctx.label("adv:fragn-without-frag1");
                let sz = *src.pick(&[size.min(2047), 40, 41, 48, 1280, 2047, 0]);
                let off = *src.pick(&[0usize, 8, 40, 48, 2040, 1024]);
                let mut f = fragn_header(sz, src.u16(), off);
                let n = src.usize(0, 100);
                f.extend(src.bytes(n));
                f
            }
            3 => {
                ctx.label("adv:overlapping-fragn");
                let tag = 7;
                let sz = src.usize(48, 400);
                let off = 8 * src.usize(0, 40);
                let mut f = fragn_header(sz, tag, off);
                let n = src.usize(1, 100);
                f.extend(src.bytes(n));
                f
            }
            4 => {
                ctx.label("adv:header-bit-flips");
                let mut p = c.payloads[src.draw(c.payloads.len() as u64 - 1) as usize].clone();
                for _ in 0..1 + src.draw(3) {
                    if !p.is_empty() {
                        let i = src.draw((p.len().min(24) - 1) as u64) as usize;
                        p[i] ^= 1 << src.draw(7);
                    }
                }
                p
            }
            5 => {
                ctx.label("adv:random-iphc");
                let k = src.usize(2, 60);
                let mut p = src.bytes(k);
                p[0] = 0x60 | (p[0] & 0x1f);
                if src.bool() {
                    let mut f = frag1_header(src.usize(40, 300), src.u16());
                    f.extend(p);
                    f
                } else {
                    p
                }
            }
            6 => {
                ctx.label("adv:nhc-ext-header-chain");
                // IPHC with NH=1, link-local elided addresses, then extension headers with drawn lengths
                let mut p = vec![0x7e, 0x33];
                for _ in 0..1 + src.draw(2) {
                    let eid = src.draw(7) as u8;
                    let nhc = src.bool();
                    p.push(0xe0 | (eid << 1) | nhc as u8);
                    if !nhc {
                        p.push(*src.pick(&[17u8, 58, 6, 0, 60, 59]));
                    }
                    let l = *src.pick(&[0usize, 1, 6, 14, 255, 100, 7]);
                    p.push(l as u8);
                    let have = src.usize(0, l.min(60));
                    p.extend(src.bytes(have));
                }
                if src.bool() {
                    p.push(0xf0 | src.draw(7) as u8);
                    let k = src.usize(0, 12);
                    p.extend(src.bytes(k));
                }
                if src.bool() {
                    let mut f = frag1_header(src.usize(40, 200), src.u16());
                    f.extend(p);
                    f
                } else {
                    p
                }
            }
            _ => {
                ctx.label("adv:oversized-frag1-content");
                // FRAG1 carrying more than datagram_size says
                let mut f = frag1_header(src.usize(40, 60), src.u16());
                f.extend_from_slice(&c.comp[..c.comp.len().min(110)]);
                f
            }
        };
        lp.truncate(116);
        let mut f = match src.weighted(&[8, 1, 1]) {
            0 => Mac::data(seq, c.pan, c.mac_dst, c.x_ll).encode(),
            1 => Mac::data(seq, c.pan, c.mac_dst, Ll::None).encode(),
            _ => {
                let mut m = Mac::data(seq, c.pan, Ll::None, c.x_ll);
                m.dst_pan = None;
                m.src_pan = Some(c.pan);
                m.pan_comp = false;
                m.encode()
            }
        };
        seq = seq.wrapping_add(1);
        f.extend_from_slice(&lp);
        f.truncate(127);
        ctx.note(|| format!("inject {:02x?}", f));
        c.w.s[1].node.inject(f);
        if src.bool() {
            now += *src.pick(&[0i64, 1, 1000, 61_000]);
            c.w.s[1].node.poll(ms(now), None);
        }
    }
    now += 1;
    c.w.s[1].node.poll(ms(now), None);
    let evs = read_events(&mut c.w.s[1].node, &c.socks);
    ctx.count("adv_events", evs.len() as u64);
    ctx.nontrivial = true;
    ctx.digest.u64(steps);
    ctx.digest.u64(size as u64);
    ctx.digest.u64(seq as u64);
    let _ = (&c.cfg, c.unc_hdr);
    Ok(())
}
