//! C20: independent encoder feeding the receiver, adversarial frames. (stub)
use vkit::runner::Fail;
use vkit::{Ctx, Src};
pub fn enc_case(_src: &mut Src, _ctx: &mut Ctx) -> Result<(), Fail> { Ok(()) }
pub fn adv_case(_src: &mut Src, _ctx: &mut Ctx) -> Result<(), Fail> { Ok(()) }
