//! C20 helper: two-node world (IEEE 802.15.4 / 6LoWPAN, or the raw-IP twin),
//! per-sender frame analysis with the independent codec, a channel that
//! permutes / duplicates / delays frames, and the receiver-side reassembly model.

use super::lowpan::*;
use smoltcp::wire::{IpAddress, IpCidr, Ipv6Address};
use std::collections::{BTreeMap, VecDeque};
use vkit::indep::*;
use vkit::runner::Fail;
use vkit::sim::{ms, Hw, Node};
use vkit::{Ctx, Src};

pub const K_BACK2BACK: &str = "egress:sixlowpan-fragments-of-back-to-back-datagrams-mixed-or-lost";
pub const K_OVERSIZE: &str = "egress:sixlowpan-datagram-over-2047-octets-emitted-with-corrupt-fragment-headers";
pub const K_FRAGS_MISSING: &str = "egress:sixlowpan-fragments-missing-at-quiescence";

pub fn v6(a: &[u8; 16]) -> Ipv6Address {
    Ipv6Address::from(*a)
}
pub fn ipa(a: &[u8; 16]) -> IpAddress {
    IpAddress::Ipv6(v6(a))
}
pub fn from_ipa(a: IpAddress) -> [u8; 16] {
    match a {
        IpAddress::Ipv6(x) => x.octets(),
        #[allow(unreachable_patterns)]
        _ => [0; 16],
    }
}
pub fn a2s(a: &[u8; 16]) -> String {
    format!("{}", std::net::Ipv6Addr::from(*a))
}

// ------------------------------------------------------------------ sender-side frame analysis

#[derive(Clone, Debug)]
pub struct FragInfo {
    pub first: bool,
    pub off: usize,
    pub len: usize,
    pub key: FragKey,
}

#[derive(Clone, Debug, Default)]
pub struct FrameInfo {
    /// index into the sender's `TxAnalyzer::dgrams`; None = frame could not be attributed
    pub dgram: Option<usize>,
    pub frag: Option<FragInfo>,
    pub ndisc: bool,
}

#[derive(Clone, Debug)]
pub struct TxDgram {
    pub tag: Option<u16>,
    pub size: usize,
    pub bytes: Vec<u8>,
    have: Vec<bool>,
    got_first: bool,
    pub nfrags: usize,
    pub complete: bool,
    pub pkt: Option<Ip6>,
    pub modes: Modes,
    pub first_frame: usize,
    pub last_frame: usize,
    udp_fix: Option<usize>,
    /// set by the case when the datagram was recognised (index into its list of sent datagrams)
    pub app: Option<usize>,
    pub matched: bool,
    pub delivered: bool,
    lost_reported: bool,
}

pub struct TxAnalyzer {
    pub me: Ll,
    pub peer: Ll,
    pub pan: Option<u16>,
    pub dgrams: Vec<TxDgram>,
    open: BTreeMap<(u16, usize), usize>,
    pub nframes: usize,
    pub over125: usize,
    pub max_frame: usize,
    /// failures that do not prevent the frame from being analysed further (reported by the world right after `push`)
    pub soft: Vec<Fail>,
    pan_reported: bool,
}

fn efail<T>(key: &str, msg: String) -> Result<T, Fail> {
    Err(Fail::new(key, msg))
}

impl TxAnalyzer {
    pub fn new(me: Ll, peer: Ll, pan: Option<u16>) -> TxAnalyzer {
        TxAnalyzer { me, peer, pan, dgrams: vec![], open: BTreeMap::new(), nframes: 0, over125: 0, max_frame: 0, soft: vec![], pan_reported: false }
    }

    fn finish(&mut self, id: usize) -> Result<bool, Fail> {
        let d = &mut self.dgrams[id];
        d.complete = true;
        if let Some(u) = d.udp_fix {
            fill_udp_checksum(&mut d.bytes, u);
        }
        let hex = |b: &[u8]| format!("{:02x?}", &b[..b.len().min(96)]);
        let pkt = match decode_ip6(&d.bytes, true) {
            Ok(p) => p,
            Err(e) => return efail("egress:reconstructed-datagram-malformed", format!("independent decompression/reassembly gives a malformed IPv6 datagram: {} in {}", e, hex(&d.bytes))),
        };
        let (s, t) = (Ip::V6(pkt.src), Ip::V6(pkt.dst));
        let mut ndisc = false;
        // keep the packet even if an upper-layer check below fails, so that a later delivery can be attributed
        d.pkt = Some(pkt.clone());
        let mut soft: Vec<Fail> = vec![];
        match pkt.proto {
            PROTO_UDP => {
                if let Err(e) = decode_udp(&pkt.payload, &s, &t) {
                    if e.contains("zero checksum") {
                        soft.push(Fail::new(
                            "egress:udp-nhc-checksum-zero-sent-instead-of-ffff",
                            format!("UDP datagram {}:{} -> {}:{} ({} payload octets) carries checksum 0x0000 in the LOWPAN_NHC header; a computed checksum of zero must be sent as 0xffff (RFC 768 / RFC 8200 §8.1), a receiver must discard a zero checksum over IPv6", s, u16::from_be_bytes([pkt.payload[0], pkt.payload[1]]), t, u16::from_be_bytes([pkt.payload[2], pkt.payload[3]]), pkt.payload.len() - 8),
                        ));
                    } else {
                        soft.push(Fail::new("egress:l4-invalid:udp", format!("{} in reconstructed datagram {}", e, hex(&d.bytes))));
                    }
                }
            }
            PROTO_TCP => {
                if let Err(e) = decode_tcp(&pkt.payload, &s, &t) {
                    soft.push(Fail::new("egress:l4-invalid:tcp", format!("{} in reconstructed datagram {}", e, hex(&d.bytes))));
                }
            }
            PROTO_ICMPV6 => match decode_icmp6(&pkt.payload, &s, &t) {
                Ok(i) => ndisc = (133..=137).contains(&i.ty),
                Err(e) => soft.push(Fail::new("egress:l4-invalid:icmpv6", format!("{} in reconstructed datagram {}", e, hex(&d.bytes)))),
            },
            _ => {}
        }
        self.soft.extend(soft);
        Ok(ndisc)
    }

    /// Analyse one emitted frame.
    pub fn push(&mut self, frame: &[u8]) -> Result<FrameInfo, Fail> {
        let n = self.nframes;
        self.nframes += 1;
        self.max_frame = self.max_frame.max(frame.len());
        // aMaxPHYPacketSize is 127 octets INCLUDING the two FCS octets, which frames handed to the
        // device do not carry: 125 is what fits (and what the stack's own size arithmetic uses)
        if frame.len() > 125 {
            self.over125 += 1;
            return efail("egress:frame-exceeds-125-octets", format!("frame of {} octets handed to the IEEE 802.15.4 device (127 minus the 2-octet FCS = 125 fit a frame)", frame.len()));
        }
        let (mac, hl) = match decode_mac(frame) {
            Ok(x) => x,
            Err(e) => return efail("egress:ieee802154-header-undecodable", format!("{} in {:02x?}", e, &frame[..frame.len().min(32)])),
        };
        if mac.ftype != 1 || mac.security || mac.reserved != 0 {
            return efail("egress:ieee802154-header-unexpected", format!("not a plain data frame: {:?}", mac));
        }
        if mac.src != self.me {
            return efail("egress:ieee802154-source-address", format!("frame source {} but the interface's hardware address is {}", mac.src, self.me));
        }
        if mac.dst != self.peer && !mac.dst.is_broadcast() {
            return efail("egress:ieee802154-destination-address", format!("frame destination {} is neither the peer {} nor broadcast", mac.dst, self.peer));
        }
        match self.pan {
            Some(p) => {
                if mac.dst_pan != Some(p) {
                    return efail("egress:ieee802154-pan-id", format!("destination PAN {:?}, configured {:#06x}", mac.dst_pan, p));
                }
            }
            None => {
                if mac.dst_pan == Some(0xa5a5) && !self.pan_reported {
                    self.pan_reported = true;
                    self.soft.push(Fail::new(
                        "egress:ieee802154-dst-pan-octets-unwritten-with-pan-id-none",
                        "with Config::pan_id = None the two destination-PAN octets of the MAC header are counted in the header length but never written: the frame carries whatever was in the transmit buffer (0xa5a5 here)",
                    ));
                }
            }
        }
        let payload = &frame[hl..];
        let no_ctx = Ctxs::default();
        let lp = match decode_dispatch(payload) {
            Ok(l) => l,
            Err(e) => return efail("egress:sixlowpan-dispatch-unknown", format!("{} (frame {} of {} octets: {:02x?})", e, n, frame.len(), &payload[..payload.len().min(12)])),
        };
        match lp {
            Lp::Iphc(p) => {
                let d = decompress(p, mac.src, mac.dst, &no_ctx).map_err(|e| Fail::new("egress:iphc-undecodable", format!("{} in {:02x?}", e, &p[..p.len().min(48)])))?;
                let bytes = d.build(None);
                let id = self.dgrams.len();
                self.dgrams.push(TxDgram {
                    tag: None,
                    size: bytes.len(),
                    have: vec![],
                    got_first: true,
                    nfrags: 1,
                    complete: false,
                    pkt: None,
                    modes: d.modes,
                    first_frame: n,
                    last_frame: n,
                    udp_fix: if d.udp_csum_elided { d.udp_at.map(|u| 40 + u) } else { None },
                    app: None,
                    matched: false,
                    delivered: false,
                    lost_reported: false,
                    bytes,
                });
                let ndisc = self.finish(id)?;
                Ok(FrameInfo { dgram: Some(id), frag: None, ndisc })
            }
            Lp::Frag1 { size, tag, rest } => {
                let d = decompress(rest, mac.src, mac.dst, &no_ctx).map_err(|e| Fail::new("egress:iphc-undecodable", format!("{} in FRAG1 {:02x?}", e, &rest[..rest.len().min(48)])))?;
                let unc = d.uncompressed_len();
                if unc > size {
                    return efail("egress:frag:beyond-datagram-size", format!("FRAG1 stands for {} uncompressed octets but datagram_size is {}", unc, size));
                }
                if unc % 8 != 0 && unc != size {
                    return efail(
                        "egress:frag:frag1-uncompressed-length-not-multiple-of-8",
                        format!("FRAG1 (tag {}, datagram_size {}) stands for {} uncompressed octets ({} compressed header octets for {} uncompressed + {} payload): the next offset cannot be expressed in 8-octet units", tag, size, unc, d.compressed_len, 40 + d.hdrs.len(), d.rest.len()),
                    );
                }
                let id = match self.open.get(&(tag, size)) {
                    Some(id) => *id,
                    None => {
                        let id = self.dgrams.len();
                        self.dgrams.push(TxDgram {
                            tag: Some(tag),
                            size,
                            bytes: vec![0; size],
                            have: vec![false; size],
                            got_first: false,
                            nfrags: 0,
                            complete: false,
                            pkt: None,
                            modes: d.modes,
                            first_frame: n,
                            last_frame: n,
                            udp_fix: None,
                            app: None,
                            matched: false,
                            delivered: false,
                            lost_reported: false,
                        });
                        self.open.insert((tag, size), id);
                        id
                    }
                };
                let dg = &mut self.dgrams[id];
                if dg.got_first {
                    return efail("egress:frag:duplicate-frag1", format!("second FRAG1 for tag {} size {}", tag, size));
                }
                dg.got_first = true;
                dg.nfrags += 1;
                dg.last_frame = n;
                dg.modes = d.modes;
                if d.udp_csum_elided {
                    dg.udp_fix = d.udp_at.map(|u| 40 + u);
                }
                let b = d.build(Some(size));
                for (i, x) in b.iter().enumerate() {
                    if dg.have[i] {
                        return efail("egress:frag:overlap", format!("FRAG1 overlaps octet {} already sent in a FRAGN (tag {})", i, tag));
                    }
                    dg.bytes[i] = *x;
                    dg.have[i] = true;
                }
                let key = (mac.src, mac.dst, size, tag);
                let mut ndisc = false;
                if dg.have.iter().all(|h| *h) {
                    self.open.remove(&(tag, size));
                    ndisc = self.finish(id)?;
                }
                Ok(FrameInfo { dgram: Some(id), frag: Some(FragInfo { first: true, off: 0, len: unc, key }), ndisc })
            }
            Lp::FragN { size, tag, offset, rest } => {
                let Some(&id) = self.open.get(&(tag, size)) else {
                    return efail(
                        "egress:frag:fragn-matches-no-open-datagram",
                        format!("FRAGN tag {} datagram_size {} offset {} matches no datagram for which a FRAG1 was sent (open: {:?})", tag, size, offset, self.open.keys().collect::<Vec<_>>()),
                    );
                };
                let dg = &mut self.dgrams[id];
                if offset + rest.len() > size {
                    return efail("egress:frag:beyond-datagram-size", format!("FRAGN offset {} + {} octets exceeds datagram_size {}", offset, rest.len(), size));
                }
                if rest.len() % 8 != 0 && offset + rest.len() != size {
                    return efail("egress:frag:fragn-length-not-multiple-of-8", format!("FRAGN at offset {} carries {} octets and is not the last fragment (datagram_size {})", offset, rest.len(), size));
                }
                if rest.is_empty() {
                    return efail("egress:frag:empty-fragment", format!("FRAGN at offset {} carries no data", offset));
                }
                for (i, x) in rest.iter().enumerate() {
                    if dg.have[offset + i] {
                        return efail("egress:frag:overlap", format!("FRAGN at offset {} ({} octets) overlaps octet {} already sent (tag {})", offset, rest.len(), offset + i, tag));
                    }
                    dg.bytes[offset + i] = *x;
                    dg.have[offset + i] = true;
                }
                dg.nfrags += 1;
                dg.last_frame = n;
                let key = (mac.src, mac.dst, size, tag);
                let mut ndisc = false;
                if dg.have.iter().all(|h| *h) {
                    self.open.remove(&(tag, size));
                    ndisc = self.finish(id)?;
                }
                Ok(FrameInfo { dgram: Some(id), frag: Some(FragInfo { first: false, off: offset, len: rest.len(), key }), ndisc })
            }
        }
    }

    /// The sender has nothing more to transmit: every datagram it started must be complete.
    pub fn quiescent_check(&mut self) -> Result<(), Fail> {
        for i in 0..self.dgrams.len() {
            let d = &self.dgrams[i];
            if d.complete || d.lost_reported {
                continue;
            }
            let missing: usize = d.have.iter().filter(|h| !**h).count();
            let later = self.dgrams.iter().skip(i + 1).find(|o| o.tag.is_some() && o.first_frame > d.first_frame);
            let sent: Vec<String> = {
                let mut v = vec![];
                let mut s = 0;
                while s < d.size {
                    if d.have[s] {
                        let mut e = s;
                        while e < d.size && d.have[e] {
                            e += 1;
                        }
                        v.push(format!("{}..{}", s, e));
                        s = e;
                    } else {
                        s += 1;
                    }
                }
                v
            };
            let f = match later {
                Some(o) => Fail::new(
                    K_BACK2BACK,
                    format!(
                        "datagram tag {:?} ({} octets) was abandoned after {} fragment(s) (octets sent: {:?}, {} missing) when the next datagram needing fragmentation (tag {:?}, {} octets, first frame #{}) was dispatched: the single fragmentation buffer was overwritten while fragments were still pending (last fragment of the first datagram was frame #{})",
                        d.tag, d.size, d.nfrags, sent, missing, o.tag, o.size, o.first_frame, d.last_frame
                    ),
                ),
                None => Fail::new(K_FRAGS_MISSING, format!("datagram tag {:?} ({} octets): only octets {:?} were sent in {} fragment(s), {} octets never followed although the interface has nothing more to transmit", d.tag, d.size, sent, d.nfrags, missing)),
            };
            self.dgrams[i].lost_reported = true;
            return Err(f);
        }
        Ok(())
    }
}

// ------------------------------------------------------------------ world

#[derive(Clone, Debug)]
pub struct NodeCfg {
    pub hw: Hw,
    pub ll: Ll,
    pub addrs: Vec<[u8; 16]>,
    pub seed: u64,
}

#[derive(Clone, Debug)]
pub struct Cfg {
    pub pan: Option<u16>,
    pub n: [NodeCfg; 2],
    pub mtu: usize,
}

pub struct Side {
    pub node: Node,
    pub addrs: Vec<[u8; 16]>,
    pub an: TxAnalyzer,
    pub outbox: Vec<(Vec<u8>, FrameInfo)>,
    rx_infos: VecDeque<FrameInfo>,
    pub reasm: RefReasm,
    /// sender-side datagram ids whose arrival/reassembly at this node is complete per the model
    pub completed: Vec<usize>,
    pub polls: u64,
}

pub struct World {
    pub s: Vec<Side>,
    pub now_ms: i64,
    pub lowpan: bool,
    /// a known finding was stepped over: later consequences are not separate failures
    pub tainted: bool,
    /// a datagram larger than the 11-bit datagram_size field is queued on some socket
    pub oversize_pending: bool,
    pub frames_delivered: u64,
    pub frames_duplicated: u64,
    pub max_gap_ms: i64,
    pub drains_capped: u32,
}

pub trait App {
    fn before_round(&mut self, _w: &mut World, _ctx: &mut Ctx) -> Result<(), Fail> {
        Ok(())
    }
    fn after_poll(&mut self, w: &mut World, side: usize, ctx: &mut Ctx) -> Result<(), Fail>;
    fn done(&mut self, w: &mut World) -> bool;
}

#[derive(Clone, Debug, Default)]
pub struct Chunk {
    pub gap_ms: i64,
    pub frames: Vec<usize>,
}

/// How the channel may treat frames.
#[derive(Clone, Copy, Debug)]
pub struct Faults {
    pub reorder: bool,
    pub dup: bool,
    pub gaps: bool,
    pub backpressure: bool,
}

impl Faults {
    pub const NONE: Faults = Faults { reorder: false, dup: false, gaps: false, backpressure: false };
    pub fn any(&self) -> bool {
        self.reorder || self.dup || self.gaps
    }
}

impl World {
    pub fn new(cfg: &Cfg, lowpan: bool, mtu: usize) -> World {
        let limits = (smoltcp::config::REASSEMBLY_BUFFER_COUNT, smoltcp::config::ASSEMBLER_MAX_SEGMENT_COUNT);
        let mut s = vec![];
        for i in 0..2 {
            let c = &cfg.n[i];
            let hw = if lowpan { c.hw.clone() } else { Hw::Ip };
            let mut node = Node::new(hw, mtu, c.seed, false, ms(0));
            for a in &c.addrs {
                node.add_addr(IpCidr::new(ipa(a), 64));
            }
            // the statement speaks of arrival orders, not of how long fragments are kept: the model
            // uses whatever timeout this interface reports (60 s by default)
            let reasm_timeout_ms = node.iface.reassembly_timeout().total_millis() as i64;
            s.push(Side {
                node,
                addrs: c.addrs.clone(),
                an: TxAnalyzer::new(c.ll, cfg.n[1 - i].ll, cfg.pan),
                outbox: vec![],
                rx_infos: VecDeque::new(),
                reasm: RefReasm::new(limits.0, limits.1, reasm_timeout_ms),
                completed: vec![],
                polls: 0,
            });
        }
        World { s, now_ms: 0, lowpan, tainted: false, oversize_pending: false, frames_delivered: 0, frames_duplicated: 0, max_gap_ms: 0, drains_capped: 0 }
    }

    /// One Interface::poll of node `i`; the reassembly model of that node sees the same frames at the same time.
    fn poll_node(&mut self, i: usize, budget: Option<usize>) -> Vec<Vec<u8>> {
        let now = self.now_ms;
        let side = &mut self.s[i];
        side.reasm.poll_begin(now);
        while let Some(info) = side.rx_infos.pop_front() {
            let Some(d) = info.dgram else { continue };
            match &info.frag {
                None => {
                    if !info.ndisc {
                        side.completed.push(d);
                    }
                }
                Some(f) => {
                    if side.reasm.fragment(now, f.key, f.first, f.off, f.len) {
                        side.completed.push(d);
                    }
                }
            }
        }
        side.polls += 1;
        side.node.poll(ms(now), budget)
    }

    pub fn inject(&mut self, to: usize, frame: Vec<u8>, info: FrameInfo) {
        self.s[to].node.inject(frame);
        self.s[to].rx_infos.push_back(info);
    }

    fn handle_tx(&mut self, i: usize, frame: Vec<u8>, ctx: &mut Ctx, depth: usize) -> Result<(), Fail> {
        if !self.lowpan {
            self.s[i].outbox.push((frame, FrameInfo::default()));
            return Ok(());
        }
        let pushed = self.s[i].an.push(&frame);
        for f in std::mem::take(&mut self.s[i].an.soft) {
            ctx.note(|| format!("    [{}] {}: {}", i, f.key, f.msg));
            ctx.report(f)?;
        }
        match pushed {
            Ok(info) => {
                if info.ndisc {
                    // neighbour discovery flows immediately, in order, without faults
                    ctx.note(|| format!("    [{}] NDISC frame ({} octets) -> delivered at once", i, frame.len()));
                    let o = 1 - i;
                    self.inject(o, frame, info);
                    if depth == 0 {
                        // the answer is queued at the asking node, which is polled again by its drain loop
                        // (never poll a node while the frames of its previous poll are still being analysed)
                        let out = self.poll_node(o, None);
                        for f in out {
                            self.handle_tx(o, f, ctx, depth + 1)?;
                        }
                    }
                } else {
                    self.s[i].outbox.push((frame, info));
                }
                Ok(())
            }
            Err(mut f) => {
                if self.oversize_pending && !f.key.starts_with("egress:ieee802154-dst-pan") {
                    f = Fail::new(K_OVERSIZE, format!("a datagram longer than 2047 octets (the 11-bit datagram_size field of RFC 4944) is queued and the interface emitted an undecodable frame: {}", f.msg));
                }
                ctx.note(|| format!("    [{}] frame rejected by the independent decoder: {} ({})", i, f.key, f.msg));
                ctx.report(f)?;
                self.tainted = true;
                self.s[i].outbox.push((frame, FrameInfo::default()));
                Ok(())
            }
        }
    }

    /// Poll node `i` until it has nothing more to say at the current time. The first polls use the budgets in `plan`.
    pub fn drain(&mut self, i: usize, plan: &mut Vec<usize>, app: &mut dyn App, ctx: &mut Ctx) -> Result<usize, Fail> {
        let mut guard = 0;
        let mut total = 0;
        loop {
            let budget = if plan.is_empty() { None } else { Some(plan.remove(0)) };
            let had_rx = !self.s[i].node.dev.rx.is_empty();
            let frames = self.poll_node(i, budget);
            let n = frames.len();
            total += n;
            if n > 0 || budget.is_some() {
                ctx.note(|| format!("  [{}] poll(t={} ms, tx budget {:?}) -> {} frame(s) {:?}", i, self.now_ms, budget, n, frames.iter().map(|f| f.len()).collect::<Vec<_>>()));
            }
            for f in frames {
                self.handle_tx(i, f, ctx, 0)?;
            }
            app.after_poll(self, i, ctx)?;
            guard += 1;
            if budget.is_none() && n == 0 && !had_rx && self.s[i].node.dev.rx.is_empty() {
                break;
            }
            if guard > 900 {
                self.drains_capped += 1;
                break;
            }
        }
        Ok(total)
    }

    /// Deliver the sender's outbox to the other node following `plan`.
    pub fn deliver(&mut self, from: usize, plan: Vec<Chunk>, app: &mut dyn App, ctx: &mut Ctx) -> Result<(), Fail> {
        let frames = std::mem::take(&mut self.s[from].outbox);
        let to = 1 - from;
        let mut seen = vec![0u32; frames.len()];
        for ch in plan {
            self.now_ms += ch.gap_ms;
            self.max_gap_ms = self.max_gap_ms.max(ch.gap_ms);
            for idx in &ch.frames {
                let (f, info) = &frames[*idx];
                seen[*idx] += 1;
                if seen[*idx] > 1 {
                    self.frames_duplicated += 1;
                }
                self.frames_delivered += 1;
                self.inject(to, f.clone(), info.clone());
            }
            ctx.note(|| {
                format!(
                    "  channel {}->{} (t={} ms): {}",
                    from,
                    to,
                    self.now_ms,
                    ch.frames
                        .iter()
                        .map(|i| match &frames[*i].1 {
                            FrameInfo { dgram: Some(d), frag: Some(f), .. } => format!("d{}@{}+{}", d, f.off, f.len),
                            FrameInfo { dgram: Some(d), frag: None, .. } => format!("d{}", d),
                            _ => "?".to_string(),
                        })
                        .collect::<Vec<_>>()
                        .join(" ")
                )
            });
            let out = self.poll_node(to, None);
            for f in out {
                self.handle_tx(to, f, ctx, 0)?;
            }
            app.after_poll(self, to, ctx)?;
        }
        Ok(())
    }

    pub fn next_deadline(&mut self) -> Option<i64> {
        let now = ms(self.now_ms);
        (0..2).filter_map(|i| self.s[i].node.poll_at(now)).map(|t| t.total_millis()).min()
    }

    /// Run rounds (drain both, deliver both ways) until nothing moves and the app is done.
    pub fn pump(&mut self, app: &mut dyn App, src: &mut Src, faults: Faults, ctx: &mut Ctx, max_rounds: usize, horizon_ms: i64) -> Result<bool, Fail> {
        let mut idle_rounds = 0;
        for _ in 0..max_rounds {
            app.before_round(self, ctx)?;
            for i in 0..2 {
                let mut plan = if faults.backpressure { draw_budgets(src) } else { vec![] };
                self.drain(i, &mut plan, app, ctx)?;
            }
            let mut moved = false;
            for from in 0..2 {
                if self.s[from].outbox.is_empty() {
                    continue;
                }
                moved = true;
                let infos: Vec<FrameInfo> = self.s[from].outbox.iter().map(|x| x.1.clone()).collect();
                let plan = if self.lowpan { draw_plan(src, &infos, faults) } else { vec![Chunk { gap_ms: 0, frames: (0..infos.len()).collect() }] };
                self.deliver(from, plan, app, ctx)?;
            }
            if moved {
                idle_rounds = 0;
                self.now_ms += 1;
                continue;
            }
            // quiescent: every datagram a sender started must be complete now
            if self.lowpan {
                for i in 0..2 {
                    loop {
                        match self.s[i].an.quiescent_check() {
                            Ok(()) => break,
                            Err(f) => {
                                ctx.report(f)?;
                                self.tainted = true;
                            }
                        }
                    }
                }
            }
            if app.done(self) {
                return Ok(true);
            }
            idle_rounds += 1;
            match self.next_deadline() {
                Some(t) if t <= self.now_ms => self.now_ms += 1,
                Some(t) => self.now_ms = t.min(self.now_ms + 5_000),
                None => {
                    if idle_rounds > 2 {
                        ctx.label("pump-end:no-deadline");
                        return Ok(false);
                    }
                    self.now_ms += 1;
                }
            }
            if self.now_ms > horizon_ms {
                ctx.label("pump-end:horizon");
                return Ok(false);
            }
        }
        ctx.label("pump-end:max-rounds");
        Ok(false)
    }
}

pub fn draw_budgets(src: &mut Src) -> Vec<usize> {
    let mut v = vec![];
    if src.chance(1, 2) {
        while v.len() < 8 && src.more(3, 4) {
            v.push(src.draw(3) as usize);
        }
    }
    v
}

fn shuffle(src: &mut Src, v: &mut [usize]) {
    let n = v.len();
    for i in 0..n.saturating_sub(1) {
        let j = i + src.draw((n - 1 - i) as u64) as usize;
        v.swap(i, j);
    }
}

/// Order, duplication, chunking and timing of one batch of frames.
pub fn draw_plan(src: &mut Src, infos: &[FrameInfo], faults: Faults) -> Vec<Chunk> {
    let n = infos.len();
    let mut order: Vec<usize> = (0..n).collect();
    if faults.reorder && n > 1 {
        match src.weighted(&[3, 3, 2, 1, 1]) {
            0 => {}
            1 => {
                // permute the fragments of each datagram among the positions they occupy
                let mut by: BTreeMap<usize, Vec<usize>> = BTreeMap::new();
                for (i, f) in infos.iter().enumerate() {
                    if let (Some(d), Some(_)) = (f.dgram, &f.frag) {
                        by.entry(d).or_default().push(i);
                    }
                }
                for (_, pos) in by {
                    let mut p = pos.clone();
                    shuffle(src, &mut p);
                    for (k, slot) in pos.iter().enumerate() {
                        order[*slot] = p[k];
                    }
                }
            }
            2 => shuffle(src, &mut order),
            3 => order.reverse(),
            _ => {
                // one adjacent swap
                let i = src.draw(n as u64 - 2) as usize;
                order.swap(i, i + 1);
            }
        }
    }
    if faults.dup {
        // never duplicate every fragment of a datagram: one fragment per datagram in this batch is protected
        let mut protected: BTreeMap<usize, usize> = BTreeMap::new();
        for (i, f) in infos.iter().enumerate() {
            if let (Some(d), Some(_)) = (f.dgram, &f.frag) {
                protected.entry(d).or_insert(i);
            }
        }
        let mut extra = vec![];
        for (i, f) in infos.iter().enumerate() {
            if let (Some(d), Some(_)) = (f.dgram, &f.frag) {
                if protected.get(&d) != Some(&i) && src.chance(1, 6) {
                    extra.push(i);
                }
            }
        }
        for e in extra {
            let at = src.draw(order.len() as u64) as usize;
            order.insert(at, e);
        }
    }
    let mut chunks: Vec<Chunk> = vec![];
    match src.weighted(&[3, 2, 2]) {
        0 => chunks.push(Chunk { gap_ms: 0, frames: order }),
        1 => {
            for i in order {
                chunks.push(Chunk { gap_ms: 0, frames: vec![i] });
            }
        }
        _ => {
            let mut cur = Chunk::default();
            for i in order {
                cur.frames.push(i);
                if src.chance(1, 3) {
                    chunks.push(std::mem::take(&mut cur));
                }
            }
            if !cur.frames.is_empty() {
                chunks.push(cur);
            }
        }
    }
    if faults.gaps {
        // at most three long pauses per batch, so that a script stays within its time horizon
        let mut long = 0;
        for c in chunks.iter_mut().skip(1) {
            let g = *src.pick(&[0i64, 0, 0, 0, 0, 0, 1, 1, 10, 1_000, 20_000, 59_999, 60_001, 61_000]);
            if g >= 1_000 {
                long += 1;
                if long > 3 {
                    continue;
                }
            }
            c.gap_ms = g;
        }
    }
    chunks
}

/// All deliveries of `n` fragments: a permutation plus at most one duplicated fragment
/// inserted at any position. `perm` in 0..n!, `dup` in 0..=n*(n+1) (0 = no duplicate).
pub fn explicit_sequence(n: usize, perm: u64, dup: u64) -> Vec<usize> {
    let mut items: Vec<usize> = (0..n).collect();
    let mut out = vec![];
    let mut p = perm;
    for k in (1..=n).rev() {
        let idx = (p % k as u64) as usize;
        p /= k as u64;
        out.push(items.remove(idx));
    }
    if dup > 0 && n > 0 {
        let v = (dup - 1) as usize;
        let d = v / (n + 1);
        let at = v % (n + 1);
        out.insert(at, d.min(n - 1));
    }
    out
}

pub fn factorial(n: usize) -> u64 {
    (1..=n as u64).product()
}
