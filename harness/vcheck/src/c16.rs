//! C16 - link-layer addressing: only to resolved next hops, discovery rate-limited.
//!
//! Part `ethernet`: a node on Ethernet (IPv4 + IPv6) with up to six sockets
//! (UDP, ICMP, one TCP connect) sending to more destinations than the
//! neighbour cache has slots, through on-link prefixes and a small route table
//! with expiring entries; a scripted environment answers (or not) the ARP
//! requests / neighbour solicitations, injects unsolicited, spoofed and invalid
//! claims, plain traffic, address and route changes and time steps across the
//! 1 s and 60 s boundaries.
//!
//! Part `ieee802154`: the same world and oracle on IEEE 802.15.4 / 6LoWPAN
//! (IPv6 only); c16_lowpan.rs holds an own 802.15.4 MAC header codec and an
//! RFC 6282 IPHC / UDP-NHC decoder so that every emitted frame can be mapped
//! to its IPv6 destination.
//!
//! Oracle: an invariant over the history (see DESIGN.md C16 and `prop()`).

use smoltcp::iface::{Route, SocketHandle};
use smoltcp::socket::{icmp, tcp, udp};
use smoltcp::time::Instant;
use smoltcp::wire::IpCidr;
use std::collections::VecDeque;
use vkit::indep::*;
use vkit::runner::{Fail, Part, Prop};
use vkit::sim::{ms, Hw, Node};
use vkit::{Ctx, Src};

#[path = "c16_lowpan.rs"]
mod lowpan;

pub const PAN: u16 = 0xabcd;
pub const LIFETIME_MS: i64 = 60_000;
pub const SILENT_MS: i64 = 1_000;
const ICMP_IDENT: u16 = 0x16c0;
const TCP_LPORT: u16 = 4000;

/// Development aid: `C16_ASSUME_KNOWN=prefix1,prefix2` makes the case continue past
/// failures whose key starts with one of the prefixes (as `ctx.report` does for
/// registered open findings), so that the search can be inspected behind them.
pub fn report(ctx: &mut Ctx, f: Fail) -> Result<(), Fail> {
    static ASSUME: std::sync::OnceLock<Vec<String>> = std::sync::OnceLock::new();
    let a = ASSUME.get_or_init(|| std::env::var("C16_ASSUME_KNOWN").map(|s| s.split(',').filter(|p| !p.is_empty()).map(|p| p.to_string()).collect()).unwrap_or_default());
    if !ctx.strict && a.iter().any(|p| f.key.starts_with(p.as_str())) {
        ctx.label(&format!("assumed-known:{}", f.key));
        return Ok(());
    }
    ctx.report(f)
}

/// A link-layer address: Ethernet (6 octets), IEEE 802.15.4 extended (8) or short (2).
#[derive(Clone, Copy, PartialEq, Eq, Debug)]
pub struct Mac {
    b: [u8; 8],
    n: u8,
}

impl Mac {
    pub fn new(a: &[u8]) -> Mac {
        assert!(a.len() == 6 || a.len() == 8 || a.len() == 2);
        let mut b = [0u8; 8];
        b[..a.len()].copy_from_slice(a);
        Mac { b, n: a.len() as u8 }
    }
    pub fn bytes(&self) -> &[u8] {
        &self.b[..self.n as usize]
    }
    pub fn e6(&self) -> [u8; 6] {
        assert!(self.n == 6);
        [self.b[0], self.b[1], self.b[2], self.b[3], self.b[4], self.b[5]]
    }
    /// Ethernet: I/G bit clear (this is also what smoltcp calls unicast); 802.15.4: anything
    /// but the short broadcast address 0xffff.
    pub fn unicast(&self) -> bool {
        match self.n {
            6 => self.b[0] & 1 == 0,
            2 => self.b[..2] != [0xff, 0xff],
            _ => true,
        }
    }
}

impl std::fmt::Display for Mac {
    fn fmt(&self, f: &mut std::fmt::Formatter<'_>) -> std::fmt::Result {
        let v: Vec<String> = self.bytes().iter().map(|x| format!("{:02x}", x)).collect();
        write!(f, "{}", v.join(":"))
    }
}

pub fn mac_s(m: &Mac) -> String {
    m.to_string()
}

pub fn mac_unicast(m: &Mac) -> bool {
    m.unicast()
}

/// The hardware address of the station that really owns `ip` in the simulated link.
fn mac_of(ip: &Ip, lowpan: bool) -> Mac {
    match ip {
        Ip::V4(a) => Mac::new(&[0x02, 0x04, a[0], a[1], a[2], a[3]]),
        Ip::V6(a) if !lowpan => Mac::new(&[0x02, 0x06, a[1], a[7], a[5] ^ a[14], a[15]]),
        // a few 802.15.4 stations use the address their link-local IID is derived from
        Ip::V6(a) if a[0] == 0xfe && a[15] % 2 == 1 => Mac::new(&[a[8] ^ 0x02, a[9], a[10], a[11], a[12], a[13], a[14], a[15]]),
        Ip::V6(a) => Mac::new(&[0x02, 0x06, a[1], a[7], a[5] ^ a[14], a[15], 0x15, 0x04]),
    }
}

fn spoof_mac(k: u8, lowpan: bool) -> Mac {
    if lowpan {
        Mac::new(&[0x02, 0xee, 0, 0, 0, k, 0x15, 0x04])
    } else {
        Mac::new(&[0x02, 0xee, 0, 0, 0, k])
    }
}

// ------------------------------------------------------------------ addressing model

#[derive(Clone, Copy, Debug, PartialEq, Eq)]
pub struct Cidr {
    pub addr: Ip,
    pub plen: u8,
}

pub fn prefix_match(a: &[u8], b: &[u8], plen: u8) -> bool {
    let full = (plen / 8) as usize;
    if a[..full] != b[..full] {
        return false;
    }
    let rem = plen % 8;
    if rem == 0 {
        return true;
    }
    let mask = 0xffu8 << (8 - rem);
    a[full] & mask == b[full] & mask
}

impl Cidr {
    pub fn contains(&self, ip: &Ip) -> bool {
        match (&self.addr, ip) {
            (Ip::V4(a), Ip::V4(b)) => prefix_match(a, b, self.plen),
            (Ip::V6(a), Ip::V6(b)) => prefix_match(a, b, self.plen),
            _ => false,
        }
    }
    /// directed broadcast address of an IPv4 prefix shorter than /31
    fn bcast(&self) -> Option<Ip> {
        match self.addr {
            Ip::V4(a) if self.plen <= 30 => {
                let mask = if self.plen == 0 { 0 } else { u32::MAX << (32 - self.plen as u32) };
                Some(Ip::V4((u32::from_be_bytes(a) | !mask).to_be_bytes()))
            }
            _ => None,
        }
    }
    fn smol(&self) -> IpCidr {
        IpCidr::new(self.addr.to_smol(), self.plen)
    }
}

impl std::fmt::Display for Cidr {
    fn fmt(&self, f: &mut std::fmt::Formatter<'_>) -> std::fmt::Result {
        write!(f, "{}/{}", self.addr, self.plen)
    }
}

#[derive(Clone, Copy, Debug)]
struct MRoute {
    net: Cidr,
    via: Ip,
    /// expiry in microseconds (always x.5 ms so that no poll lands on it)
    expires_us: Option<i64>,
}

fn ip4(a: u8, b: u8, c: u8, d: u8) -> Ip {
    Ip::V4([a, b, c, d])
}
fn ip6(s: [u16; 8]) -> Ip {
    Ip::v6(s)
}

fn v4_cidr_palette() -> Vec<Cidr> {
    vec![
        Cidr { addr: ip4(10, 0, 0, 1), plen: 24 },
        Cidr { addr: ip4(10, 0, 0, 1), plen: 16 },
        Cidr { addr: ip4(10, 0, 0, 1), plen: 25 },
        Cidr { addr: ip4(10, 0, 1, 1), plen: 24 },
        Cidr { addr: ip4(192, 168, 7, 2), plen: 30 },
    ]
}
fn v6_cidr_palette() -> Vec<Cidr> {
    vec![
        Cidr { addr: ip6([0xfd00, 0, 0, 0, 0, 0, 0, 1]), plen: 64 },
        Cidr { addr: ip6([0xfe80, 0, 0, 0, 0, 0, 0, 1]), plen: 64 },
        Cidr { addr: ip6([0xfd00, 0, 0, 1, 0, 0, 0, 1]), plen: 64 },
        Cidr { addr: ip6([0xfd00, 0, 0, 0, 0, 0, 0, 1]), plen: 48 },
    ]
}

/// unicast stations of the simulated world (destinations, claim subjects, traffic sources)
fn v4_hosts() -> Vec<Ip> {
    vec![
        ip4(10, 0, 0, 2),
        ip4(10, 0, 0, 3),
        ip4(10, 0, 0, 4),
        ip4(10, 0, 0, 5),
        ip4(10, 0, 0, 6),
        ip4(10, 0, 0, 7),
        ip4(10, 0, 0, 200),
        ip4(10, 0, 1, 5),
        ip4(192, 168, 7, 1),
        ip4(8, 8, 8, 8),
        ip4(172, 16, 5, 9),
        ip4(172, 16, 99, 1),
        ip4(10, 0, 0, 255),
    ]
}
fn v4_gateways() -> Vec<Ip> {
    vec![ip4(10, 0, 0, 254), ip4(10, 0, 0, 253), ip4(10, 0, 0, 252), ip4(10, 0, 1, 254)]
}
fn v6_hosts() -> Vec<Ip> {
    vec![
        ip6([0xfd00, 0, 0, 0, 0, 0, 0, 2]),
        ip6([0xfd00, 0, 0, 0, 0, 0, 0, 3]),
        ip6([0xfd00, 0, 0, 0, 0, 0, 0, 4]),
        ip6([0xfd00, 0, 0, 0, 0, 0, 0, 5]),
        ip6([0xfd00, 0, 0, 1, 0, 0, 0, 5]),
        ip6([0xfe80, 0, 0, 0, 0, 0, 0, 2]),
        ip6([0xfe80, 0, 0, 0, 0, 0, 0, 3]),
        ip6([0x2001, 0xdb8, 0, 0, 0, 0, 0, 1]),
        ip6([0x2001, 0xdb8, 0x99, 0, 0, 0, 0, 1]),
        ip6([0x2001, 0xdb8, 0x99, 1, 0, 0, 0, 1]),
    ]
}
fn v6_gateways() -> Vec<Ip> {
    vec![ip6([0xfe80, 0, 0, 0, 0, 0, 0, 0xfe]), ip6([0xfd00, 0, 0, 0, 0, 0, 0, 0xfe]), ip6([0xfd00, 0, 0, 0, 0, 0, 0, 0xfd])]
}
fn route_nets() -> Vec<Cidr> {
    vec![
        Cidr { addr: ip4(0, 0, 0, 0), plen: 0 },
        Cidr { addr: ip6([0; 8]), plen: 0 },
        Cidr { addr: ip4(172, 16, 0, 0), plen: 12 },
        Cidr { addr: ip4(172, 16, 99, 0), plen: 24 },
        Cidr { addr: ip6([0x2001, 0xdb8, 0x99, 0, 0, 0, 0, 0]), plen: 48 },
        Cidr { addr: ip6([0x2001, 0xdb8, 0x99, 1, 0, 0, 0, 0]), plen: 64 },
        Cidr { addr: ip4(10, 0, 1, 0), plen: 24 },
    ]
}

fn ip_unicast(ip: &Ip) -> bool {
    match ip {
        Ip::V4(a) => !(ip.is_multicast() || ip.is_unspecified() || *a == [255; 4]),
        Ip::V6(_) => !(ip.is_multicast() || ip.is_unspecified()),
    }
}

// ------------------------------------------------------------------ claims

#[derive(Clone, Debug)]
struct Claim {
    ip: Ip,
    mac: Mac,
    t: i64,
    seq: u64,
    /// kind of a valid claim / reason why the claim is not a legitimate one
    why: &'static str,
}

// ------------------------------------------------------------------ environment frames

#[derive(Clone, Debug)]
enum Spec {
    Arp { eth_src: Mac, eth_dst: Mac, op: u16, sha: [u8; 6], spa: [u8; 4], tha: [u8; 6], tpa: [u8; 4] },
    Nd { eth_src: Mac, eth_dst: Mac, src: [u8; 16], dst: [u8; 16], hop: u8, na: bool, target: [u8; 16], flags: u8, ll: Option<Mac> },
    /// kind: 0 UDP to an open port, 1 UDP to a closed port, 2 echo request, 3 TCP SYN to a closed port
    Traffic { eth_src: Mac, eth_dst: Mac, src: Ip, dst: Ip, kind: u8 },
}

impl Spec {
    fn describe(&self) -> String {
        match self {
            Spec::Arp { eth_src, eth_dst, op, sha, spa, tha, tpa } => format!(
                "ARP {} sha={} spa={} tha={} tpa={} (eth {} -> {})",
                match op {
                    1 => "request".to_string(),
                    2 => "reply".to_string(),
                    o => format!("op{}", o),
                },
                Mac::new(sha),
                Ip::V4(*spa),
                Mac::new(tha),
                Ip::V4(*tpa),
                mac_s(eth_src),
                mac_s(eth_dst)
            ),
            Spec::Nd { eth_src, eth_dst, src, dst, hop, na, target, flags, ll } => format!(
                "{} {} -> {} hop={} target={} flags={:#04x} lladdr={} (eth {} -> {})",
                if *na { "NA" } else { "NS" },
                Ip::V6(*src),
                Ip::V6(*dst),
                hop,
                Ip::V6(*target),
                flags,
                ll.map(|l| mac_s(&l)).unwrap_or_else(|| "-".into()),
                mac_s(eth_src),
                mac_s(eth_dst)
            ),
            Spec::Traffic { eth_src, eth_dst, src, dst, kind } => format!(
                "{} {} -> {} (eth {} -> {})",
                ["UDP to open port", "UDP to closed port", "echo request", "TCP SYN to closed port"][*kind as usize],
                src,
                dst,
                mac_s(eth_src),
                mac_s(eth_dst)
            ),
        }
    }

    fn encode(&self, lowpan: bool, seq: u8) -> Vec<u8> {
        let wrap = |l2_src: &Mac, l2_dst: &Mac, pkt: IpPkt| -> Vec<u8> {
            if lowpan {
                let IpPkt::V6(p) = pkt else { panic!("IPv4 on 802.15.4") };
                lowpan::encode_154(seq, PAN, l2_dst.bytes(), l2_src.bytes(), &lowpan::encode_iphc_plain(&p))
            } else {
                let v6 = matches!(pkt, IpPkt::V6(_));
                Eth { dst: l2_dst.e6(), src: l2_src.e6(), ethertype: if v6 { ETH_IPV6 } else { ETH_IPV4 }, payload: pkt.encode() }.encode()
            }
        };
        match self {
            Spec::Arp { eth_src, eth_dst, op, sha, spa, tha, tpa } => Eth {
                dst: eth_dst.e6(),
                src: eth_src.e6(),
                ethertype: ETH_ARP,
                payload: Arp { op: *op, sha: *sha, spa: *spa, tha: *tha, tpa: *tpa }.encode(),
            }
            .encode(),
            Spec::Nd { eth_src, eth_dst, src, dst, hop, na, target, flags, ll } => {
                let icmp = if *na { nd_na(target, *flags, ll.as_ref().map(|l| l.bytes())) } else { nd_ns(target, ll.as_ref().map(|l| l.bytes())) };
                let body = icmp.encode6(&Ip::V6(*src), &Ip::V6(*dst));
                let mut p = Ip6::new(*src, *dst, PROTO_ICMPV6, body);
                p.hop = *hop;
                wrap(eth_src, eth_dst, IpPkt::V6(p))
            }
            Spec::Traffic { eth_src, eth_dst, src, dst, kind } => {
                let v6 = !src.is_v4();
                let (proto, body) = match kind {
                    0 => (PROTO_UDP, Udp::new(5555, 1000, b"hello".to_vec()).encode(src, dst)),
                    1 => (PROTO_UDP, Udp::new(5555, 9, b"hello".to_vec()).encode(src, dst)),
                    2 => {
                        let e = Icmp::echo(v6, true, 7, 1, b"ping".to_vec());
                        if v6 {
                            (PROTO_ICMPV6, e.encode6(src, dst))
                        } else {
                            (PROTO_ICMP, e.encode4())
                        }
                    }
                    _ => (PROTO_TCP, Tcp::new(5555, 9, 1000, None, SYN, 1000).encode(src, dst)),
                };
                wrap(eth_src, eth_dst, IpPkt::build(*src, *dst, proto, 64, body))
            }
        }
    }
}

// ------------------------------------------------------------------ the world

#[derive(Clone, Copy, PartialEq, Eq, Debug)]
enum Kind {
    Udp,
    Icmp,
    Tcp,
}

struct SockModel {
    kind: Kind,
    handle: SocketHandle,
    port: u16,
    /// accepted and not yet seen on the wire, in FIFO order
    queue: VecDeque<(u32, Ip)>,
}

#[derive(Default)]
struct Stats {
    unicast_checked: u64,
    discoveries: u64,
    next_hops_used: Vec<Ip>,
    t_first: i64,
}

struct World {
    node: Node,
    /// IEEE 802.15.4 / 6LoWPAN instead of Ethernet
    lowpan: bool,
    our_mac: Mac,
    inject_seq: u8,
    now: i64,
    seq: u64,
    flush_seq: u64,
    cidrs: Vec<Cidr>,
    routes: Vec<MRoute>,
    valid: Vec<Claim>,
    weak: Vec<Claim>,
    last_disc: Option<(i64, String)>,
    socks: Vec<SockModel>,
    /// remote of the TCP connect (kept for ever: it may legitimately trigger discovery)
    tcp_remote: Option<Ip>,
    tcp_local: Option<Ip>,
    /// the socket is (still) expected to get its SYN out
    tcp_alive: bool,
    syn_seen: bool,
    next_id: u32,
    seen_ids: Vec<u32>,
    agenda: Vec<(i64, Spec)>,
    reply_dsts: Vec<Ip>,
    tail: bool,
    tail_unanswerable: u64,
    /// transmit budget of the device per poll (None = unlimited)
    budget: Option<usize>,
    stats: Stats,
}

impl World {
    fn on_link(&self, ip: &Ip) -> bool {
        self.cidrs.iter().any(|c| c.contains(ip))
    }
    fn ours(&self, ip: &Ip) -> bool {
        self.cidrs.iter().any(|c| c.addr == *ip)
    }
    fn is_bcast(&self, ip: &Ip) -> bool {
        match ip {
            Ip::V4(a) => *a == [255; 4] || self.cidrs.iter().any(|c| c.bcast() == Some(*ip)),
            Ip::V6(_) => false,
        }
    }
    fn route_live(&self, r: &MRoute) -> bool {
        match r.expires_us {
            Some(e) => self.now * 1000 <= e,
            None => true,
        }
    }
    /// Next hop of a unicast destination: itself if on-link, otherwise the gateway of the
    /// longest-prefix unexpired matching route.
    fn next_hop(&self, dst: &Ip) -> Option<Ip> {
        if self.on_link(dst) {
            return Some(*dst);
        }
        let mut best: Option<&MRoute> = None;
        for r in &self.routes {
            if self.route_live(r) && r.net.contains(dst) && best.map_or(true, |b| r.net.plen > b.net.plen) {
                best = Some(r);
            }
        }
        best.map(|r| r.via)
    }
    fn learned(&self, ip: &Ip) -> Vec<Mac> {
        let mut v = vec![];
        for c in &self.valid {
            if c.ip == *ip && c.seq > self.flush_seq && self.now - c.t < LIFETIME_MS && !v.contains(&c.mac) {
                v.push(c.mac);
            }
        }
        v
    }
    /// Strict reading of "confirmed by traffic": a confirmation only extends a mapping that is
    /// still alive when the traffic arrives (used for a label only, see the judgement calls).
    fn strictly_alive(&self, ip: &Ip, mac: &Mac) -> bool {
        let mut until: Option<i64> = None;
        for c in self.valid.iter().filter(|c| c.ip == *ip && c.mac == *mac && c.seq > self.flush_seq) {
            if c.why != "traffic-confirmation" || until.map_or(false, |u| c.t < u) {
                until = Some(until.unwrap_or(i64::MIN).max(c.t + LIFETIME_MS));
            }
        }
        until.map_or(false, |u| self.now < u)
    }
    fn ever_claimed(&self, ip: &Ip, mac: &Mac) -> bool {
        self.valid.iter().any(|c| c.ip == *ip && c.mac == *mac && c.seq > self.flush_seq)
    }

    // -------------------------------------------------------------- classification of injected frames

    /// The (ip, mac) associations the frame asserts, each either legitimate
    /// (Ok(kind)) or not (Err(reason)), judged against the state at delivery.
    fn classify(&self, spec: &Spec) -> Vec<(Ip, Mac, Result<&'static str, &'static str>)> {
        let mut out = vec![];
        // (802.15.4: destination filtering is the radio's job; such frames are not generated)
        let l2_for_us = |d: &Mac| self.lowpan || *d == self.our_mac || !d.unicast();
        match spec {
            Spec::Arp { eth_dst, op, sha, spa, tpa, .. } => {
                let ip = Ip::V4(*spa);
                let verdict = if !l2_for_us(eth_dst) {
                    Err("frame-not-addressed-to-us")
                } else if *op != 1 && *op != 2 {
                    Err("arp-unknown-operation")
                } else if !Mac::new(sha).unicast() {
                    Err("arp-non-unicast-sender-hardware-address")
                } else if !ip_unicast(&ip) {
                    Err("arp-non-unicast-sender-address")
                } else if !self.on_link(&ip) {
                    Err("arp-off-link-sender")
                } else if !self.ours(&Ip::V4(*tpa)) && self.learned(&ip).is_empty() {
                    // RFC 826: a packet not aimed at us may update an existing entry, never create one
                    Err("arp-not-for-us-and-no-entry")
                } else {
                    Ok("arp")
                };
                out.push((ip, Mac::new(sha), verdict));
            }
            Spec::Nd { eth_src, eth_dst, src, dst, hop, na, target, ll, .. } => {
                let s = Ip::V6(*src);
                let d = Ip::V6(*dst);
                let tgt = Ip::V6(*target);
                let delivered = l2_for_us(eth_dst) && ip_unicast(&s) && (self.ours(&d) || *dst == ALL_NODES || self.cidrs.iter().any(|c| matches!(c.addr, Ip::V6(a) if solicited_node(&a) == *dst)));
                if let Some(l) = ll {
                    let base: Result<&'static str, &'static str> = if !l2_for_us(eth_dst) {
                        Err("frame-not-addressed-to-us")
                    } else if !ip_unicast(&s) {
                        Err("ndisc-non-unicast-source")
                    } else if !delivered {
                        // (a unicast destination that merely shares its low 16 bits with one of our
                        // addresses is not ours either; named separately because smoltcp's
                        // has_solicited_node() accepts it)
                        if dst[0] != 0xff && self.cidrs.iter().any(|c| matches!(c.addr, Ip::V6(a) if a[14..] == dst[14..])) {
                            Err("packet-not-addressed-to-us:low-16-bits-match-own-address")
                        } else {
                            Err("packet-not-addressed-to-us")
                        }
                    } else if *hop != 255 {
                        Err("ndisc-hop-limit-not-255")
                    } else if l.bytes().len() != if self.lowpan { 8 } else { 6 } {
                        Err("ndisc-lladdr-of-wrong-length")
                    } else if !mac_unicast(l) {
                        Err("ndisc-non-unicast-lladdr")
                    } else if !ip_unicast(&tgt) {
                        Err("ndisc-non-unicast-target")
                    } else {
                        Ok("ndisc")
                    };
                    if *na {
                        // RFC 4861 7.2.5: the advertisement is about its Target Address
                        out.push((tgt, *l, base.map(|_| "na")));
                        if s != tgt {
                            // smoltcp records the option for the advertisement's IP source (pinned
                            // by its unit tests ndisc_neighbor_advertisement_*). The statement only
                            // asks for addresses "learned" from validated NDISC, so a valid NA is
                            // accepted as a claim for its source as well (lead's judgement: flagging
                            // it would demand RFC 4861 7.2.5 semantics the statement does not name).
                            out.push((s, *l, base.map(|_| "na-about-another-target")));
                        }
                    } else {
                        // RFC 4861 7.2.3: a solicitation for an address that is not ours MUST be discarded
                        let v = match base {
                            Ok(_) if !self.ours(&tgt) => Err("ns-target-not-ours"),
                            Ok(_) => Ok("ns"),
                            Err(e) => Err(e),
                        };
                        out.push((s, *l, v));
                    }
                }
                // the packet itself is IPv6 traffic from (src, eth_src)
                if delivered && self.ours(&d) {
                    let c = self.confirmation(&s, eth_src);
                    if c != Err("plain-traffic") || !out.iter().any(|(i, m, _)| *i == s && m == eth_src) {
                        out.push((s, *eth_src, c));
                    }
                }
            }
            Spec::Traffic { eth_src, eth_dst, src, dst, .. } => {
                if !l2_for_us(eth_dst) {
                    out.push((*src, *eth_src, Err("frame-not-addressed-to-us")));
                } else if !ip_unicast(src) || (src.is_v4() && self.is_bcast(src)) {
                    out.push((*src, *eth_src, Err("traffic-from-non-unicast-source")));
                } else if !self.ours(dst) {
                    out.push((*src, *eth_src, Err("traffic-not-to-our-unicast-address")));
                } else {
                    out.push((*src, *eth_src, self.confirmation(src, eth_src)));
                }
            }
        }
        out
    }

    /// Unicast traffic from (ip, mac) confirms a mapping that was legitimately
    /// claimed before (since the last flush); it never creates one.
    fn confirmation(&self, ip: &Ip, mac: &Mac) -> Result<&'static str, &'static str> {
        if self.ever_claimed(ip, mac) {
            Ok("traffic-confirmation")
        } else if let Some(r) = self.weak_reason(ip, mac) {
            Err(r)
        } else {
            Err("plain-traffic")
        }
    }

    /// The most telling reason among the illegitimate claims of (ip, mac) since the last flush:
    /// reasons smoltcp is known to act on come first so that one root cause keeps one key.
    fn weak_reason(&self, ip: &Ip, mac: &Mac) -> Option<&'static str> {
        let w: Vec<&Claim> = self.weak.iter().rev().filter(|c| c.ip == *ip && c.mac == *mac && c.seq > self.flush_seq).collect();
        if let Some(r) = ACTED_ON.iter().find(|r| w.iter().any(|c| c.why == **r)) {
            return Some(r);
        }
        if let Some(c) = w.iter().find(|c| c.why != "plain-traffic") {
            return Some(c.why);
        }
        w.first().map(|c| c.why)
    }

    fn inject(&mut self, spec: &Spec, src: &mut Src, ctx: &mut Ctx) -> Result<(), Fail> {
        self.stage(spec, ctx);
        self.poll(src, ctx)
    }

    /// Judge the frame against the current state, record what it asserts and queue it for the next poll.
    fn stage(&mut self, spec: &Spec, ctx: &mut Ctx) {
        let claims = self.classify(spec);
        ctx.note(|| {
            let mut s = format!("t={} env: {}", self.now, spec.describe());
            for (ip, mac, v) in &claims {
                s.push_str(&format!(
                    "\n        asserts {} is at {}: {}",
                    ip,
                    mac_s(mac),
                    match v {
                        Ok(k) => format!("legitimate ({})", k),
                        Err(r) => format!("NOT legitimate ({})", r),
                    }
                ));
            }
            s
        });
        self.seq += 1;
        for (ip, mac, v) in claims {
            let c = Claim { ip, mac, t: self.now, seq: self.seq, why: v.unwrap_or_else(|e| e) };
            if v.is_ok() {
                if !self.learned(&ip).is_empty() && !self.learned(&ip).contains(&mac) {
                    ctx.label("claim:second-hardware-address-for-neighbour");
                }
                self.valid.push(c);
            } else {
                ctx.label(&format!("spoof:{}", c.why));
                self.weak.push(c);
            }
        }
        match spec {
            Spec::Nd { src: s, .. } => self.reply_dsts.push(Ip::V6(*s)),
            Spec::Traffic { src: s, .. } => self.reply_dsts.push(*s),
            Spec::Arp { .. } => {}
        }
        self.inject_seq = self.inject_seq.wrapping_add(1);
        self.node.inject(spec.encode(self.lowpan, self.inject_seq));
    }

    // -------------------------------------------------------------- polling and checking

    fn poll(&mut self, src: &mut Src, ctx: &mut Ctx) -> Result<(), Fail> {
        let frames = self.node.poll(ms(self.now), self.budget);
        for f in &frames {
            self.check_frame(f, src, ctx)?;
        }
        self.reply_dsts.clear();
        Ok(())
    }

    /// poll, then deliver every scheduled environment frame that is due (each followed by a poll)
    fn settle(&mut self, src: &mut Src, ctx: &mut Ctx) -> Result<(), Fail> {
        self.poll(src, ctx)?;
        let mut guard = 0;
        loop {
            let mut idx = None;
            for (i, (due, _)) in self.agenda.iter().enumerate() {
                if *due <= self.now && idx.map_or(true, |j: usize| *due < self.agenda[j].0) {
                    idx = Some(i);
                }
            }
            let Some(i) = idx else { break };
            let (_, spec) = self.agenda.remove(i);
            self.inject(&spec, src, ctx)?;
            guard += 1;
            assert!(guard < 10_000, "agenda does not drain");
        }
        Ok(())
    }

    fn pending_dsts(&self) -> Vec<Ip> {
        let mut v: Vec<Ip> = self.reply_dsts.clone();
        for s in &self.socks {
            for (_, d) in &s.queue {
                v.push(*d);
            }
        }
        if let Some(r) = self.tcp_remote {
            v.push(r);
        }
        v
    }

    fn check_discovery(&mut self, what: String, target: Ip, reply_to: Ip, src: &mut Src, ctx: &mut Ctx) -> Result<(), Fail> {
        self.stats.discoveries += 1;
        ctx.count("discovery_frames", 1);
        // ---- rate: one limiter for all neighbours (Cache::silent_until), so consecutive
        // discovery frames of any kind are at least one second apart
        if let Some((t0, prev)) = &self.last_disc {
            if self.now - *t0 < SILENT_MS {
                report(ctx, Fail::new(
                    "discovery-rate",
                    format!("{} emitted at t={} ms only {} ms after the previous discovery frame ({} at t={} ms); at most one per second is allowed", what, self.now, self.now - t0, prev, t0),
                ))?;
            } else if self.now - *t0 == SILENT_MS {
                ctx.label("discovery:exactly-1s-after-previous");
            }
        }
        self.last_disc = Some((self.now, what.clone()));
        // ---- target: the next hop of something we want to send
        let pend = self.pending_dsts();
        let wanted = pend.iter().any(|d| ip_unicast(d) && !self.is_bcast(d) && self.next_hop(d) == Some(target));
        if !wanted {
            report(ctx, Fail::new(
                "discovery-target-not-a-next-hop",
                format!(
                    "{} at t={} ms but {} is not the next hop of any queued packet or pending reply (destinations waiting: {})",
                    what,
                    self.now,
                    target,
                    pend.iter().map(|d| format!("{} via {:?}", d, self.next_hop(d).map(|n| n.to_string()))).collect::<Vec<_>>().join(", ")
                ),
            ))?;
        }
        // ---- labels: why was the address unknown?
        let had_post: Vec<&Claim> = self.valid.iter().filter(|c| c.ip == target && c.seq > self.flush_seq).collect();
        let had_pre = self.valid.iter().any(|c| c.ip == target && c.seq <= self.flush_seq && self.now - c.t < LIFETIME_MS);
        if !self.learned(&target).is_empty() {
            if self.distinct_learned() > smoltcp::config::IFACE_NEIGHBOR_CACHE_COUNT {
                ctx.label("eviction");
            }
        } else if !had_post.is_empty() {
            ctx.label("expiry");
            if had_post.iter().map(|c| self.now - c.t).min() == Some(LIFETIME_MS) {
                ctx.label("expiry:rediscovered-at-exactly-60000ms");
            }
        } else if had_pre {
            ctx.label("address change:flushed-entry-rediscovered");
        }
        if self.weak.iter().any(|c| c.ip == target && c.seq > self.flush_seq && self.now - c.t < LIFETIME_MS) {
            ctx.label("spoof ignored");
        }
        // ---- the environment decides what happens to this request
        let v6 = !target.is_v4();
        let answer = if v6 {
            let (Ip::V6(t), Ip::V6(r)) = (target, reply_to) else { unreachable!() };
            let m = mac_of(&target, self.lowpan);
            Spec::Nd { eth_src: m, eth_dst: self.our_mac, src: t, dst: r, hop: 255, na: true, target: t, flags: 0x60, ll: Some(m) }
        } else {
            let (Ip::V4(t), Ip::V4(r)) = (target, reply_to) else { unreachable!() };
            let m = mac_of(&target, false);
            Spec::Arp { eth_src: m, eth_dst: self.our_mac, op: 2, sha: m.e6(), spa: t, tha: self.our_mac.e6(), tpa: r }
        };
        if self.tail {
            if !v6 && !self.on_link(&target) {
                self.tail_unanswerable += 1;
            }
            self.agenda.push((self.now, answer));
            return Ok(());
        }
        match src.weighted(&[5, 3, 2]) {
            0 => {
                ctx.note(|| "        -> will be answered at once".to_string());
                self.agenda.push((self.now, answer));
            }
            1 => {
                let d = *src.pick(&[100i64, 500, 999, 1000, 1001, 1500, 3000, 5000]);
                ctx.note(|| format!("        -> will be answered after {} ms", d));
                ctx.label("answer:late");
                self.agenda.push((self.now + d, answer));
            }
            _ => {
                ctx.note(|| "        -> never answered".to_string());
                ctx.label("answer:never");
            }
        }
        Ok(())
    }

    fn distinct_learned(&self) -> usize {
        let mut ips: Vec<Ip> = vec![];
        for c in &self.valid {
            if c.seq > self.flush_seq && self.now - c.t < LIFETIME_MS && !ips.contains(&c.ip) {
                ips.push(c.ip);
            }
        }
        ips.len()
    }

    fn check_frame(&mut self, frame: &[u8], src: &mut Src, ctx: &mut Ctx) -> Result<(), Fail> {
        let undecodable = |now: i64, e: String| Fail::new("emitted-frame-undecodable", format!("t={} ms: {}", now, e));
        ctx.count("frames_out", 1);
        let (l2_dst, pkt): (Mac, IpPkt) = if self.lowpan {
            let mac = lowpan::decode_154(frame).map_err(|e| undecodable(self.now, e))?;
            if mac.frame_type != 1 {
                return Err(undecodable(self.now, format!("802.15.4 frame type {}", mac.frame_type)));
            }
            let (Some(d), Some(s)) = (mac.dst.clone(), mac.src.clone()) else {
                return Err(undecodable(self.now, "802.15.4 data frame without both addresses".into()));
            };
            if mac.dst_pan != Some(PAN) {
                return Err(undecodable(self.now, format!("802.15.4 destination PAN {:?}", mac.dst_pan)));
            }
            let l2_dst = Mac::new(&d);
            match lowpan::decode_lowpan(&mac.payload, &s, &d).map_err(|e| undecodable(self.now, e))? {
                lowpan::Lowpan::FragN => {
                    // continuation of a fragmented datagram: no IP header to judge
                    ctx.label("lowpan:fragN");
                    ctx.note(|| format!("t={} out: 6LoWPAN FRAGN -> 802.15.4 {}", self.now, l2_dst));
                    return Ok(());
                }
                lowpan::Lowpan::Packet { ip, first_fragment } => {
                    if first_fragment {
                        ctx.label("lowpan:frag1");
                    }
                    (l2_dst, IpPkt::V6(ip))
                }
            }
        } else {
            let eth = decode_eth(frame).map_err(|e| undecodable(self.now, e))?;
            if eth.ethertype == ETH_ARP {
                let arp = decode_arp(&eth.payload).map_err(|e| undecodable(self.now, e))?;
                ctx.note(|| format!("t={} out: ARP {} sha={} spa={} tha={} tpa={} -> eth {}", self.now, if arp.op == 1 { "request" } else { "reply" }, Mac::new(&arp.sha), Ip::V4(arp.spa), Mac::new(&arp.tha), Ip::V4(arp.tpa), Mac::new(&eth.dst)));
                if arp.op == 1 {
                    return self.check_discovery(format!("ARP request for {}", Ip::V4(arp.tpa)), Ip::V4(arp.tpa), Ip::V4(arp.spa), src, ctx);
                }
                return Ok(());
            }
            if eth.ethertype != ETH_IPV4 && eth.ethertype != ETH_IPV6 {
                return Err(undecodable(self.now, format!("ethertype {:#06x}", eth.ethertype)));
            }
            (Mac::new(&eth.dst), decode_ip(&eth.payload, true).map_err(|e| undecodable(self.now, e))?)
        };
        let dst = pkt.dst();
        ctx.note(|| format!("t={} out: {} -> {} proto {} len {} -> L2 {}", self.now, pkt.src(), dst, pkt.proto(), pkt.payload().len(), l2_dst));
        self.track_socket_data(&pkt, ctx)?;

        // neighbour solicitation = discovery frame
        if pkt.proto() == PROTO_ICMPV6 && pkt.payload().len() >= 24 && pkt.payload()[0] == ND_NS {
            let mut t = [0u8; 16];
            t.copy_from_slice(&pkt.payload()[8..24]);
            self.check_discovery(format!("neighbour solicitation for {}", Ip::V6(t)), Ip::V6(t), pkt.src(), src, ctx)?;
        }

        if dst.is_multicast() {
            ctx.label("dst:multicast");
            return Ok(());
        }
        if self.is_bcast(&dst) {
            ctx.label("dst:broadcast");
            return Ok(());
        }
        if !ip_unicast(&dst) {
            return Ok(());
        }
        // ---- the statement: unicast IP packet => L2 destination is the learned address of the next hop
        let Some(nh) = self.next_hop(&dst) else {
            let expired: Vec<String> = self.routes.iter().filter(|r| !self.route_live(r) && r.net.contains(&dst)).map(|r| format!("{} via {}", r.net, r.via)).collect();
            return report(ctx, Fail::new(
                if expired.is_empty() { "sent-without-route" } else { "sent-via-expired-route" },
                format!(
                    "t={} ms: packet for {} was transmitted (to {}) although the destination is neither on-link ({}) nor covered by an unexpired route{}",
                    self.now,
                    dst,
                    l2_dst,
                    self.cidrs.iter().map(|c| c.to_string()).collect::<Vec<_>>().join(", "),
                    if expired.is_empty() { String::new() } else { format!(" (expired: {})", expired.join(", ")) }
                ),
            ));
        };
        let learned = self.learned(&nh);
        if l2_dst.unicast() && learned.contains(&l2_dst) {
            self.stats.unicast_checked += 1;
            ctx.count("unicast_frames_checked", 1);
            if !self.stats.next_hops_used.contains(&nh) {
                self.stats.next_hops_used.push(nh);
            }
            if nh != dst {
                ctx.label("nexthop:gateway");
                if self.routes.iter().filter(|r| self.route_live(r) && r.net.contains(&dst)).count() > 1 {
                    ctx.label("nexthop:more-specific-route-chosen");
                }
                if self.routes.iter().any(|r| !self.route_live(r) && r.net.contains(&dst)) {
                    ctx.label("route expired");
                }
            } else {
                ctx.label("nexthop:on-link");
            }
            if learned.len() > 1 {
                ctx.label("nexthop:two-legitimate-addresses");
            }
            if !self.strictly_alive(&nh, &l2_dst) {
                // smoltcp's reset_expiry_if_existing() also revives an entry that had already expired
                ctx.label("expired-entry-revived-by-traffic");
                // C16_STRICT_CONFIRM=1 adopts the strict reading of the statement's last clause
                static STRICT: std::sync::OnceLock<bool> = std::sync::OnceLock::new();
                if *STRICT.get_or_init(|| std::env::var("C16_STRICT_CONFIRM").is_ok()) {
                    report(
                        ctx,
                        Fail::new(
                            "l2dst:expired-entry-revived-by-traffic",
                            format!(
                                "t={} ms: packet for {} (next hop {}) was transmitted to {} although every ARP/NDISC claim of that address is older than 60 s and the unicast traffic that 'confirmed' it arrived only after the mapping had expired",
                                self.now, dst, nh, l2_dst
                            ),
                        ),
                    )?;
                }
            }
            let freshest = self.valid.iter().filter(|c| c.ip == nh && c.mac == l2_dst && c.seq > self.flush_seq).map(|c| self.now - c.t).min().unwrap_or(0);
            if freshest == LIFETIME_MS - 1 {
                ctx.label("age:used-at-59999ms");
            } else if freshest >= LIFETIME_MS - 1000 {
                ctx.label("age:used-in-last-second-of-lifetime");
            }
            if self.weak.iter().any(|c| c.ip == nh && c.mac != l2_dst && c.seq > self.flush_seq && self.now - c.t < LIFETIME_MS) {
                ctx.label("spoof ignored");
            }
            if self.valid.iter().any(|c| c.ip == nh && c.mac == l2_dst && c.seq > self.flush_seq && self.now - c.t < LIFETIME_MS && c.why == "traffic-confirmation")
                && !self.valid.iter().any(|c| c.ip == nh && c.mac == l2_dst && c.seq > self.flush_seq && self.now - c.t < LIFETIME_MS && c.why != "traffic-confirmation")
            {
                ctx.label("kept-alive-by-traffic-only");
            }
            return Ok(());
        }
        // ---- violation: find the most precise root cause
        let m = l2_dst;
        let recent = |c: &&Claim| self.now - c.t < LIFETIME_MS;
        // reasons smoltcp is known to act on come first so that one root cause keeps one key
        let weak_recent: Vec<&Claim> = self.weak.iter().rev().filter(recent).filter(|c| c.ip == nh && c.mac == m && c.seq > self.flush_seq).collect();
        let key: String = if !mac_unicast(&m) {
            "l2dst:not-unicast".into()
        } else if let Some(r) = ACTED_ON.iter().find(|r| weak_recent.iter().any(|c| c.why == **r)) {
            format!("l2dst:learned-from:{}", r)
        } else if self.valid.iter().any(|c| c.ip == nh && c.mac == m && c.seq > self.flush_seq) {
            "l2dst:expired-entry-used".into()
        } else if self.valid.iter().filter(recent).any(|c| c.ip == nh && c.mac == m) {
            "l2dst:stale-after-address-change".into()
        } else if let Some(w) = weak_recent.iter().find(|c| c.why != "plain-traffic") {
            format!("l2dst:learned-from:{}", w.why)
        } else if let Some(w) = weak_recent.first() {
            format!("l2dst:learned-from:{}", w.why)
        } else if let Some(w) = self.weak.iter().rev().find(|c| c.ip == nh && c.mac == m) {
            format!("l2dst:learned-from:{}", w.why)
        } else if let Some(o) = self.valid.iter().rev().find(|c| c.mac == m && c.seq > self.flush_seq) {
            if self.routes.iter().any(|r| r.via == o.ip && r.net.contains(&dst)) {
                "l2dst:wrong-route".into()
            } else {
                "l2dst:other-neighbours-address".into()
            }
        } else {
            "l2dst:never-claimed".into()
        };
        let hist: Vec<String> = self
            .valid
            .iter()
            .map(|c| (c, true))
            .chain(self.weak.iter().map(|c| (c, false)))
            .filter(|(c, _)| c.ip == nh || c.mac == m)
            .map(|(c, ok)| format!("t={} {} at {} [{}{}{}]", c.t, c.ip, mac_s(&c.mac), if ok { "legitimate: " } else { "not legitimate: " }, c.why, if c.seq <= self.flush_seq { ", before the last address change" } else { "" }))
            .collect();
        report(ctx, Fail::new(
            key,
            format!(
                "t={} ms: packet for {} (next hop {}) was transmitted to {} but the hardware addresses legitimately learned for {} in the last 60 s since the last address change are {{{}}}; relevant claims: {}",
                self.now,
                dst,
                nh,
                mac_s(&m),
                nh,
                learned.iter().map(|x| x.to_string()).collect::<Vec<_>>().join(", "),
                if hist.is_empty() { "none".to_string() } else { hist.join("; ") }
            ),
        ))
    }

    /// "socket data stays queued rather than being lost": every accepted datagram leaves its
    /// socket in FIFO order, exactly once, and only by being transmitted.
    fn track_socket_data(&mut self, pkt: &IpPkt, ctx: &mut Ctx) -> Result<(), Fail> {
        let p = pkt.payload();
        let mut hit: Option<(usize, u32)> = None;
        if pkt.proto() == PROTO_UDP && p.len() >= 16 && &p[8..11] == b"C16" {
            let sport = u16::from_be_bytes([p[0], p[1]]);
            if let Some(i) = self.socks.iter().position(|s| s.kind == Kind::Udp && s.port == sport) {
                hit = Some((i, u32::from_be_bytes([p[12], p[13], p[14], p[15]])));
            }
        } else if (pkt.proto() == PROTO_ICMP && p.len() >= 12 && p[0] == 8 || pkt.proto() == PROTO_ICMPV6 && p.len() >= 12 && p[0] == 128) && u16::from_be_bytes([p[4], p[5]]) == ICMP_IDENT {
            if let Some(i) = self.socks.iter().position(|s| s.kind == Kind::Icmp) {
                hit = Some((i, u32::from_be_bytes([p[8], p[9], p[10], p[11]])));
            }
        } else if pkt.proto() == PROTO_TCP && p.len() >= 20 && u16::from_be_bytes([p[0], p[1]]) == TCP_LPORT && p[13] & SYN != 0 {
            self.syn_seen = true;
            ctx.label("tcp:syn-on-wire");
        }
        let Some((i, id)) = hit else { return Ok(()) };
        let now = self.now;
        let q = &mut self.socks[i].queue;
        match q.iter().position(|e| e.0 == id) {
            Some(0) => {
                let (_, d) = q.pop_front().unwrap();
                if d != pkt.dst() {
                    return Err(Fail::new("datagram-wrong-destination", format!("t={} ms: datagram #{} queued for {} was transmitted to {}", now, id, d, pkt.dst())));
                }
                self.seen_ids.push(id);
                ctx.count("datagrams_on_wire", 1);
            }
            Some(k) => {
                let skipped: Vec<String> = q.iter().take(k).map(|e| format!("#{} for {}", e.0, e.1)).collect();
                return report(ctx, Fail::new(
                    "datagram-lost",
                    format!("t={} ms: datagram #{} left socket {} although {} earlier datagram(s) of the same socket never appeared on the wire: {}", now, id, i, k, skipped.join(", ")),
                ));
            }
            None => {
                if self.seen_ids.contains(&id) {
                    return report(ctx, Fail::new("datagram-duplicated", format!("t={} ms: datagram #{} of socket {} appeared on the wire a second time", now, id, i)));
                }
                return Err(Fail::new("datagram-never-accepted", format!("t={} ms: datagram #{} of socket {} on the wire was never accepted by send()", now, id, i)));
            }
        }
        Ok(())
    }

    // -------------------------------------------------------------- configuration changes

    fn apply_addrs(&mut self, cidrs: Vec<Cidr>) {
        let sm: Vec<IpCidr> = cidrs.iter().map(|c| c.smol()).collect();
        self.node.iface.update_ip_addrs(|a| {
            a.clear();
            for c in &sm {
                a.push(*c).expect("address table");
            }
        });
        self.cidrs = cidrs;
        self.flush_seq = self.seq;
        // tcp::Socket::dispatch resets a socket whose local address left the interface
        if let Some(l) = self.tcp_local {
            if !self.ours(&l) {
                self.tcp_alive = false;
            }
        }
    }

    fn apply_routes(&mut self) {
        let rs: Vec<Route> = self
            .routes
            .iter()
            .map(|r| Route { cidr: r.net.smol(), via_router: r.via.to_smol(), preferred_until: None, expires_at: r.expires_us.map(Instant::from_micros) })
            .collect();
        self.node.iface.routes_mut().update(|v| {
            v.clear();
            for r in &rs {
                v.push(*r).expect("route table");
            }
        });
    }

    // -------------------------------------------------------------- time

    fn advance(&mut self, delta: i64, walk: bool, src: &mut Src, ctx: &mut Ctx) -> Result<(), Fail> {
        let target = self.now + delta;
        let mut polls = 0;
        while self.now < target {
            let mut next = target;
            for (due, _) in &self.agenda {
                if *due > self.now && *due < next {
                    next = *due;
                }
            }
            if walk && polls < 70 {
                if let Some(pa) = self.node.poll_at(ms(self.now)) {
                    let pa_ms = (pa.total_micros() + 999) / 1000;
                    if pa_ms > self.now && pa_ms < next {
                        next = pa_ms;
                    }
                }
            }
            self.now = next;
            polls += 1;
            self.settle(src, ctx)?;
        }
        Ok(())
    }
}

// Reasons smoltcp is (or was) known to act on, the still-open one first: when several
// illegitimate claims co-exist the failure is attributed to the known root cause.
const ACTED_ON: [&str; 2] = ["ns-target-not-ours", "packet-not-addressed-to-us:low-16-bits-match-own-address"];
const ALL_NODES: [u8; 16] = [0xff, 0x02, 0, 0, 0, 0, 0, 0, 0, 0, 0, 0, 0, 0, 0, 1];

fn draw_cidrs(src: &mut Src, first: bool, lowpan: bool) -> Vec<Cidr> {
    let p4 = v4_cidr_palette();
    let p6 = v6_cidr_palette();
    let mut v = vec![];
    if first && !src.chance(1, 3) {
        return if lowpan { vec![p6[0], p6[1]] } else { vec![p4[0], p6[0], p6[1]] };
    }
    if lowpan {
        let a = src.usize(0, p6.len() - 1);
        v.push(p6[a]);
        for _ in 0..2 {
            if src.chance(1, 2) {
                let b = src.usize(0, p6.len() - 1);
                if !v.iter().any(|c: &Cidr| c.addr == p6[b].addr) {
                    v.push(p6[b]);
                }
            }
        }
        return v;
    }
    // at least one address per family so that a source address always exists
    let a = src.usize(0, p4.len() - 1);
    v.push(p4[a]);
    if src.chance(1, 3) {
        let b = src.usize(0, p4.len() - 1);
        if p4[b].addr != p4[a].addr {
            v.push(p4[b]);
        }
    }
    let a = src.usize(0, p6.len() - 1);
    v.push(p6[a]);
    if src.chance(2, 3) {
        let b = src.usize(0, p6.len() - 1);
        if p6[b].addr != p6[a].addr {
            v.push(p6[b]);
        }
    }
    v
}

fn draw_route(src: &mut Src, now: i64, lowpan: bool) -> MRoute {
    let nets = route_nets();
    let net = nets[if lowpan { src.weighted(&[0, 4, 0, 0, 4, 3, 0]) } else { src.weighted(&[4, 4, 3, 4, 3, 2, 1]) }];
    let via = if net.addr.is_v4() { v4_gateways()[src.weighted(&[4, 3, 3, 1])] } else { v6_gateways()[src.weighted(&[3, 3, 2])] };
    let expires_us = match src.weighted(&[5, 2, 2, 1, 1]) {
        0 => None,
        1 => Some((now + 500) * 1000 + 500),
        2 => Some((now + 2500) * 1000 + 500),
        3 => Some((now + 20_000) * 1000 + 500),
        _ => Some((now + 61_000) * 1000 + 500),
    };
    MRoute { net, via, expires_us }
}

fn draw_dst(src: &mut Src, v6: bool) -> Ip {
    if !v6 {
        match src.weighted(&[12, 2, 2, 2, 3, 2, 1, 1, 1, 1]) {
            0 => v4_hosts()[src.usize(0, 5)],
            1 => ip4(10, 0, 0, 200),
            2 => ip4(10, 0, 1, 5),
            3 => ip4(8, 8, 8, 8),
            4 => ip4(172, 16, 99, 1),
            5 => ip4(172, 16, 5, 9),
            6 => ip4(192, 168, 7, 1),
            7 => ip4(10, 0, 0, 255),
            8 => ip4(255, 255, 255, 255),
            _ => ip4(224, 0, 0, 251),
        }
    } else {
        match src.weighted(&[10, 2, 3, 2, 3, 2, 1]) {
            0 => v6_hosts()[src.usize(0, 3)],
            1 => ip6([0xfd00, 0, 0, 1, 0, 0, 0, 5]),
            2 => v6_hosts()[src.usize(5, 6)],
            3 => ip6([0x2001, 0xdb8, 0, 0, 0, 0, 0, 1]),
            4 => ip6([0x2001, 0xdb8, 0x99, 0, 0, 0, 0, 1]),
            5 => ip6([0x2001, 0xdb8, 0x99, 1, 0, 0, 0, 1]),
            _ => ip6([0xff02, 0, 0, 0, 0, 0, 0, 0xfb]),
        }
    }
}

/// a station to impersonate / speak as
fn draw_station(src: &mut Src, v6: bool) -> Ip {
    if !v6 {
        match src.weighted(&[6, 3, 2]) {
            0 => v4_hosts()[src.usize(0, 5)],
            1 => v4_gateways()[src.usize(0, 3)],
            _ => v4_hosts()[src.usize(6, v4_hosts().len() - 1)],
        }
    } else {
        match src.weighted(&[6, 3, 2]) {
            0 => v6_hosts()[src.usize(0, 3)],
            1 => v6_gateways()[src.usize(0, 2)],
            _ => v6_hosts()[src.usize(4, v6_hosts().len() - 1)],
        }
    }
}

fn draw_mac(src: &mut Src, truth: Mac, lowpan: bool) -> Mac {
    match src.weighted(&[6, 3, 1, 1]) {
        0 => truth,
        1 => spoof_mac(src.range(1, 3) as u8, lowpan),
        // Ethernet: broadcast / multicast; 802.15.4: an option carrying a 6-octet address
        2 => Mac::new(&[0xff; 6]),
        _ => Mac::new(&[0x01, 0x00, 0x5e, 0, 0, 1]),
    }
}

/// ARP message: unsolicited, spoofed or plain valid
fn gen_arp(w: &World, src: &mut Src) -> Spec {
    let subject = match src.weighted(&[8, 1, 1, 1]) {
        0 => draw_station(src, false),
        1 => ip4(255, 255, 255, 255),
        2 => ip4(224, 0, 0, 1),
        _ => ip4(0, 0, 0, 0),
    };
    let Ip::V4(spa) = subject else { unreachable!() };
    let sha = draw_mac(src, mac_of(&subject, false), false);
    let op = *src.pick(&[2u16, 1, 2, 1, 3]);
    let our4: Vec<[u8; 4]> = w.cidrs.iter().filter_map(|c| if let Ip::V4(a) = c.addr { Some(a) } else { None }).collect();
    let tpa = if src.chance(1, 5) { [10, 0, 0, 99] } else { our4[src.usize(0, our4.len() - 1)] };
    let eth_src = if src.chance(1, 6) { spoof_mac(9, false) } else if mac_unicast(&sha) { sha } else { mac_of(&subject, false) };
    let eth_dst = match src.weighted(&[5, 3, 1]) {
        0 => w.our_mac,
        1 => Mac::new(&[0xff; 6]),
        _ => Mac::new(&[0x02, 0, 0, 0, 0, 0x77]),
    };
    Spec::Arp { eth_src, eth_dst, op, sha: sha.e6(), spa, tha: if src.bool() { w.our_mac.e6() } else { [0; 6] }, tpa }
}

/// neighbour advertisement / solicitation: unsolicited, spoofed, invalid or plain valid
fn gen_nd(w: &World, src: &mut Src) -> Spec {
    let lowpan = w.lowpan;
    let na = src.chance(2, 3);
    let subject = match src.weighted(&[10, 1, 1]) {
        0 => draw_station(src, true),
        1 => ip6([0xff02, 0, 0, 0, 0, 0, 0, 1]),
        _ => ip6([0; 8]),
    };
    let Ip::V6(s) = subject else { unreachable!() };
    let our6: Vec<[u8; 16]> = w.cidrs.iter().filter_map(|c| if let Ip::V6(a) = c.addr { Some(a) } else { None }).collect();
    let me = our6[src.usize(0, our6.len() - 1)];
    let ll = if src.chance(1, 8) { None } else { Some(draw_mac(src, mac_of(&subject, lowpan), lowpan)) };
    let hop = if src.chance(1, 8) { 64 } else { 255 };
    let other = draw_station(src, true);
    let Ip::V6(o) = other else { unreachable!() };
    let stranger = [0xfd, 0, 0, 0, 0, 0, 0, 0, 0, 0, 0, 0, 0, 0, 0, 0x63];
    let (dst, target, flags) = if na {
        let target = if src.chance(1, 4) { o } else { s };
        let dst = match src.weighted(&[5, 3, 1]) {
            0 => me,
            1 => ALL_NODES,
            _ => stranger,
        };
        (dst, target, *src.pick(&[0x60u8, 0x40, 0x20, 0x00, 0xe0]))
    } else {
        let target = if src.chance(1, 4) { o } else { me };
        let dst = match src.weighted(&[4, 4, 1]) {
            0 => solicited_node(&me),
            1 => me,
            _ => stranger,
        };
        (dst, target, 0)
    };
    let eth_src = match ll {
        Some(l) if mac_unicast(&l) && l.bytes().len() == if lowpan { 8 } else { 6 } && !src.chance(1, 6) => l,
        _ => mac_of(&subject, lowpan),
    };
    let eth_dst = if lowpan {
        if dst[0] == 0xff {
            Mac::new(&[0xff, 0xff])
        } else {
            w.our_mac
        }
    } else if dst[0] == 0xff {
        Mac::new(&mac_for_multicast(&Ip::V6(dst)))
    } else if src.chance(1, 10) {
        Mac::new(&[0x02, 0, 0, 0, 0, 0x77])
    } else {
        w.our_mac
    };
    Spec::Nd { eth_src, eth_dst, src: s, dst, hop, na, target, flags, ll }
}

/// plain traffic from a neighbour, from beyond a gateway or from an impostor
fn gen_traffic(w: &World, src: &mut Src) -> Spec {
    let lowpan = w.lowpan;
    let v6 = lowpan || src.chance(2, 5);
    let from = draw_station(src, v6);
    let eth_src = match src.weighted(&[6, 2, 1]) {
        0 => mac_of(&from, lowpan),
        1 => mac_of(&if v6 { v6_gateways()[src.usize(0, 2)] } else { v4_gateways()[src.usize(0, 3)] }, lowpan),
        _ => spoof_mac(src.range(1, 3) as u8, lowpan),
    };
    let ours: Vec<Ip> = w.cidrs.iter().map(|c| c.addr).filter(|a| a.is_v4() != v6).collect();
    let dst = if !v6 && src.chance(1, 10) { ip4(255, 255, 255, 255) } else { ours[src.usize(0, ours.len() - 1)] };
    let eth_dst = if w.is_bcast(&dst) { Mac::new(&[0xff; 6]) } else { w.our_mac };
    let kind = src.weighted(&[3, 2, 3, 2]) as u8;
    Spec::Traffic { eth_src, eth_dst, src: from, dst, kind }
}

fn case(src: &mut Src, ctx: &mut Ctx) -> Result<(), Fail> {
    run(src, ctx, false)
}

pub fn run(src: &mut Src, ctx: &mut Ctx, lowpan: bool) -> Result<(), Fail> {
    // development aid: C16_ONLY=ethernet|ieee802154 skips the other part
    static ONLY: std::sync::OnceLock<Option<String>> = std::sync::OnceLock::new();
    if let Some(o) = ONLY.get_or_init(|| std::env::var("C16_ONLY").ok()) {
        if (o == "ethernet") == lowpan {
            return Ok(());
        }
    }
    // ---- configuration
    let seed = src.u64();
    let t0 = *src.pick(&[0i64, 1, 999, 1000, 5000, 100_000]);
    let (hw, our_mac) = if !lowpan {
        (Hw::Eth([0x02, 0, 0, 0, 0, 1]), Mac::new(&[0x02, 0, 0, 0, 0, 1]))
    } else if src.chance(1, 4) {
        (Hw::IeeeShort([0x00, 0x01], Some(PAN)), Mac::new(&[0x00, 0x01]))
    } else {
        // fe80::1 is the link-local address derived from this extended address
        (Hw::Ieee([0x02, 0, 0, 0, 0, 0, 0, 1], Some(PAN)), Mac::new(&[0x02, 0, 0, 0, 0, 0, 0, 1]))
    };
    let mut node = Node::new(hw, if lowpan { 125 } else { 1500 }, seed, false, ms(t0));
    let n_udp = 1 + src.weighted(&[2, 3, 3, 2]);
    let with_icmp = !src.chance(1, 4);
    let with_tcp = !src.chance(1, 3);
    let order = src.weighted(&[3, 1, 1]); // udp first / tcp+icmp first / icmp, udp, tcp
    let mut plan: Vec<(Kind, u16)> = vec![];
    let udp: Vec<(Kind, u16)> = (0..n_udp).map(|i| (Kind::Udp, 1000 + i as u16)).collect();
    match order {
        0 => {
            plan.extend(udp);
            if with_icmp {
                plan.push((Kind::Icmp, 0));
            }
            if with_tcp {
                plan.push((Kind::Tcp, TCP_LPORT));
            }
        }
        1 => {
            if with_tcp {
                plan.push((Kind::Tcp, TCP_LPORT));
            }
            if with_icmp {
                plan.push((Kind::Icmp, 0));
            }
            plan.extend(udp);
        }
        _ => {
            if with_icmp {
                plan.push((Kind::Icmp, 0));
            }
            plan.extend(udp);
            if with_tcp {
                plan.push((Kind::Tcp, TCP_LPORT));
            }
        }
    }
    let mut socks = vec![];
    for (kind, port) in &plan {
        let handle = match kind {
            Kind::Udp => {
                let mut s = udp::Socket::new(
                    udp::PacketBuffer::new(vec![udp::PacketMetadata::EMPTY; 4], vec![0u8; 256]),
                    udp::PacketBuffer::new(vec![udp::PacketMetadata::EMPTY; 8], vec![0u8; 128]),
                );
                s.bind(*port).expect("bind");
                node.sockets.add(s)
            }
            Kind::Icmp => {
                let mut s = icmp::Socket::new(
                    icmp::PacketBuffer::new(vec![icmp::PacketMetadata::EMPTY; 4], vec![0u8; 256]),
                    icmp::PacketBuffer::new(vec![icmp::PacketMetadata::EMPTY; 4], vec![0u8; 64]),
                );
                s.bind(icmp::Endpoint::Ident(ICMP_IDENT)).expect("bind");
                node.sockets.add(s)
            }
            Kind::Tcp => node.sockets.add(tcp::Socket::new(tcp::SocketBuffer::new(vec![0u8; 256]), tcp::SocketBuffer::new(vec![0u8; 256]))),
        };
        socks.push(SockModel { kind: *kind, handle, port: *port, queue: VecDeque::new() });
    }
    let mut w = World {
        node,
        lowpan,
        our_mac,
        inject_seq: 0,
        now: t0,
        seq: 0,
        flush_seq: 0,
        cidrs: vec![],
        routes: vec![],
        valid: vec![],
        weak: vec![],
        last_disc: None,
        socks,
        tcp_remote: None,
        tcp_local: None,
        tcp_alive: false,
        syn_seen: false,
        next_id: 1,
        seen_ids: vec![],
        agenda: vec![],
        reply_dsts: vec![],
        tail: false,
        tail_unanswerable: 0,
        budget: None,
        stats: Stats { t_first: t0, ..Default::default() },
    };
    let cidrs = draw_cidrs(src, true, lowpan);
    w.apply_addrs(cidrs);
    let n_routes = src.weighted(&[1, 2, 3, 3, 3]);
    for _ in 0..n_routes {
        let r = draw_route(src, t0, lowpan);
        if let Some(e) = w.routes.iter_mut().find(|e| e.net == r.net) {
            *e = r;
        } else {
            w.routes.push(r);
        }
    }
    w.apply_routes();
    ctx.note(|| {
        format!(
            "{} hw={} t0={} ms sockets=[{}] addrs=[{}] routes=[{}]",
            if lowpan { "ieee802154" } else { "ethernet" },
            w.our_mac,
            t0,
            w.socks.iter().map(|s| format!("{:?}:{}", s.kind, s.port)).collect::<Vec<_>>().join(" "),
            w.cidrs.iter().map(|c| c.to_string()).collect::<Vec<_>>().join(" "),
            w.routes.iter().map(|r| format!("{} via {}{}", r.net, r.via, r.expires_us.map(|e| format!(" until {} us", e)).unwrap_or_default())).collect::<Vec<_>>().join(", ")
        )
    });
    ctx.digest.u64(t0 as u64);
    w.settle(src, ctx)?;

    // ---- scripted history
    let mut steps = 0;
    while steps < 70 && src.more(29, 30) {
        steps += 1;
        w.budget = match src.weighted(&[10, 1, 1]) {
            0 => None,
            1 => Some(1),
            _ => Some(2),
        };
        if w.budget.is_some() {
            ctx.label("device:tx-budget-limited");
        }
        match src.weighted(&if lowpan { [10, 0, 7, 4, 7, 1, 2, 1, 2] } else { [10, 4, 4, 4, 7, 1, 2, 1, 2] }) {
            0 => {
                // application send
                let i = src.usize(0, w.socks.len() - 1);
                let v6 = lowpan || src.chance(2, 5);
                let dst = draw_dst(src, v6);
                let id = w.next_id;
                match w.socks[i].kind {
                    Kind::Udp => {
                        let mut payload = b"C16".to_vec();
                        payload.push(i as u8);
                        payload.extend_from_slice(&id.to_be_bytes());
                        let h = w.socks[i].handle;
                        let r = w.node.sockets.get_mut::<udp::Socket>(h).send_slice(&payload, (dst.to_smol(), 7000 + i as u16));
                        ctx.note(|| format!("t={} app: udp socket {} send #{} to {} -> {:?}", w.now, i, id, dst, r));
                        if r.is_ok() {
                            w.next_id += 1;
                            w.socks[i].queue.push_back((id, dst));
                            ctx.digest.str(&dst.to_string());
                        }
                    }
                    Kind::Icmp => {
                        let e = Icmp::echo(v6, true, ICMP_IDENT, 1, id.to_be_bytes().to_vec()).encode4();
                        let h = w.socks[i].handle;
                        let r = w.node.sockets.get_mut::<icmp::Socket>(h).send_slice(&e, dst.to_smol());
                        ctx.note(|| format!("t={} app: icmp socket send echo #{} to {} -> {:?}", w.now, id, dst, r));
                        if r.is_ok() {
                            w.next_id += 1;
                            w.socks[i].queue.push_back((id, dst));
                            ctx.digest.str(&dst.to_string());
                        }
                    }
                    Kind::Tcp => {
                        if w.tcp_remote.is_none() && ip_unicast(&dst) && !w.is_bcast(&dst) {
                            let h = w.socks[i].handle;
                            let cx = w.node.iface.context();
                            let r = w.node.sockets.get_mut::<tcp::Socket>(h).connect(cx, (dst.to_smol(), 80), TCP_LPORT);
                            ctx.note(|| format!("t={} app: tcp connect to {} -> {:?}", w.now, dst, r));
                            if r.is_ok() {
                                w.tcp_remote = Some(dst);
                                w.tcp_local = w.node.sockets.get::<tcp::Socket>(h).local_endpoint().map(|e| Ip::from_smol(e.addr));
                                w.tcp_alive = true;
                                ctx.label("tcp:connect");
                            }
                        }
                    }
                }
                w.settle(src, ctx)?;
            }
            1 => {
                let spec = gen_arp(&w, src);
                w.inject(&spec, src, ctx)?;
                w.settle(src, ctx)?;
            }
            2 => {
                let spec = gen_nd(&w, src);
                w.inject(&spec, src, ctx)?;
                w.settle(src, ctx)?;
            }
            3 => {
                let spec = gen_traffic(&w, src);
                w.inject(&spec, src, ctx)?;
                w.settle(src, ctx)?;
            }
            4 => {
                let d = match src.weighted(&[6, 3, 2]) {
                    0 => *src.pick(&[1000i64, 1, 100, 500, 999, 1001, 2000, 5000]),
                    1 => *src.pick(&[59_000i64, 59_999, 60_000, 60_001, 61_000, 30_000]),
                    _ => src.range(1, 70_000) as i64,
                };
                let walk = src.chance(2, 3);
                ctx.note(|| format!("t={} time +{} ms ({})", w.now, d, if walk { "polling at poll_at()" } else { "one jump" }));
                w.advance(d, walk, src, ctx)?;
            }
            5 => {
                let cidrs = draw_cidrs(src, false, lowpan);
                ctx.note(|| format!("t={} app: update_ip_addrs -> [{}]", w.now, cidrs.iter().map(|c| c.to_string()).collect::<Vec<_>>().join(" ")));
                w.apply_addrs(cidrs);
                ctx.label("address change");
                w.settle(src, ctx)?;
            }
            6 => {
                if !w.routes.is_empty() && src.chance(1, 4) {
                    let i = src.usize(0, w.routes.len() - 1);
                    let r = w.routes.remove(i);
                    ctx.note(|| format!("t={} app: route {} via {} removed", w.now, r.net, r.via));
                } else {
                    let r = draw_route(src, w.now, lowpan);
                    ctx.note(|| format!("t={} app: route {} via {} expires {:?} us", w.now, r.net, r.via, r.expires_us));
                    if let Some(e) = w.routes.iter_mut().find(|e| e.net == r.net) {
                        *e = r;
                    } else if w.routes.len() < smoltcp::config::IFACE_MAX_ROUTE_COUNT {
                        w.routes.push(r);
                    } else {
                        let i = src.usize(0, w.routes.len() - 1);
                        w.routes[i] = r;
                    }
                }
                w.apply_routes();
                ctx.label("route change");
                w.settle(src, ctx)?;
            }
            8 => {
                // several frames waiting in the device when poll() is called
                let n = src.usize(2, 4);
                ctx.note(|| format!("t={} env: burst of {} frames before one poll", w.now, n));
                for _ in 0..n {
                    let spec = match src.weighted(&if lowpan { [0, 3, 3] } else { [2, 2, 3] }) {
                        0 => gen_arp(&w, src),
                        1 => gen_nd(&w, src),
                        _ => gen_traffic(&w, src),
                    };
                    w.stage(&spec, ctx);
                }
                ctx.label("burst");
                w.settle(src, ctx)?;
            }
            _ => {
                // poll exactly when the interface asks to be polled
                if let Some(pa) = w.node.poll_at(ms(w.now)) {
                    let pa_ms = (pa.total_micros() + 999) / 1000;
                    if pa_ms > w.now {
                        let d = (pa_ms - w.now).min(10_000);
                        ctx.note(|| format!("t={} time +{} ms (to poll_at)", w.now, d));
                        w.advance(d, false, src, ctx)?;
                    }
                }
            }
        }
    }

    // ---- tail: every request is answered at once; routes no longer expire
    w.tail = true;
    w.budget = None;
    let before = w.routes.len();
    let now_us = w.now * 1000;
    w.routes.retain(|r| r.expires_us.map_or(true, |e| now_us <= e));
    if w.routes.len() != before {
        ctx.label("route expired");
    }
    for r in w.routes.iter_mut() {
        r.expires_us = None;
    }
    w.apply_routes();
    // late answers still in flight are delivered first
    let mut horizon = w.now;
    for (due, _) in &w.agenda {
        horizon = horizon.max(*due);
    }
    let d = horizon - w.now;
    ctx.note(|| format!("t={} tail: routes frozen, waiting {} ms for answers in flight", w.now, d));
    if d > 0 {
        w.advance(d, true, src, ctx)?;
    }
    let resolvable = |w: &World, d: &Ip| -> bool {
        if d.is_multicast() || w.is_bcast(d) {
            return true;
        }
        match w.next_hop(d) {
            // ARP answers are only credible from on-link senders
            Some(nh) => !nh.is_v4() || w.on_link(&nh),
            None => false,
        }
    };
    let mut expected: Vec<(usize, u32, Ip)> = vec![];
    for (i, s) in w.socks.iter().enumerate() {
        for (id, d) in &s.queue {
            if !resolvable(&w, d) {
                ctx.label(if w.next_hop(d).is_none() { "tail:blocked-by-unroutable-head" } else { "tail:blocked-by-unresolvable-gateway" });
                break;
            }
            expected.push((i, *id, *d));
        }
    }
    let expect_syn = w.tcp_alive && w.tcp_remote.map_or(false, |r| resolvable(&w, &r));
    if w.tcp_remote.is_some() && !w.tcp_alive {
        ctx.label("tcp:reset-by-address-change");
    }
    let tail_start = w.now;
    let mut iters = 0;
    loop {
        let missing = expected.iter().any(|(_, id, _)| !w.seen_ids.contains(id)) || (expect_syn && !w.syn_seen);
        if !missing || w.now - tail_start > 150_000 {
            break;
        }
        iters += 1;
        if iters > 3000 {
            ctx.inconclusive = true;
            return Ok(());
        }
        let mut step = 1000;
        if let Some(pa) = w.node.poll_at(ms(w.now)) {
            let pa_ms = (pa.total_micros() + 999) / 1000;
            if pa_ms > w.now {
                step = step.min(pa_ms - w.now);
            }
        }
        w.now += step;
        w.settle(src, ctx)?;
    }
    ctx.count("tail_ms", (w.now - tail_start) as u64);
    for (i, id, d) in &expected {
        if !w.seen_ids.contains(id) {
            if w.tail_unanswerable > 0 {
                // The datagram is still queued (not lost), which is all C16 states; that it is
                // never sent because another socket's unanswerable next hop monopolises the global
                // discovery slot is property C09's claim (open finding there). Counted only.
                ctx.label("observed:starved-by-unanswerable-discovery");
                break;
            }
            let key = "tail:datagram-never-sent";
            report(ctx, Fail::new(
                key,
                format!(
                    "datagram #{} accepted by socket {} for {} (next hop {:?}, resolvable) was still not transmitted {} ms after the environment started answering every ARP request / neighbour solicitation at once{}",
                    id,
                    i,
                    d,
                    w.next_hop(d).map(|n| n.to_string()),
                    w.now - tail_start,
                    if w.tail_unanswerable > 0 { format!("; meanwhile {} discovery frames went to an off-link IPv4 gateway nobody can credibly answer for", w.tail_unanswerable) } else { String::new() }
                ),
            ))?;
            break;
        }
    }
    if expect_syn && !w.syn_seen && w.tail_unanswerable > 0 {
        ctx.label("observed:starved-by-unanswerable-discovery");
    } else if expect_syn && !w.syn_seen {
        let key = "tail:syn-never-sent";
        report(ctx, Fail::new(key, format!("TCP connect to {:?} never put a SYN on the wire although its next hop is resolvable", w.tcp_remote.map(|r| r.to_string()))))?;
    }
    if !expected.is_empty() {
        ctx.label("tail:datagrams-delivered-after-resolution");
    }

    // ---- non-triviality and digest
    let span = w.now - w.stats.t_first;
    if w.stats.next_hops_used.len() > smoltcp::config::IFACE_NEIGHBOR_CACHE_COUNT {
        ctx.label("more-neighbours-than-cache-slots");
    }
    if span > LIFETIME_MS {
        ctx.label("span>60s");
    }
    if w.stats.unicast_checked >= 1 && w.stats.discoveries >= 1 && (span > LIFETIME_MS || w.stats.next_hops_used.len() > smoltcp::config::IFACE_NEIGHBOR_CACHE_COUNT) {
        ctx.nontrivial = true;
    }
    ctx.digest.u64(w.stats.unicast_checked);
    ctx.digest.u64(w.stats.discoveries);
    ctx.digest.u64(w.seq);
    ctx.digest.u64(w.now as u64);
    Ok(())
}

pub fn prop() -> Prop {
    Prop {
        id: "C16",
        parts: vec![
            Part { name: "ethernet", case, quick: 160_000, thorough: 8_000_000 },
            Part { name: "ieee802154", case: lowpan::case, quick: 40_000, thorough: 2_000_000 },
        ],
        phases: vec![],
        smoltcp_panic_is_violation: true,
        rule: "ethernet: a node (IPv4+IPv6, 1-2 addresses per family drawn from prefixes /16../30 and /48../64, up to 4 routes: default, more specific, expiring, with on-link or off-link gateways; 2-6 sockets: 1-4 UDP, ICMP, one TCP connect, in drawn order) and a history of <=70 events: application sends to >=6 on-link hosts, off-link hosts behind default / more specific / expiring / no route, broadcast and multicast; ARP and NDISC messages that are valid, unsolicited, from off-link senders, with broadcast/multicast hardware address, wrong target, wrong hop limit, unknown operation, not addressed to us (L2 or L3), NA with every flag combination and for another target, NS for a target that is not ours; plain UDP/ICMP/TCP traffic from neighbours, gateways and impostors; bursts of 2-4 such frames before one poll; update_ip_addrs; route add/replace/remove; device transmit budget 1, 2 or unlimited per poll; time steps 1 ms..70 s (one jump or following poll_at) incl. 999/1000/1001 ms and 59999/60000/60001 ms; every ARP request / NS seen is answered at once, after 0.1-5 s or never; tail: routes frozen, all requests answered at once until every datagram queued behind a resolvable head is on the wire (<=150 s). ieee802154: the same world on 802.15.4/6LoWPAN (IPv6 only, extended or short own hardware address, neighbours with EUI-64-derived and unrelated addresses) read through an own 802.15.4 header + RFC 6282 IPHC/UDP-NHC decoder. Oracle per emitted frame: own longest-prefix-match next hop over the interface prefixes and unexpired routes (none => nothing may be sent); L2 destination must be unicast and a hardware address legitimately claimed for the next hop < 60 s ago and after the last address change; every ARP request / NS is >= 1 s after the previous one (one limiter for all neighbours, as in the code) and asks for the next hop of a queued packet or of a reply to a frame just received; datagrams leave a socket in order, exactly once and only by being transmitted. non-trivial = >=1 unicast frame checked against a learned address, >=1 discovery frame, and (history spans > 60 s or more distinct next hops used than neighbour-cache slots); distinct by digest of (start time, destinations, counts, end time)",
        assumptions: vec![
            "independent Ethernet/ARP/NDISC/IPv4/IPv6/UDP/ICMP codecs in vkit::indep; own 802.15.4 header and IPHC/NHC decoder (stateless modes) in c16_lowpan.rs",
            "a claim is legitimate when a careful RFC 826 / RFC 4861 receiver may act on it: ARP request/reply delivered to us with unicast on-link sender addresses (creating an entry only when aimed at one of our addresses); NA with hop limit 255, delivered to one of our addresses or all-nodes, about its Target Address; NS with hop limit 255 whose target is one of our addresses; unicast IP traffic from (ip, mac) to one of our addresses confirms a mapping claimed before (since the last flush, even if expired meanwhile), it never creates one",
            "the set of legitimate hardware addresses is permissive (any legitimate claim of the last 60 s since the last address change), so which of two competing legitimate claims wins (override flag, eviction order) is not judged, and claims smoltcp chooses to ignore are not demanded",
            "route expiry instants are never hit exactly (x.5 ms); polls happen at whole milliseconds; on 802.15.4 frames addressed to other stations are not generated (destination filtering is the radio's job)",
            "tail liveness (tail:*) goes beyond the letter of the statement: it demands that data queued behind a resolvable next hop is eventually sent once every request is answered",
        ],
    }
}
