//! C03 helper: mutation of well-formed frames and lenient recomputation of all
//! checksums (IPv4 header, TCP, UDP, ICMPv4, ICMPv6, IGMP) so that mutations
//! reach past checksum validation.

use vkit::indep::*;
use vkit::Src;

/// Where the IP datagram starts in a frame of this kind.
#[derive(Clone, Copy, PartialEq, Eq)]
pub enum Framing {
    Eth,
    Ip,
}

fn put16(b: &mut [u8], at: usize, v: u16) {
    if at + 2 <= b.len() {
        b[at..at + 2].copy_from_slice(&v.to_be_bytes());
    }
}

fn l4_fix(b: &mut [u8], proto: u8, s: &Ip, d: &Ip) {
    match proto {
        PROTO_TCP => {
            if b.len() >= 18 {
                put16(b, 16, 0);
                let c = l4_checksum(s, d, PROTO_TCP, b);
                put16(b, 16, c);
            }
        }
        PROTO_UDP => {
            if b.len() >= 8 {
                // the receiver sums over the span named by the length field
                let l = u16::from_be_bytes([b[4], b[5]]) as usize;
                let span = if l >= 8 && l <= b.len() { l } else { b.len() };
                put16(b, 6, 0);
                let mut c = l4_checksum(s, d, PROTO_UDP, &b[..span]);
                if c == 0 {
                    c = 0xffff;
                }
                put16(b, 6, c);
            }
        }
        PROTO_ICMP | PROTO_IGMP => {
            if b.len() >= 4 && s.is_v4() {
                put16(b, 2, 0);
                let c = !ocsum(b);
                put16(b, 2, c);
            }
        }
        PROTO_ICMPV6 => {
            if b.len() >= 4 && !s.is_v4() {
                put16(b, 2, 0);
                let c = l4_checksum(s, d, PROTO_ICMPV6, b);
                put16(b, 2, c);
            }
        }
        _ => {}
    }
}

/// Recompute the checksums of an IP datagram in place, walking it leniently
/// (wrong lengths are clamped to what is there; nothing is required to be valid).
pub fn fixup_ip(b: &mut [u8]) {
    if b.is_empty() {
        return;
    }
    match b[0] >> 4 {
        4 => {
            if b.len() < 20 {
                return;
            }
            let ihl = (((b[0] & 0xf) as usize) * 4).clamp(20, b.len());
            put16(b, 10, 0);
            let c = !ocsum(&b[..ihl]);
            put16(b, 10, c);
            let total = u16::from_be_bytes([b[2], b[3]]) as usize;
            let end = if total >= ihl && total <= b.len() { total } else { b.len() };
            let fo = u16::from_be_bytes([b[6], b[7]]);
            if fo & 0x3fff != 0 {
                return; // a fragment: the transport checksum spans the whole datagram
            }
            let s = Ip::V4([b[12], b[13], b[14], b[15]]);
            let d = Ip::V4([b[16], b[17], b[18], b[19]]);
            let proto = b[9];
            l4_fix(&mut b[ihl..end], proto, &s, &d);
        }
        6 => {
            if b.len() < 40 {
                return;
            }
            let plen = u16::from_be_bytes([b[4], b[5]]) as usize;
            let end = if 40 + plen <= b.len() { 40 + plen } else { b.len() };
            let mut s = [0u8; 16];
            s.copy_from_slice(&b[8..24]);
            let mut d = [0u8; 16];
            d.copy_from_slice(&b[24..40]);
            let mut next = b[6];
            let mut at = 40;
            for _ in 0..8 {
                match next {
                    PROTO_HOPOPT | PROTO_V6ROUTE | PROTO_V6OPTS => {
                        if at + 8 > end {
                            return;
                        }
                        let l = (b[at + 1] as usize + 1) * 8;
                        next = b[at];
                        at += l;
                    }
                    PROTO_V6FRAG => {
                        if at + 8 > end {
                            return;
                        }
                        let off = u16::from_be_bytes([b[at + 2], b[at + 3]]);
                        if off & 0xfff9 != 0 {
                            return;
                        }
                        next = b[at];
                        at += 8;
                    }
                    _ => break,
                }
                if at > end {
                    return;
                }
            }
            l4_fix(&mut b[at..end], next, &Ip::V6(s), &Ip::V6(d));
        }
        _ => {}
    }
}

pub fn fixup_checksums(frame: &mut [u8], framing: Framing) {
    match framing {
        Framing::Ip => fixup_ip(frame),
        Framing::Eth => {
            if frame.len() > 14 {
                let et = u16::from_be_bytes([frame[12], frame[13]]);
                if et == ETH_IPV4 || et == ETH_IPV6 {
                    fixup_ip(&mut frame[14..]);
                }
            }
        }
    }
}

/// Offsets of length-like fields found by walking the frame leniently: (offset, width in octets).
fn length_fields(b: &[u8], framing: Framing) -> Vec<(usize, usize)> {
    let mut v = vec![];
    let base = if framing == Framing::Eth { 14 } else { 0 };
    if b.len() <= base {
        return v;
    }
    let ip = &b[base..];
    match ip[0] >> 4 {
        4 if ip.len() >= 20 => {
            v.push((base, 1)); // version/IHL
            v.push((base + 2, 2)); // total length
            v.push((base + 6, 2)); // flags / fragment offset
            let ihl = ((ip[0] & 0xf) as usize * 4).clamp(20, ip.len());
            if ihl > 20 {
                v.push((base + 21, 1)); // first option's length
            }
            let l4 = base + ihl;
            match ip[9] {
                PROTO_UDP => v.push((l4 + 4, 2)),
                PROTO_TCP => {
                    v.push((l4 + 12, 1));
                    v.push((l4 + 21, 1));
                }
                PROTO_ICMP => {
                    // quoted header of an error message
                    v.push((l4 + 8, 1));
                    v.push((l4 + 10, 2));
                }
                _ => {}
            }
        }
        6 if ip.len() >= 40 => {
            v.push((base + 4, 2)); // payload length
            v.push((base + 6, 1)); // next header
            let mut next = ip[6];
            let mut at = 40;
            for _ in 0..6 {
                if !matches!(next, PROTO_HOPOPT | PROTO_V6ROUTE | PROTO_V6OPTS | PROTO_V6FRAG) || at + 8 > ip.len() {
                    break;
                }
                v.push((base + at, 1));
                v.push((base + at + 1, 1));
                v.push((base + at + 3, 1)); // first option's length / segments left
                let l = if next == PROTO_V6FRAG { 8 } else { (ip[at + 1] as usize + 1) * 8 };
                next = ip[at];
                at += l;
            }
            let l4 = base + at;
            match next {
                PROTO_UDP => v.push((l4 + 4, 2)),
                PROTO_TCP => {
                    v.push((l4 + 12, 1));
                    v.push((l4 + 21, 1));
                }
                PROTO_ICMPV6 => {
                    // first NDISC option length (after 16-octet target or RA fields) and others
                    v.push((l4 + 9, 1));
                    v.push((l4 + 17, 1));
                    v.push((l4 + 25, 1));
                    v.push((l4 + 12, 2));
                }
                _ => {}
            }
        }
        _ => {}
    }
    v.retain(|(o, w)| o + w <= b.len());
    v
}

/// Mutate a frame. Returns the name of the mutation applied. `other` is a second
/// frame for splicing.
pub fn mutate(src: &mut Src, b: &mut Vec<u8>, other: &[u8], framing: Framing, max_len: usize) -> &'static str {
    if b.is_empty() {
        b.push(src.u8());
        return "mut:from-empty";
    }
    let n = b.len();
    let name = match src.weighted(&[4, 4, 3, 3, 2, 2, 1]) {
        0 => {
            // a field set to a boundary value
            let hdr = n.min(if framing == Framing::Eth { 94 } else { 80 });
            let at = if src.chance(3, 4) { src.usize(0, hdr - 1) } else { src.usize(0, n - 1) };
            if src.bool() || at + 2 > n {
                b[at] = *src.pick(&[0u8, 1, 0x7f, 0x80, 0xff, 0xfe, 0x40]);
            } else {
                let len = n as u16;
                let v = *src.pick(&[0u16, 1, 0x7fff, 0x8000, 0xffff, len, len.wrapping_sub(1), len.wrapping_add(1), len.wrapping_sub(14), len.wrapping_sub(34), len.wrapping_sub(54)]);
                b[at..at + 2].copy_from_slice(&v.to_be_bytes());
            }
            "mut:boundary-value"
        }
        1 => {
            // a length field +- k
            let f = length_fields(b, framing);
            if f.is_empty() {
                let at = src.usize(0, n - 1);
                b[at] = b[at].wrapping_add(1);
            } else {
                let (at, w) = *src.pick(&f);
                let k = *src.pick(&[1i32, -1, 2, -2, 4, -4, 8, -8, 16, -20, 40, -40, 255, -255, 1000]);
                if w == 1 {
                    b[at] = if src.chance(1, 4) { *src.pick(&[0u8, 1, 0x0f, 0x4f, 0x40, 0x45, 0xf0, 0xff, 0x50]) } else { (b[at] as i32 + k) as u8 };
                } else {
                    let v = u16::from_be_bytes([b[at], b[at + 1]]);
                    let nv = if src.chance(1, 5) { *src.pick(&[0u16, 1, 7, 8, 19, 20, 39, 40, 0xffff]) } else { (v as i32 + k) as u16 };
                    b[at..at + 2].copy_from_slice(&nv.to_be_bytes());
                }
            }
            "mut:length-field"
        }
        2 => {
            let at = src.usize(0, n);
            b.truncate(at);
            "mut:truncate"
        }
        3 => {
            for _ in 0..src.usize(1, 4) {
                let at = src.usize(0, n - 1);
                if src.bool() {
                    b[at] ^= 1 << src.draw(7);
                } else {
                    b[at] = src.u8();
                }
            }
            "mut:noise"
        }
        4 => {
            // splice: head of this frame, tail of another
            let cut = src.usize(0, n);
            let from = if other.is_empty() { 0 } else { src.usize(0, other.len()) };
            b.truncate(cut);
            b.extend_from_slice(&other[from.min(other.len())..]);
            "mut:splice"
        }
        5 => {
            // grow: trailing octets / duplicated middle
            let k = src.usize(1, 64);
            if src.bool() {
                b.extend(src.bytes(k));
            } else {
                let at = src.usize(0, n);
                let ins = src.bytes(k.min(16));
                for (i, x) in ins.into_iter().enumerate() {
                    b.insert(at + i, x);
                }
            }
            "mut:grow"
        }
        _ => {
            // zero / 0xff a run
            let at = src.usize(0, n - 1);
            let k = src.usize(1, 16).min(n - at);
            let v = if src.bool() { 0 } else { 0xff };
            for x in &mut b[at..at + k] {
                *x = v;
            }
            "mut:run"
        }
    };
    b.truncate(max_len);
    name
}
