//! C15 - the assembler is an exact, bounded set of byte ranges.
//!
//! Oracle: bit-set model with "shift down on front removal". Exhaustive
//! breadth-first exploration of all reachable tracker states over a bounded
//! universe (every op with every argument from every state) plus random
//! sequences over a larger universe.

use serde_json::json;
use smoltcp::config::ASSEMBLER_MAX_SEGMENT_COUNT as MAXSEG;
use smoltcp::storage::Assembler;
use std::collections::HashMap;
use vkit::runner::{Fail, Part, PhaseResult, Prop, RunEnv, Tier};
use vkit::{vensure, Ctx, Src};

#[derive(Clone, Debug, PartialEq, Eq)]
enum AOp {
    Add(usize, usize),
    RemoveFront,
    AddThenRemoveFront(usize, usize),
    Clear,
}

/// model: sorted list of disjoint, non-touching (start, end) ranges
#[derive(Clone, Debug, PartialEq, Eq, Hash)]
struct Model {
    runs: Vec<(usize, usize)>,
}

impl Model {
    fn new() -> Model {
        Model { runs: vec![] }
    }
    fn with_add(&self, o: usize, s: usize) -> Model {
        if s == 0 {
            return self.clone();
        }
        let (mut a, mut b) = (o, o + s);
        let mut out = vec![];
        let mut placed = false;
        for &(x, y) in &self.runs {
            if y < a {
                out.push((x, y));
            } else if x > b {
                if !placed {
                    out.push((a, b));
                    placed = true;
                }
                out.push((x, y));
            } else {
                a = a.min(x);
                b = b.max(y);
            }
        }
        if !placed {
            out.push((a, b));
        }
        Model { runs: out }
    }
    fn remove_front(&mut self) -> usize {
        match self.runs.first().copied() {
            Some((0, n)) => {
                self.runs.remove(0);
                for r in self.runs.iter_mut() {
                    r.0 -= n;
                    r.1 -= n;
                }
                n
            }
            _ => 0,
        }
    }
}

fn observe(a: &Assembler) -> Vec<(usize, usize)> {
    a.iter_data().collect()
}

fn check_equal(a: &Assembler, m: &Model, after: &AOp) -> Result<(), Fail> {
    let got = observe(a);
    vensure!(
        got == m.runs,
        "asm:ranges-differ",
        "after {:?}: assembler reports {:?}, model {:?}",
        after,
        got,
        m.runs
    );
    vensure!(a.is_empty() == m.runs.is_empty(), "asm:is_empty", "after {:?}: is_empty {} model runs {:?}", after, a.is_empty(), m.runs);
    let pf = match m.runs.first() {
        Some((0, n)) => *n,
        _ => 0,
    };
    vensure!(a.peek_front() == pf, "asm:peek_front", "after {:?}: peek_front {} model {}", after, a.peek_front(), pf);
    Ok(())
}

/// Apply one op to both and compare. Returns Ok(()) or the failure.
fn step(a: &mut Assembler, m: &mut Model, op: &AOp) -> Result<(), Fail> {
    match *op {
        AOp::Add(o, s) => {
            let want = m.with_add(o, s);
            let before = a.clone();
            match a.add(o, s) {
                Ok(()) => {
                    vensure!(want.runs.len() <= MAXSEG, "asm:accepted-over-limit", "add({},{}) accepted although result needs {} ranges", o, s, want.runs.len());
                    *m = want;
                }
                Err(_) => {
                    vensure!(
                        want.runs.len() > MAXSEG,
                        "asm:add-refused-under-limit",
                        "add({},{}) refused on {:?} although the result {:?} needs only {} <= {} ranges",
                        o,
                        s,
                        m.runs,
                        want.runs,
                        want.runs.len(),
                        MAXSEG
                    );
                    vensure!(*a == before, "asm:refused-add-changed-state", "add({},{}) refused but tracker changed: {:?} -> {:?}", o, s, observe(&before), observe(a));
                }
            }
        }
        AOp::RemoveFront => {
            let got = a.remove_front();
            let want = m.remove_front();
            vensure!(got == want, "asm:remove_front-value", "remove_front returned {} model {}", got, want);
        }
        AOp::AddThenRemoveFront(o, s) => {
            let mut want = m.with_add(o, s);
            let before = a.clone();
            match a.add_then_remove_front(o, s) {
                Ok(n) => {
                    // the intermediate result may exceed the limit only in the offset-0 fast path,
                    // where the final result does not
                    let wn = want.remove_front();
                    vensure!(n == wn, "asm:add_then_remove_front-value", "add_then_remove_front({},{}) returned {} model {}", o, s, n, wn);
                    vensure!(want.runs.len() <= MAXSEG, "asm:accepted-over-limit", "add_then_remove_front({},{}) result needs {} ranges", o, s, want.runs.len());
                    *m = want;
                }
                Err(_) => {
                    vensure!(o != 0, "asm:add_then_remove_front-offset0-failed", "add_then_remove_front(0,{}) failed on {:?}", s, m.runs);
                    vensure!(
                        want.runs.len() > MAXSEG,
                        "asm:add-refused-under-limit",
                        "add_then_remove_front({},{}) refused on {:?} although add needs only {} ranges",
                        o,
                        s,
                        m.runs,
                        want.runs.len()
                    );
                    vensure!(*a == before, "asm:refused-add-changed-state", "add_then_remove_front({},{}) refused but tracker changed", o, s);
                }
            }
        }
        AOp::Clear => {
            a.clear();
            m.runs.clear();
        }
    }
    check_equal(a, m, op)
}

fn run_ops(ops: &[AOp], ctx: &mut Ctx) -> Result<(), Fail> {
    let mut a = Assembler::new();
    let mut m = Model::new();
    let mut max_runs = 0;
    let mut refused = false;
    for op in ops {
        ctx.note(|| format!("{:?} on {:?}", op, m.runs));
        if m.runs.len() >= 2 {
            ctx.nontrivial = true;
        }
        let before = m.runs.len();
        step(&mut a, &mut m, op)?;
        max_runs = max_runs.max(m.runs.len());
        if let AOp::Add(..) | AOp::AddThenRemoveFront(..) = op {
            if m.runs.len() == before && before == MAXSEG {
                refused = true;
            }
        }
    }
    if max_runs >= MAXSEG {
        ctx.label("asm:limit-reached");
    }
    if refused {
        ctx.label("asm:at-limit-op");
    }
    if max_runs >= 2 {
        ctx.label("asm:multi-run");
    }
    Ok(())
}

fn gen_op(src: &mut Src, u: usize) -> AOp {
    let pos = |src: &mut Src| src.usize(0, u);
    let len = |src: &mut Src| match src.weighted(&[4, 2, 1]) {
        0 => src.usize(0, 4),
        1 => src.usize(0, u / 8 + 1),
        _ => src.usize(0, u),
    };
    match src.weighted(&[8, 2, 4, 1]) {
        0 => AOp::Add(pos(src), len(src)),
        1 => AOp::RemoveFront,
        2 => {
            if src.chance(1, 2) {
                AOp::AddThenRemoveFront(0, len(src))
            } else {
                AOp::AddThenRemoveFront(pos(src), len(src))
            }
        }
        _ => AOp::Clear,
    }
}

fn asm_random(src: &mut Src, ctx: &mut Ctx) -> Result<(), Fail> {
    let u = *src.pick(&[8usize, 16, 64, 256, 4096]);
    let mut ops = vec![];
    // optionally start by building many islands so that the limit is reached
    if src.chance(1, 2) {
        let n = src.usize(1, MAXSEG + 2);
        let stride = (u / (MAXSEG + 3)).max(2);
        let mut order: Vec<usize> = (0..n).collect();
        // draw a permutation
        for i in (1..order.len()).rev() {
            let j = src.usize(0, i);
            order.swap(i, j);
        }
        for k in order {
            ops.push(AOp::Add(k * stride + 1, 1 + src.usize(0, stride.saturating_sub(2).min(3))));
        }
    }
    while ops.len() < 120 && src.more(24, 25) {
        ops.push(gen_op(src, u));
    }
    ctx.digest.str(&format!("{:?}", ops));
    ctx.note(|| format!("universe {} max segments {}", u, MAXSEG));
    run_ops(&ops, ctx)
}

/// replayable form of an enumerated path: [n, (kind, o, s)*]
fn asm_path(src: &mut Src, ctx: &mut Ctx) -> Result<(), Fail> {
    let n = src.usize(0, 64);
    let mut ops = vec![];
    for _ in 0..n {
        let k = src.usize(0, 3);
        let o = src.usize(0, 64);
        let s = src.usize(0, 64);
        ops.push(match k {
            0 => AOp::Add(o, s),
            1 => AOp::RemoveFront,
            2 => AOp::AddThenRemoveFront(o, s),
            _ => AOp::Clear,
        });
    }
    ctx.digest.str(&format!("{:?}", ops));
    run_ops(&ops, ctx)
}

fn op_to_tape(op: &AOp) -> [u64; 3] {
    match *op {
        AOp::Add(o, s) => [0, o as u64, s as u64],
        AOp::RemoveFront => [1, 0, 0],
        AOp::AddThenRemoveFront(o, s) => [2, o as u64, s as u64],
        AOp::Clear => [3, 0, 0],
    }
}

fn bfs(env: &RunEnv) -> PhaseResult {
    // Universe size: with a limit of 4 ranges U=14 reaches the limit from every side;
    // with 32 ranges the limit needs U>=63, far too many states, so the BFS checks
    // plain set semantics there (limit exercised by the random part).
    let u: usize = if MAXSEG <= 4 {
        if env.tier == Tier::Quick { 12 } else { 14 }
    } else if env.tier == Tier::Quick {
        10
    } else {
        12
    };
    let mut all_ops = vec![AOp::RemoveFront, AOp::Clear];
    for o in 0..u {
        for s in 0..=(u - o) {
            all_ops.push(AOp::Add(o, s));
            all_ops.push(AOp::AddThenRemoveFront(o, s));
        }
    }
    // state table
    struct Node {
        asm: Assembler,
        model: Model,
        parent: Option<(usize, AOp)>,
    }
    let mut nodes: Vec<Node> = vec![Node {
        asm: Assembler::new(),
        model: Model::new(),
        parent: None,
    }];
    let mut index: HashMap<Model, usize> = HashMap::new();
    index.insert(Model::new(), 0);
    let mut transitions = 0u64;
    let mut nontrivial = 0u64;
    let mut refusals = 0u64;
    let mut failures = vec![];
    let mut i = 0;
    'outer: while i < nodes.len() {
        for op in &all_ops {
            let mut a = nodes[i].asm.clone();
            let mut m = nodes[i].model.clone();
            transitions += 1;
            if m.runs.len() >= 2 {
                nontrivial += 1;
            }
            let before_runs = m.runs.clone();
            let r = vkit::runner::guarded(|| step(&mut a, &mut m, op));
            let fail = match r {
                Ok(Ok(())) => None,
                Ok(Err(f)) => Some(f),
                Err(p) => Some(Fail::new(vkit::runner::panic_key(&p), format!("panic at {}:{}: {}", p.file, p.line, p.msg))),
            };
            if let Some(f) = fail {
                // reconstruct the path
                let mut path = vec![op.clone()];
                let mut cur = i;
                while let Some((p, o)) = nodes[cur].parent.clone() {
                    path.push(o);
                    cur = p;
                }
                path.reverse();
                let mut tape = vec![path.len() as u64];
                for o in &path {
                    tape.extend(op_to_tape(o));
                }
                if !failures.iter().any(|x: &(String, Vec<u64>, Fail)| x.2.key == f.key) {
                    failures.push(("asm_path".to_string(), tape, f));
                }
                if failures.len() >= 5 {
                    break 'outer;
                }
                continue;
            }
            if m.runs == before_runs {
                if let AOp::Add(_, s) | AOp::AddThenRemoveFront(_, s) = op {
                    if *s > 0 && m.with_add(0, 0).runs.len() == MAXSEG {
                        refusals += 1;
                    }
                }
            }
            if !index.contains_key(&m) {
                index.insert(m.clone(), nodes.len());
                nodes.push(Node {
                    asm: a,
                    model: m,
                    parent: Some((i, op.clone())),
                });
            }
        }
        i += 1;
    }
    let max_runs = nodes.iter().map(|n| n.model.runs.len()).max().unwrap_or(0);
    PhaseResult {
        name: format!("assembler BFS over universe 0..{} with max {} ranges", u, MAXSEG),
        evaluations: transitions,
        nontrivial,
        exhaustive: failures.is_empty(),
        failures,
        extra: json!({
            "universe": u, "max_segments": MAXSEG, "states": nodes.len(), "transitions": transitions,
            "ops_per_state": all_ops.len(), "max_runs_in_a_state": max_runs, "ops_at_limit_without_change": refusals,
        }),
        samples: vec![json!({
            "phase": "assembler BFS",
            "example_state": format!("{:?}", nodes.get(nodes.len() / 2).map(|n| n.model.runs.clone())),
            "example_ops": format!("{:?}", &all_ops[..6.min(all_ops.len())]),
        })],
    }
}

pub fn prop() -> Prop {
    Prop {
        id: "C15",
        parts: vec![
            Part { name: "asm_random", case: asm_random, quick: 150_000, thorough: 6_000_000 },
            Part { name: "asm_path", case: asm_path, quick: 20_000, thorough: 400_000 },
        ],
        phases: vec![bfs],
        smoltcp_panic_is_violation: true,
        rule: "breadth-first enumeration of every reachable tracker state over a bounded universe applying every add/add_then_remove_front(offset,size), remove_front and clear to each state, plus random op sequences (<=120 ops) over universes up to 4096; oracle = sorted disjoint range-list model with shift-down on front removal; a transition/case is non-trivial when an op was applied to a state with >= 2 ranges; run for ASSEMBLER_MAX_SEGMENT_COUNT 4 and (second build) 32",
        assumptions: vec![
            "the tracker state is canonical for a given set of ranges (BFS visits each model state once)",
            "offsets/sizes stay far below usize::MAX (no arithmetic overflow in the universe explored)",
        ],
    }
}
