//! C19 - DNS answers are only taken from matching responses; queries terminate.
//!
//! One `dns::Socket` behind an interface on Medium::Ip (3/4 of the cases) or
//! Medium::Ethernet (scripted neighbours that answer ARP / neighbour
//! solicitations at once, late or never), 0-3 configured servers, 1-3 queries
//! (A/AAAA, unicast DNS and `.local` mDNS) and a scripted resolver that answers
//! each query datagram seen on the wire - late, never, or with a response in
//! which the attributes the socket has to match are drawn right or wrong. All
//! packets are built and judged with the independent codecs in `vkit::indep`
//! (Ethernet/ARP/NDISC/IP/UDP) and `c19_dns.rs` (DNS, written from RFC 1035).
//!
//! Oracle (see DESIGN.md C19):
//!  (a) `get_query_result` = Ok(addresses) needs one datagram, delivered while
//!      the query was pending, that comes from port 53 of a configured server
//!      or from the mDNS port, goes to the query's source port, carries its
//!      transaction id and repeats its question name and type, and the
//!      addresses must be a non-empty subset of what the reference resolver
//!      takes from that datagram            -> answer-from-nonmatching-response:<attr>,
//!                                             completed-ok-without-addresses
//!  (b) every query is Ok/Failed within 20 s x servers + 1 s of virtual time
//!      when the interface is polled at `poll_at` (and on datagram arrival)
//!                                          -> query-never-completes,
//!                                             (label only) observed:query-blocked-behind-other-queries,
//!                                             pending-query-no-deadline,
//!                                             poll_at-does-not-advance
//!      retransmissions repeat the question -> retransmit-question-changed:<what>
//!      and (Medium::Ip, distinct servers) back off and change server only
//!      after 10 s                          -> retransmit-without-back-off,
//!                                             failover-before-timeout
//!  (c) no panic (runner), no hang (wall-clock watchdog around every call into
//!      smoltcp)                            -> hang
//!
//! Development knob: VERIF_C19_PAST=all|<key prefixes> (see `report`).

use smoltcp::iface::SocketHandle;
use smoltcp::socket::dns::{self, GetQueryResultError, MulticastDns, QueryHandle};
use smoltcp::wire::{DnsQueryType, IpCidr};
use vkit::indep::*;
use vkit::runner::{Fail, Part, Prop};
use vkit::sim::{us, Hw, Node};
use vkit::{Ctx, Src};

#[path = "c19_dns.rs"]
mod rdns;
use rdns::*;

const SEC: i64 = 1_000_000;
const MAX_ITERS: usize = 600;
/// CPU time a single call into the DNS socket / parser may consume before it counts as
/// not terminating (a legitimate call needs microseconds)
const HANG_CPU_MS: u64 = 5_000;

// ------------------------------------------------------------------ watchdog
//
// A loop inside smoltcp never returns to the case function, so every call into smoltcp is
// bracketed by arm()/disarm() of vkit::hang: its watchdog thread judges the CPU time the
// call consumes (never the wall-clock time), writes the tape drawn so far as a replay
// file, prints the violation and ends the process with the violation exit code.

fn arm(src: &Src, what: &'static str) {
    vkit::hang::arm(src, "C19", "resolver", what, "hang", HANG_CPU_MS);
}
fn disarm() -> u64 {
    vkit::hang::disarm()
}

/// Run one call into smoltcp under the watchdog. A panic unwinds through here
/// to the runner (which attributes it); the slot is disarmed by the next arm().
fn watched<T>(src: &Src, what: &'static str, f: impl FnOnce() -> T) -> Result<T, Fail> {
    arm(src, what);
    struct Guard;
    impl Drop for Guard {
        fn drop(&mut self) {
            let _ = vkit::hang::disarm();
        }
    }
    let g = Guard;
    let r = f();
    std::mem::forget(g);
    let _ms = disarm();
    let _ = what;
    Ok(r)
}

/// `ctx.report`, plus a development knob: with VERIF_C19_PAST=all (or a comma
/// separated list of key prefixes) those violations are only labelled
/// ("violation:<key>") and the case goes on, which shows what the generator
/// reaches behind findings that are not (yet) registered as known. Ignored in
/// replay (strict) mode.
fn report(ctx: &mut Ctx, f: Fail) -> Result<(), Fail> {
    static PAST: std::sync::OnceLock<Vec<String>> = std::sync::OnceLock::new();
    let past = PAST.get_or_init(|| std::env::var("VERIF_C19_PAST").map(|v| v.split(',').map(|s| s.to_string()).collect()).unwrap_or_default());
    if !ctx.strict && past.iter().any(|p| p == "all" || p == "1" || f.key.starts_with(p.as_str())) {
        ctx.label(&format!("violation:{}", f.key));
        return Ok(());
    }
    ctx.report(f)
}

// ------------------------------------------------------------------ world

struct Tx {
    t: i64,
    dst: Ip,
}

struct Query {
    name: Name,
    qtype: u16,
    mdns: bool,
    handle: QueryHandle,
    start_us: i64,
    start_poll: usize,
    /// (source port, transaction id) read off the first datagram of the query
    ident: Option<(u16, u16)>,
    nsrv: usize,
    deadline_us: i64,
    /// bound that also allows for waiting behind every other query of the case (see `blocked_reported`)
    hard_deadline_us: i64,
    blocked_reported: bool,
    done: bool,
    tx: Vec<Tx>,
    /// CNAME targets used in responses built for this query
    cname_targets: Vec<Name>,
    /// last question name seen on the wire (None: undecodable)
    wire_name: Option<Name>,
    mood: usize,
    /// the question on the wire stopped being the query's question
    wire_changed: bool,
}

#[derive(Clone)]
struct Datagram {
    src: Ip,
    dst: Ip,
    sport: u16,
    dport: u16,
    payload: Vec<u8>,
    what: String,
    /// pointer / odd name encodings the builder wrote ("ptr:backward", ...)
    kinds: Vec<&'static str>,
}

struct Event {
    t: i64,
    d: Datagram,
    target: Option<usize>,
}

struct World {
    node: Node,
    handle: SocketHandle,
    now: i64,
    polls: usize,
    servers: Vec<Ip>,
    dup_servers: bool,
    locals: Vec<Ip>,
    queries: Vec<Query>,
    events: Vec<Event>,
    delivered: Vec<(usize, Datagram)>,
    addr_counter: u32,
    near_miss: bool,
    rich_answer: bool,
    /// Medium::Ethernet: the node's MAC address
    eth: Option<[u8; 6]>,
    /// 0 neighbours answer ARP/NS at once, 1 never, 2 late
    link_mood: usize,
    /// link-layer frames (ARP replies, neighbour advertisements) in flight
    l2_events: Vec<(i64, Vec<u8>, String)>,
}

fn mac_of(ip: &Ip) -> [u8; 6] {
    match ip {
        Ip::V4(a) => [0x02, 0x04, a[0], a[1], a[2], a[3]],
        Ip::V6(a) => [0x02, 0x06, a[0], a[1], a[14], a[15]],
    }
}

fn on_link(ip: &Ip) -> bool {
    match ip {
        Ip::V4(a) => a[0..3] == [10, 0, 0],
        Ip::V6(a) => (a[0] == 0xfd && a[1] == 0 && a[2..8] == [0; 6]) || (a[0] == 0xfe && a[1] == 0x80),
    }
}

const GW4: Ip = Ip::V4([10, 0, 0, 254]);
fn gw6() -> Ip {
    Ip::v6([0xfd00, 0, 0, 0, 0, 0, 0, 0xfe])
}

const MDNS4: Ip = Ip::V4([224, 0, 0, 251]);
fn mdns6() -> Ip {
    Ip::v6([0xff02, 0, 0, 0, 0, 0, 0, 0xfb])
}

const LABELS: [&str; 10] = ["a", "b", "www", "example", "com", "net", "host", "x", "mail", "local"];

fn gen_label(src: &mut Src, exotic: bool) -> Vec<u8> {
    if exotic && src.chance(1, 8) {
        match src.weighted(&[2, 1, 1, 1]) {
            0 => vec![b'z'; 63],
            1 => vec![b'A', b'b'],
            2 => vec![0u8, b'.', 0xff],
            _ => vec![b'q'; src.usize(1, 63)],
        }
    } else {
        src.pick(&LABELS[..9]).as_bytes().to_vec()
    }
}

fn gen_name(src: &mut Src, exotic: bool) -> Name {
    let n = 1 + src.weighted(&[3, 4, 2, 1]);
    (0..n).map(|_| gen_label(src, exotic)).collect()
}

impl World {
    fn sock(&mut self) -> &mut dns::Socket<'static> {
        self.node.sockets.get_mut::<dns::Socket>(self.handle)
    }
    fn fresh_a(&mut self) -> [u8; 4] {
        self.addr_counter += 1;
        [198, 18, (self.addr_counter >> 8) as u8, self.addr_counter as u8]
    }
    fn fresh_aaaa(&mut self) -> [u8; 16] {
        self.addr_counter += 1;
        let mut a = [0u8; 16];
        a[0] = 0x20;
        a[1] = 0x01;
        a[2] = 0x0d;
        a[3] = 0xb8;
        a[4] = 0xff;
        a[14] = (self.addr_counter >> 8) as u8;
        a[15] = self.addr_counter as u8;
        a
    }
    fn stranger(&self, v4: bool, k: usize) -> Ip {
        if v4 {
            [Ip::V4([10, 0, 0, 99]), Ip::V4([203, 0, 113, 7])][k % 2]
        } else {
            [Ip::v6([0xfd00, 0, 0, 0, 0, 0, 0, 0x99]), Ip::v6([0x2001, 0xdb8, 0, 0, 0, 0, 0, 0x99])][k % 2]
        }
    }
    fn expected_dsts(&self, q: &Query) -> Vec<Ip> {
        if q.mdns {
            vec![mdns6(), MDNS4]
        } else {
            self.servers.clone()
        }
    }
}

// ------------------------------------------------------------------ matching (oracle side)

struct Verdict {
    /// attributes named in the statement that this datagram gets wrong for the query
    hard: Vec<&'static str>,
    /// attributes the statement is silent about (the socket may or may not insist on them)
    soft: Vec<&'static str>,
    msg: Option<Msg>,
}

fn judge(servers: &[Ip], q: &Query, d: &Datagram) -> Verdict {
    let mut hard = vec![];
    let mut soft = vec![];
    // "from port 53 of a configured server (or from the mDNS port)"
    if d.sport == 5353 {
        if !q.mdns {
            soft.push("mdns-port-for-unicast-query");
        }
    } else if d.sport == 53 {
        if !servers.contains(&d.src) {
            hard.push("src-addr");
        } else if q.mdns {
            soft.push("server-port-for-mdns-query");
        }
    } else {
        hard.push("src-port");
    }
    match q.ident {
        None => hard.push("query-never-sent"),
        Some((port, txid)) => {
            if d.dport != port {
                hard.push("dst-port");
            }
            match decode_msg(&d.payload) {
                None => hard.push("no-header"),
                Some(m) => {
                    if m.hdr.id != txid {
                        hard.push("txid");
                    }
                    // "repeats its question name and type": some question of the section does
                    let mut found = false;
                    for qu in &m.questions {
                        if let Ok(n) = &qu.name {
                            if name_eq_ci(n, &q.name) && qu.qtype == q.qtype {
                                found = true;
                                if *n != q.name {
                                    soft.push("question-case");
                                }
                                if qu.qclass != C_IN {
                                    soft.push("question-class");
                                }
                                break;
                            }
                        }
                    }
                    if !found {
                        match m.questions.first() {
                            None => hard.push("question-missing"),
                            Some(qu) => match &qu.name {
                                Err(_) => hard.push("question-malformed"),
                                Ok(n) => {
                                    if !name_eq_ci(n, &q.name) {
                                        hard.push("question-name");
                                    }
                                    if qu.qtype != q.qtype {
                                        hard.push("question-type");
                                    }
                                }
                            },
                        }
                    }
                    if m.hdr.qd != 1 {
                        soft.push("question-count");
                    }
                    if !m.hdr.qr() {
                        soft.push("qr");
                    }
                    if m.hdr.opcode() != 0 {
                        soft.push("opcode");
                    }
                    if m.hdr.rcode() != 0 {
                        soft.push("rcode");
                    }
                    if m.hdr.tc() {
                        soft.push("tc");
                    }
                    if !m.an_complete {
                        soft.push("answer-section-incomplete");
                    }
                    return Verdict { hard, soft, msg: Some(m) };
                }
            }
        }
    }
    Verdict { hard, soft, msg: None }
}

fn subset(a: &[Ip], b: &[Ip]) -> bool {
    a.iter().all(|x| b.contains(x))
}

fn fmt_addrs(a: &[Ip]) -> String {
    a.iter().map(|x| x.to_string()).collect::<Vec<_>>().join(", ")
}

fn tname(t: u16) -> String {
    match t {
        T_A => "A".into(),
        T_AAAA => "AAAA".into(),
        T_CNAME => "CNAME".into(),
        x => format!("TYPE{}", x),
    }
}

/// Oracle (a) for a query that just completed with addresses.
fn check_answer(w: &World, qi: usize, addrs: &[Ip], ctx: &mut Ctx) -> Result<(), Fail> {
    let q = &w.queries[qi];
    let qdesc = format!(
        "query #{} {} {}{} (port/txid {:?})",
        qi,
        name_to_string(&q.name),
        tname(q.qtype),
        if q.mdns { " mDNS" } else { "" },
        q.ident
    );
    if addrs.is_empty() {
        return report(ctx, Fail::new("completed-ok-without-addresses", format!("{} completed Ok with an empty address list", qdesc)));
    }
    let window: Vec<&Datagram> = w.delivered.iter().filter(|(p, _)| *p >= q.start_poll).map(|(_, d)| d).collect();
    for d in &window {
        let v = judge(&w.servers, q, d);
        if !v.hard.is_empty() {
            continue;
        }
        let m = v.msg.as_ref().unwrap();
        let (reference, chain) = reference_addresses(&d.payload, m, &q.name);
        if subset(addrs, &reference) {
            ctx.label("completed-ok");
            for s in &v.soft {
                ctx.label(&format!("ok-despite:{}", s));
            }
            if chain > 0 {
                ctx.label(&format!("ok-via-cname-chain:{}", chain.min(3)));
            }
            if addrs.iter().any(|a| a.is_v4() != (q.qtype == T_A)) {
                ctx.label("ok-address-family-differs-from-qtype");
            }
            if addrs.len() < reference.len() {
                ctx.label("ok-proper-subset-of-reference");
            }
            return Ok(());
        }
    }
    // unexplained: name the attribute(s) of the datagram the addresses came from
    let mut best: Option<(usize, &Datagram, Verdict)> = None;
    for d in window.iter().rev() {
        let v = judge(&w.servers, q, d);
        let Some(m) = &v.msg else { continue };
        if !subset(addrs, &all_addresses(&d.payload, m)) {
            continue;
        }
        let n = v.hard.len();
        if best.as_ref().map(|b| n < b.0).unwrap_or(true) {
            best = Some((n, d, v));
        }
    }
    let (sub, detail) = match &best {
        None => ("no-source".to_string(), "no datagram delivered while the query was pending holds these addresses".to_string()),
        Some((_, d, v)) => {
            let mut sub = if v.hard.is_empty() { "record-owner".to_string() } else { v.hard.join("+") };
            if v.hard == ["question-name"] {
                // Signature of the pending-name rewrite (see findings): the accepted response asks
                // for a name that an earlier response to this query (right addresses, port and id)
                // gave as a CNAME target. Kept apart so that registering that finding as known does
                // not also hide a missing question-name comparison.
                let asked = v.msg.as_ref().and_then(|m| m.questions.first()).and_then(|qu| qu.name.clone().ok());
                let earlier_target = asked.is_some()
                    && window.iter().any(|e| {
                        let ve = judge(&w.servers, q, e);
                        let transport_ok = !ve.hard.iter().any(|h| matches!(*h, "src-addr" | "src-port" | "dst-port" | "txid" | "no-header"));
                        transport_ok
                            && ve.msg.as_ref().map_or(false, |m| {
                                m.answers.iter().any(|r| r.rtype == T_CNAME && decode_name(&e.payload, r.rdata_off).map_or(false, |t| name_eq_ci(&t, asked.as_ref().unwrap())))
                            })
                    });
                if earlier_target {
                    sub = "question-name:earlier-cname-target".to_string();
                }
            }
            (
                sub,
                format!(
                    "they come from the datagram {}:{} -> port {} [{}] which mismatches the query in: {}{}",
                    d.src,
                    d.sport,
                    d.dport,
                    describe(&d.payload),
                    if v.hard.is_empty() { "nothing, but the records are not owned by the queried name or a name on its CNAME chain".to_string() } else { v.hard.join(", ") },
                    if q.wire_changed { format!("; the question on the wire had changed to {:?}", q.wire_name.as_ref().map(name_to_string)) } else { String::new() }
                ),
            )
        }
    };
    report(ctx, Fail::new(
        format!("answer-from-nonmatching-response:{}", sub),
        format!("{} completed with [{}] but no matching response explains that: {}", qdesc, fmt_addrs(addrs), detail),
    ))
}

// ------------------------------------------------------------------ scripted resolver

const ATTRS: [&str; 15] = [
    "src-addr", "src-port", "dst-port", "txid", "qname", "qtype", "qdcount", "qr", "opcode", "rcode", "qclass", "tc", "cut", "ancount", "garbage",
];
const ATTR_W: [u32; 15] = [3, 3, 3, 3, 5, 3, 2, 1, 1, 2, 1, 1, 2, 1, 1];

fn flip_case(n: &Name) -> Name {
    n.iter()
        .map(|l| {
            l.iter()
                .map(|b| if b.is_ascii_lowercase() { b.to_ascii_uppercase() } else { b.to_ascii_lowercase() })
                .collect()
        })
        .collect()
}

fn draw_enc(src: &mut Src, style: usize) -> Enc {
    match style {
        0 => Enc::Plain,
        1 => Enc::Compress,
        2 => *src.pick(&[Enc::Plain, Enc::Compress, Enc::Chain, Enc::Forward, Enc::LabelThenForward]),
        _ => *src.pick(&[
            Enc::Compress,
            Enc::Plain,
            Enc::Chain,
            Enc::Forward,
            Enc::LabelThenForward,
            Enc::SelfPtr,
            Enc::Loop,
            Enc::OutOfRange,
            Enc::BadType,
            Enc::NoTerminator,
        ]),
    }
}

/// Build one datagram aimed at query `qi` (whose identity is known), in reply to
/// a query datagram sent from `node_addr` to `asked`.
fn gen_response(src: &mut Src, ctx: &mut Ctx, w: &mut World, qi: usize, node_addr: Ip, asked: Ip, forced: Option<usize>) -> Datagram {
    let (port, txid) = w.queries[qi].ident.expect("identity known");
    let qname = w.queries[qi].name.clone();
    let qtype = w.queries[qi].qtype;
    let mdns = w.queries[qi].mdns;
    let mood = w.queries[qi].mood;
    let v4 = node_addr.is_v4();

    // ---- which attributes are wrong
    let mut wrong: Vec<usize> = vec![];
    if let Some(a) = forced {
        wrong.push(a);
    } else {
        let n = if mood == 0 { src.weighted(&[6, 3, 1]) } else { src.weighted(&[3, 6, 2]) };
        for _ in 0..n {
            // (a replayed tape that ran out yields 0 for ever: never loop on a draw)
            let mut a = src.weighted(&ATTR_W);
            while wrong.contains(&a) {
                a = (a + 1) % ATTRS.len();
            }
            wrong.push(a);
        }
    }
    let has = |a: &str| wrong.iter().any(|i| ATTRS[*i] == a);

    // ---- transport
    let mut from = if mdns || asked.is_multicast() { w.stranger(v4, 0) } else { asked };
    let mut sport: u16 = if mdns { 5353 } else { 53 };
    let mut dport = port;
    let mut id = txid;
    if has("src-addr") {
        let others: Vec<Ip> = w.servers.iter().filter(|s| s.is_v4() == v4 && **s != from && !s.is_unspecified()).cloned().collect();
        from = if !others.is_empty() && src.chance(1, 3) { *src.pick(&others) } else { w.stranger(v4, src.usize(0, 1) + 1) };
        if mdns {
            // any host may answer mDNS: the wrong combination is "not a server, port 53"
            sport = 53;
        }
    }
    if has("src-port") {
        sport = match src.weighted(&[3, 1, 1, 1, 1, 1]) {
            0 => {
                if mdns {
                    53
                } else {
                    5353
                }
            }
            1 => 54,
            2 => 52,
            3 => 1053,
            4 => 0,
            _ => src.u16(),
        };
    }
    if has("dst-port") {
        let other: Vec<u16> = w.queries.iter().filter_map(|o| o.ident).map(|i| i.0).filter(|p| *p != port).collect();
        dport = match src.weighted(&[2, 2, 1, 2]) {
            0 => port.wrapping_add(1),
            1 => port.wrapping_sub(1),
            2 => src.u16(),
            _ => {
                if other.is_empty() {
                    port ^ 0x0100
                } else {
                    *src.pick(&other)
                }
            }
        };
    }
    if has("txid") {
        let other: Vec<u16> = w.queries.iter().filter_map(|o| o.ident).map(|i| i.1).filter(|t| *t != txid).collect();
        id = match src.weighted(&[2, 2, 1, 1, 2]) {
            0 => txid.wrapping_add(1),
            1 => txid.wrapping_sub(1),
            2 => src.u16(),
            3 => txid.swap_bytes(),
            _ => {
                if other.is_empty() {
                    txid ^ 0x8000
                } else {
                    *src.pick(&other)
                }
            }
        };
    }

    if has("garbage") {
        let n = src.usize(0, 40);
        let mut payload = src.bytes(n);
        if payload.len() >= 2 && src.bool() {
            payload[0..2].copy_from_slice(&id.to_be_bytes());
        }
        ctx.label("resp:garbage-payload");
        let what = format!("{} garbage bytes", payload.len());
        return Datagram { src: from, dst: node_addr, sport, dport, payload, what, kinds: vec![] };
    }

    // ---- header
    let mut flags: u16 = 0x8180; // QR, RD, RA
    if src.chance(1, 4) {
        flags |= 0x0400; // AA
    }
    if has("qr") {
        flags &= !0x8000;
    }
    if has("opcode") {
        flags |= (*src.pick(&[1u16, 2, 4, 15])) << 11;
    }
    if has("rcode") {
        flags |= *src.pick(&[3u16, 2, 5, 1, 15]);
    }
    if has("tc") {
        flags |= 0x0200;
    }

    // ---- question
    // After a rejected response the socket may be asking for a different name
    // (see findings); some responses are then built for what is on the wire now.
    let wire_name = w.queries[qi].wire_name.clone();
    let mut base = qname.clone();
    if let Some(wn) = &wire_name {
        if *wn != qname && src.chance(1, 2) {
            base = wn.clone();
            ctx.label("resp:for-name-on-the-wire");
        }
    }
    let style = src.weighted(&[3, 3, 2, 2]);
    let mut q_name = base.clone();
    let mut ans_base = base.clone();
    let mut q_enc = Enc::Plain;
    let mut q_type = qtype;
    let mut q_class = C_IN;
    if has("qname") {
        match src.weighted(&[4, 2, 1, 1, 1, 1, 2]) {
            0 => {
                // a different name: prefer one this exchange has already put into a CNAME
                let mut pool: Vec<Name> = w.queries[qi].cname_targets.clone();
                if let Some(wn) = &wire_name {
                    if *wn != qname {
                        pool.push(wn.clone());
                    }
                }
                pool.retain(|n| *n != q_name && !n.is_empty());
                q_name = if !pool.is_empty() && src.chance(2, 3) { src.pick(&pool).clone() } else { gen_name(src, false) };
                if name_eq_ci(&q_name, &base) {
                    q_name.insert(0, b"other".to_vec());
                }
                // half of these are honest responses to that *other* question (answers owned by
                // the other name), half keep the answers for the query's own name
                if src.bool() {
                    ans_base = q_name.clone();
                    ctx.label("resp:for-another-question-altogether");
                }
            }
            1 => {
                q_name = flip_case(&base);
            }
            2 => {
                q_name = base[1.min(base.len())..].to_vec();
            }
            3 => {
                q_name = base[..base.len().saturating_sub(1)].to_vec();
            }
            4 => {
                q_name.insert(0, gen_label(src, false));
            }
            5 => {
                q_name = vec![];
            }
            _ => {
                q_enc = *src.pick(&[Enc::Forward, Enc::LabelThenForward, Enc::SelfPtr, Enc::Loop, Enc::OutOfRange, Enc::BadType, Enc::NoTerminator]);
            }
        }
    } else if style >= 2 && src.chance(1, 4) {
        q_enc = *src.pick(&[Enc::Forward, Enc::LabelThenForward]);
    }
    if has("qtype") {
        q_type = match src.weighted(&[3, 1, 1, 1]) {
            0 => {
                if qtype == T_A {
                    T_AAAA
                } else {
                    T_A
                }
            }
            1 => T_CNAME,
            2 => 255,
            _ => 0,
        };
    }
    if has("qclass") {
        q_class = *src.pick(&[3u16, 255, 0]);
    }
    // (header count, questions written, matching one last)
    let (qd_hdr, qd_written, second_first) = if has("qdcount") {
        *src.pick(&[(0u16, 0usize, false), (2, 2, false), (2, 2, true), (0, 1, false), (2, 1, false), (1, 0, false), (1, 2, true)])
    } else {
        (1, 1, false)
    };

    // ---- answer section (built for `base`, independent of the question mutations)
    let mut recs: Vec<Rec> = vec![];
    let fam_a = qtype == T_A;
    let plan = src.weighted(&[5, 5, 2, 1, 1]);
    let base = ans_base;
    let mut chain_names: Vec<Name> = vec![base.clone()];
    let mk_addr = |w: &mut World, owner: &Name, enc: Enc, a_type: bool| -> Rec {
        if a_type {
            Rec { owner: owner.clone(), enc, rtype: T_A, class: C_IN, ttl: 60, data: RData::A(w.fresh_a()), rdlen_delta: 0 }
        } else {
            Rec { owner: owner.clone(), enc, rtype: T_AAAA, class: C_IN, ttl: 60, data: RData::Aaaa(w.fresh_aaaa()), rdlen_delta: 0 }
        }
    };
    match plan {
        0 => {
            // direct answer
            let n = 1 + src.weighted(&[4, 2, 1, 1, 1]);
            for _ in 0..n {
                let e = draw_enc(src, style);
                recs.push(mk_addr(w, &base, e, fam_a));
            }
        }
        1 | 2 => {
            // CNAME chain of length 1..=3, then address records (plan 2: of the wrong kind)
            let k = 1 + src.weighted(&[4, 3, 2]);
            for i in 0..k {
                let mut target = if i > 0 && src.chance(1, 12) { chain_names[src.usize(0, i - 1)].clone() } else { gen_name(src, style == 3) };
                if target.is_empty() {
                    target = vec![b"t".to_vec()];
                }
                // one target in four is padded to a wire length of 252..=259 octets, around the 255-octet
                // limit of a domain name and of the socket's name buffer (decided from the name's own
                // octets: no further draw). Whether the socket uses or drops such a response is its
                // business; it must not panic, and the safety and completion rules hold either way.
                let h: usize = target.iter().flatten().map(|b| *b as usize).sum();
                if h % 4 == 0 {
                    let want = 252 + (h / 4) % 8;
                    let mut have: usize = target.iter().map(|l| 1 + l.len()).sum::<usize>() + 1;
                    while have + 2 <= want {
                        let l = (want - have - 1).min(63);
                        target.insert(0, vec![b'p'; l]);
                        have += 1 + l;
                    }
                    ctx.label("resp:cname-target-near-255-octets");
                }
                let e1 = draw_enc(src, style);
                let e2 = draw_enc(src, style);
                recs.push(Rec { owner: chain_names[i].clone(), enc: e1, rtype: T_CNAME, class: C_IN, ttl: 60, data: RData::Cname(target.clone(), e2), rdlen_delta: 0 });
                chain_names.push(target);
            }
            let last = chain_names[k].clone();
            let n = 1 + src.weighted(&[4, 2, 1]);
            for _ in 0..n {
                let e = draw_enc(src, style);
                if plan == 1 {
                    recs.push(mk_addr(w, &last, e, fam_a));
                } else if src.bool() {
                    recs.push(mk_addr(w, &last, e, !fam_a));
                } else {
                    recs.push(Rec { owner: last.clone(), enc: e, rtype: *src.pick(&[T_TXT, T_NS, 6, 99]), class: C_IN, ttl: 60, data: RData::Raw(src.bytes(4)), rdlen_delta: 0 });
                }
            }
            match src.weighted(&[5, 2, 2]) {
                0 => {}
                1 => {
                    recs.reverse();
                    ctx.label("resp:chain-out-of-order");
                }
                _ => {
                    // rotate / swap two records
                    if recs.len() >= 2 {
                        let i = src.usize(0, recs.len() - 1);
                        let j = src.usize(0, recs.len() - 1);
                        recs.swap(i, j);
                        if i != j {
                            ctx.label("resp:chain-out-of-order");
                        }
                    }
                }
            }
            for t in &chain_names[1..] {
                if !w.queries[qi].cname_targets.contains(t) {
                    w.queries[qi].cname_targets.push(t.clone());
                }
            }
            ctx.label(&format!("resp:cname-chain:{}", k));
        }
        3 => {
            // records for unrelated names only
            let n = 1 + src.weighted(&[3, 2, 1]);
            for _ in 0..n {
                let mut o = gen_name(src, false);
                if name_eq_ci(&o, &base) {
                    o.insert(0, b"not".to_vec());
                }
                let e = draw_enc(src, style);
                recs.push(mk_addr(w, &o, e, fam_a));
            }
        }
        _ => {}
    }
    // noise records
    let mut noise = 0;
    while recs.len() < 8 && noise < 3 && src.more(1, 4) {
        noise += 1;
        let at = src.usize(0, recs.len());
        let e = draw_enc(src, style);
        let r = match src.weighted(&[3, 2, 2, 1, 1, 1]) {
            0 => {
                // address for an unrelated name (must be ignored)
                let mut o = gen_name(src, false);
                if chain_names.iter().any(|c| name_eq_ci(c, &o)) {
                    o.insert(0, b"not".to_vec());
                }
                ctx.label("resp:noise:unrelated-owner");
                mk_addr(w, &o, e, src.bool())
            }
            1 => {
                // CNAME of an unrelated name to a name of the chain or elsewhere
                let mut o = gen_name(src, false);
                if chain_names.iter().any(|c| name_eq_ci(c, &o)) {
                    o.insert(0, b"not".to_vec());
                }
                let t = if src.bool() { base.clone() } else { gen_name(src, false) };
                ctx.label("resp:noise:unrelated-cname");
                Rec { owner: o, enc: e, rtype: T_CNAME, class: C_IN, ttl: 60, data: RData::Cname(if t.is_empty() { vec![b"t".to_vec()] } else { t }, draw_enc(src, style)), rdlen_delta: 0 }
            }
            2 => {
                // record of another type at a chain name
                let o = src.pick(&chain_names).clone();
                ctx.label("resp:noise:other-type");
                let n = src.usize(0, 12);
                Rec { owner: o, enc: e, rtype: *src.pick(&[T_TXT, T_NS, 6, 41, 65535]), class: C_IN, ttl: 60, data: RData::Raw(src.bytes(n)), rdlen_delta: 0 }
            }
            3 => {
                // wrong class
                let o = src.pick(&chain_names).clone();
                ctx.label("resp:noise:wrong-class");
                let mut r = mk_addr(w, &o, e, fam_a);
                r.class = *src.pick(&[3u16, 4, 255, 0]);
                r
            }
            4 => {
                // address record with a wrong RDLENGTH
                let o = src.pick(&chain_names).clone();
                ctx.label("resp:noise:bad-rdlength");
                let mut r = mk_addr(w, &o, e, fam_a);
                r.rdlen_delta = *src.pick(&[1i32, -1, -4, 12, 3000]);
                r
            }
            _ => {
                // other family at a chain name
                let o = src.pick(&chain_names).clone();
                ctx.label("resp:noise:other-family");
                mk_addr(w, &o, e, !fam_a)
            }
        };
        recs.insert(at.min(recs.len()), r);
    }

    // ---- assemble
    let mut b = Builder::new(id, flags);
    let an_hdr: u16 = if has("ancount") {
        match src.weighted(&[2, 1, 1, 1]) {
            0 => recs.len() as u16 + 1,
            1 => recs.len() as u16 + 5,
            2 => 65535,
            _ => (recs.len() as u16).saturating_sub(1),
        }
    } else {
        recs.len() as u16
    };
    b.set_counts(qd_hdr, an_hdr, 0, 0);
    let other_q = {
        let mut o = gen_name_fixed(&base);
        if name_eq_ci(&o, &q_name) {
            o.insert(0, b"q2".to_vec());
        }
        o
    };
    match (qd_written, second_first) {
        (0, _) => {}
        (1, _) => b.put_question(&q_name, q_enc, q_type, q_class),
        (_, false) => {
            b.put_question(&q_name, q_enc, q_type, q_class);
            b.put_question(&other_q, Enc::Compress, q_type, C_IN);
        }
        (_, true) => {
            b.put_question(&other_q, Enc::Plain, q_type, C_IN);
            b.put_question(&q_name, q_enc, q_type, q_class);
        }
    }
    for r in &recs {
        b.put_record(r);
    }
    let (mut payload, kinds) = b.finish();
    for k in &kinds {
        ctx.label(&format!("resp:{}", k));
    }
    let mut cut_note = String::new();
    if has("cut") {
        let at = src.usize(0, payload.len().saturating_sub(1));
        payload.truncate(at);
        cut_note = format!(" CUT at byte {}", at);
    }
    let what = if ctx.verbose {
        format!(
            "id={:#06x} flags={:#06x} qd={} an={} question[{}]={} {}{}{} answers=[{}]{} wrong={:?}",
            id,
            flags,
            qd_hdr,
            an_hdr,
            qd_written,
            name_to_string(&q_name),
            tname(q_type),
            if q_enc != Enc::Plain { format!(" [{:?}]", q_enc) } else { String::new() },
            if q_class != C_IN { format!(" class={}", q_class) } else { String::new() },
            recs.iter().map(|r| r.describe()).collect::<Vec<_>>().join("; "),
            cut_note,
            wrong.iter().map(|i| ATTRS[*i]).collect::<Vec<_>>()
        )
    } else {
        String::new()
    };
    Datagram { src: from, dst: node_addr, sport, dport, payload, what, kinds: kinds.into_iter().collect() }
}

/// second question for the qdcount=2 variants: derived from the base name without draws
fn gen_name_fixed(base: &Name) -> Name {
    let mut o = base.clone();
    o.insert(0, b"second".to_vec());
    o
}

fn frame_of(eth: Option<[u8; 6]>, d: &Datagram) -> Vec<u8> {
    let l4 = Udp::new(d.sport, d.dport, d.payload.clone()).encode(&d.src, &d.dst);
    let ip = IpPkt::build(d.src, d.dst, PROTO_UDP, 64, l4).encode();
    match eth {
        None => ip,
        Some(mac) => {
            // off-link senders reach the node through the gateway
            let hop = if on_link(&d.src) { d.src } else if d.src.is_v4() { GW4 } else { gw6() };
            Eth { dst: mac, src: mac_of(&hop), ethertype: if d.src.is_v4() { ETH_IPV4 } else { ETH_IPV6 }, payload: ip }.encode()
        }
    }
}

const DELAYS: [i64; 11] = [0, 1_000, 20_000, 300_000, 900_000, 1_500_000, 4_000_000, 9_000_000, 12_000_000, 16_000_000, 31_000_000];

// ------------------------------------------------------------------ the case

struct Plan {
    at: i64,
    name: Name,
    qtype: u16,
    /// 0 start_query, 1 start_query with trailing dot, 2 start_query_raw (mdns flag drawn)
    api: usize,
    raw_mdns: bool,
    mood: usize,
}

fn case(src: &mut Src, ctx: &mut Ctx) -> Result<(), Fail> {
    // ---- configuration
    let seed = src.u64();
    let fam = src.weighted(&[8, 1, 1]); // both / v4 only / v6 only
    let eth: Option<[u8; 6]> = if src.chance(1, 4) { Some([0x02, 0, 0, 0, 0, 1]) } else { None };
    let link_mood = if eth.is_some() { src.weighted(&[6, 1, 2]) } else { 0 };
    let mut node = Node::new(if let Some(m) = eth { Hw::Eth(m) } else { Hw::Ip }, 1500, seed, false, us(0));
    if eth.is_some() {
        ctx.label(["medium:ethernet", "medium:ethernet:neighbours-silent", "medium:ethernet:neighbours-late"][link_mood]);
    } else {
        ctx.label("medium:ip");
    }
    let mut locals = vec![];
    if fam != 2 {
        node.add_addr(IpCidr::new(Ip::V4([10, 0, 0, 1]).to_smol(), 24));
        locals.push(Ip::V4([10, 0, 0, 1]));
    }
    if fam != 1 {
        node.add_addr(IpCidr::new(Ip::v6([0xfd00, 0, 0, 0, 0, 0, 0, 1]).to_smol(), 64));
        node.add_addr(IpCidr::new(Ip::v6([0xfe80, 0, 0, 0, 0, 0, 0, 1]).to_smol(), 64));
        locals.push(Ip::v6([0xfd00, 0, 0, 0, 0, 0, 0, 1]));
        locals.push(Ip::v6([0xfe80, 0, 0, 0, 0, 0, 0, 1]));
    }
    if eth.is_some() {
        // off-link servers are reached through a gateway
        if fam != 2 {
            node.iface.routes_mut().add_default_ipv4_route(smoltcp::wire::Ipv4Address::new(10, 0, 0, 254)).expect("route");
        }
        if fam != 1 {
            node.iface.routes_mut().add_default_ipv6_route(smoltcp::wire::Ipv6Address::new(0xfd00, 0, 0, 0, 0, 0, 0, 0xfe)).expect("route");
        }
    }
    let pool = [
        Ip::V4([10, 0, 0, 53]),
        Ip::V4([10, 0, 0, 54]),
        Ip::V4([192, 0, 2, 53]),
        Ip::v6([0xfd00, 0, 0, 0, 0, 0, 0, 0x53]),
        Ip::v6([0xfd00, 0, 0, 0, 0, 0, 0, 0x54]),
        Ip::v6([0x2001, 0xdb8, 0, 0, 0, 0, 0, 0x53]),
        Ip::V4([0, 0, 0, 0]),
    ];
    let nsrv = match src.weighted(&[20, 20, 20, 1]) {
        0 => 1,
        1 => 2,
        2 => 3,
        _ => 0,
    };
    let mut servers: Vec<Ip> = vec![];
    for _ in 0..nsrv {
        let i = src.weighted(&[6, 4, 3, 5, 3, 2, 1]);
        servers.push(pool[i]);
    }
    let mut dup_servers = false;
    for i in 0..servers.len() {
        for j in 0..i {
            if servers[i] == servers[j] {
                dup_servers = true;
            }
        }
    }
    let smol_servers: Vec<smoltcp::wire::IpAddress> = servers.iter().map(|s| s.to_smol()).collect();
    let sock = dns::Socket::new(&smol_servers, vec![]);
    let handle = node.sockets.add(sock);
    ctx.label(&format!("servers:{}", servers.len()));
    if dup_servers {
        ctx.label("servers:duplicate");
    }

    // ---- query plans
    let nq = 1 + src.weighted(&[5, 3, 2]);
    let mut plans: Vec<Plan> = vec![];
    let mut at = 0i64;
    for i in 0..nq {
        if i > 0 {
            at += *src.pick(&[0i64, 500_000, 3_000_000, 11_000_000, 16_000_000, 40_000_000]);
        }
        let mut name = if i > 0 && src.chance(1, 5) { plans[src.usize(0, i - 1)].name.clone() } else { gen_name(src, false) };
        let local = src.chance(1, 6);
        if local {
            name.push(b"local".to_vec());
        }
        let qtype = if src.bool() { T_AAAA } else { T_A };
        let api = src.weighted(&[6, 1, 1]);
        let raw_mdns = if api == 2 { src.bool() } else { false };
        let mood = src.weighted(&[4, 5, 2]);
        // one textual query in sixteen has a first label of 63, 64 or 65 octets, around the limit of a
        // label: 63 must work, the others must be refused by start_query - never put on the wire
        // (decided from bits of the case seed: no further draw)
        let k = seed.rotate_right(8 * i as u32 + 5);
        if api != 2 && k & 15 == 0 {
            let l = [63usize, 64, 65][((k >> 4) % 3) as usize];
            name[0] = vec![b'x'; l];
            ctx.label(&format!("query:first-label-of-{}-octets", l));
        }
        // start_query_raw takes the name in wire format and does not validate it: handing it a label
        // of more than 63 octets (copied from an earlier plan) would be misuse by the caller, and the
        // malformed query that results is not smoltcp's doing
        if api == 2 {
            for l in name.iter_mut() {
                l.truncate(63);
            }
        }
        plans.push(Plan { at, name, qtype, api, raw_mdns, mood });
    }
    ctx.note(|| format!("node addresses {:?}; servers [{}]; {} queries", locals.iter().map(|l| l.to_string()).collect::<Vec<_>>(), fmt_addrs(&servers), nq));
    ctx.digest.u64(fam as u64);
    ctx.digest.u64(eth.is_some() as u64 * 4 + link_mood as u64);
    for s in &servers {
        ctx.digest.bytes(&s.bytes());
    }

    let mut w = World {
        node,
        handle,
        now: 0,
        polls: 0,
        servers,
        dup_servers,
        locals,
        queries: vec![],
        events: vec![],
        delivered: vec![],
        addr_counter: 0,
        near_miss: false,
        rich_answer: false,
        eth,
        link_mood,
        l2_events: vec![],
    };

    let mut next_plan = 0usize;
    let mut iters = 0usize;
    let mut unsolicited = 0usize;
    let mut same_time = 0usize;
    let jitter_on = src.chance(1, 4);

    loop {
        iters += 1;
        if iters > MAX_ITERS {
            ctx.inconclusive = true;
            ctx.label("iteration-cap");
            break;
        }

        // ---- start at most one query per iteration (its first datagram identifies it)
        let mut started: Option<usize> = None;
        if next_plan < plans.len() && plans[next_plan].at <= w.now {
            let p = &plans[next_plan];
            next_plan += 1;
            let ty = if p.qtype == T_A { DnsQueryType::A } else { DnsQueryType::Aaaa };
            // (name_to_string abbreviates long labels for display; the query needs the real text)
            let text = p.name.iter().map(|l| String::from_utf8_lossy(l).into_owned()).collect::<Vec<_>>().join(".");
            let is_local = p.name.last().map(|l| l == b"local").unwrap_or(false);
            let (res, mdns) = {
                let cx = w.node.iface.context();
                let sock = w.node.sockets.get_mut::<dns::Socket>(w.handle);
                match p.api {
                    0 => (watched(src, "start_query", || sock.start_query(cx, &text, ty))?, is_local),
                    1 => {
                        let dotted = format!("{}.", text);
                        (watched(src, "start_query", || sock.start_query(cx, &dotted, ty))?, is_local)
                    }
                    _ => {
                        let mut raw = vec![];
                        for l in &p.name {
                            raw.push(l.len() as u8);
                            raw.extend_from_slice(l);
                        }
                        raw.push(0);
                        let m = if p.raw_mdns { MulticastDns::Enabled } else { MulticastDns::Disabled };
                        (watched(src, "start_query_raw", || sock.start_query_raw(cx, &raw, ty, m))?, p.raw_mdns)
                    }
                }
            };
            match res {
                Err(e) => {
                    ctx.label("start-query-error");
                    ctx.note(|| format!("t={} start_query({}, {}) -> {:?}", w.now, text, tname(p.qtype), e));
                }
                Ok(h) => {
                    let nsrv = if mdns { 2 } else { w.servers.len() };
                    let slack = if jitter_on { SEC } else { 0 };
                    w.queries.push(Query {
                        name: p.name.clone(),
                        qtype: p.qtype,
                        mdns,
                        handle: h,
                        start_us: w.now,
                        start_poll: w.polls,
                        ident: None,
                        nsrv,
                        deadline_us: w.now + 20 * SEC * nsrv as i64 + SEC + slack,
                        hard_deadline_us: w.now + (20 * SEC * nsrv.max(w.servers.len()).max(2) as i64 + SEC + slack) * plans.len() as i64,
                        blocked_reported: false,
                        done: false,
                        tx: vec![],
                        cname_targets: vec![],
                        wire_name: None,
                        mood: p.mood,
                        wire_changed: false,
                    });
                    started = Some(w.queries.len() - 1);
                    ctx.label(if mdns { "query:mdns" } else { "query:unicast" });
                    ctx.note(|| format!("t={} start query #{} {} {}{} api={} mood={}", w.now, w.queries.len() - 1, text, tname(p.qtype), if mdns { " (mDNS)" } else { "" }, p.api, p.mood));
                    ctx.digest.str(&text);
                    ctx.digest.u64(p.qtype as u64);
                }
            }
        }

        // ---- deliver what is due
        let mut delivered_now = started.is_some();
        let mut i = 0;
        while i < w.l2_events.len() {
            if w.l2_events[i].0 <= w.now {
                let (_, frame, what) = w.l2_events.remove(i);
                ctx.note(|| format!("t={} deliver {}", w.now, what));
                w.node.inject(frame);
                delivered_now = true;
            } else {
                i += 1;
            }
        }
        let mut i = 0;
        while i < w.events.len() {
            if w.events[i].t <= w.now {
                let ev = w.events.remove(i);
                delivered_now = true;
                // classify against its target while that is pending
                if let Some(t) = ev.target {
                    let q = &w.queries[t];
                    let (mut nm, mut rich_seen) = (false, false);
                    if !q.done {
                        let v = judge(&w.servers, q, &ev.d);
                        let (usable, chain) = v
                            .msg
                            .as_ref()
                            .map(|m| {
                                let (r, chain) = reference_addresses(&ev.d.payload, m, &q.name);
                                (!r.is_empty(), chain)
                            })
                            .unwrap_or((false, 0));
                        let total = v.hard.len() + v.soft.len();
                        if usable && total == 1 {
                            let a = v.hard.first().or(v.soft.first()).unwrap();
                            ctx.label(&format!("near-miss-delivered:{}", a));
                            if !v.hard.is_empty() {
                                nm = true;
                            }
                        }
                        if usable && total == 0 {
                            ctx.label("good-response-delivered");
                        }
                        if v.hard.is_empty() && v.msg.is_some() {
                            if chain > 0 {
                                ctx.label("cname-response-delivered-while-pending");
                                rich_seen = true;
                            }
                            for k in &ev.d.kinds {
                                // header and question match: the record parser gets to these names
                                ctx.label(&format!("pending-delivered:{}", k));
                            }
                            if ev.d.kinds.iter().any(|k| k.starts_with("ptr:")) {
                                ctx.label("compressed-response-delivered-while-pending");
                                rich_seen = true;
                            }
                        }
                    } else {
                        ctx.label("stale-response-delivered");
                    }
                    w.near_miss |= nm;
                    w.rich_answer |= rich_seen;
                }
                ctx.note(|| format!("t={} deliver {}:{} -> {}:{} for #{:?}: {}", w.now, ev.d.src, ev.d.sport, ev.d.dst, ev.d.dport, ev.target, ev.d.what));
                ctx.digest.bytes(&ev.d.payload);
                w.node.inject(frame_of(w.eth, &ev.d));
                w.delivered.push((w.polls, ev.d));
            } else {
                i += 1;
            }
        }

        // ---- poll
        let now = w.now;
        let frames = watched(src, "Interface::poll", || w.node.poll(us(now), None))?;
        let this_poll = w.polls;
        w.polls += 1;

        // ---- what the stack put on the wire
        for f in frames {
            let f = match w.eth {
                None => f,
                Some(mac) => {
                    let e = decode_eth(&f).map_err(|e| Fail::new("emit:undecodable-ethernet", e))?;
                    if e.ethertype == ETH_ARP {
                        if let Ok(a) = decode_arp(&e.payload) {
                            let target = Ip::V4(a.tpa);
                            if a.op == 1 && on_link(&target) && w.link_mood != 1 {
                                let delay = if w.link_mood == 2 { *src.pick(&[500_000i64, 1_200_000, 3_000_000]) } else { 0 };
                                let reply = Arp { op: 2, sha: mac_of(&target), spa: a.tpa, tha: mac, tpa: a.spa };
                                let frame = Eth { dst: mac, src: mac_of(&target), ethertype: ETH_ARP, payload: reply.encode() }.encode();
                                w.l2_events.push((w.now + delay, frame, format!("ARP reply {} is-at {:02x?}", target, mac_of(&target))));
                            }
                            ctx.label("emitted:arp");
                        }
                        continue;
                    }
                    if e.ethertype != ETH_IPV4 && e.ethertype != ETH_IPV6 {
                        ctx.label("emitted:other-ethertype");
                        continue;
                    }
                    e.payload
                }
            };
            let ip = decode_ip(&f, true).map_err(|e| Fail::new("emit:undecodable-ip", e))?;
            if let (Some(mac), true) = (w.eth, ip.proto() == PROTO_ICMPV6) {
                if let Ok(ic) = decode_icmp6(ip.payload(), &ip.src(), &ip.dst()) {
                    if ic.ty == ND_NS && ic.body.len() >= 16 {
                        let mut t = [0u8; 16];
                        t.copy_from_slice(&ic.body[..16]);
                        let target = Ip::V6(t);
                        if on_link(&target) && !w.locals.contains(&target) && w.link_mood != 1 && !ip.src().is_unspecified() {
                            let delay = if w.link_mood == 2 { *src.pick(&[500_000i64, 1_200_000, 3_000_000]) } else { 0 };
                            let na = nd_na(&t, 0x60, Some(&mac_of(&target))).encode6(&target, &ip.src());
                            let pkt = IpPkt::build(target, ip.src(), PROTO_ICMPV6, 255, na).encode();
                            let frame = Eth { dst: mac, src: mac_of(&target), ethertype: ETH_IPV6, payload: pkt }.encode();
                            w.l2_events.push((w.now + delay, frame, format!("neighbour advertisement {} is-at {:02x?}", target, mac_of(&target))));
                        }
                        ctx.label("emitted:neighbour-solicitation");
                    }
                }
            }
            if ip.proto() != PROTO_UDP {
                ctx.label("emitted:non-udp");
                continue;
            }
            let udp = decode_udp(ip.payload(), &ip.src(), &ip.dst()).map_err(|e| Fail::new("emit:undecodable-udp", e))?;
            if udp.dport != 53 && udp.dport != 5353 {
                ctx.label("emitted:other-udp");
                continue;
            }
            let Some(m) = decode_msg(&udp.payload) else {
                ctx.label("wire:query-shorter-than-header");
                continue;
            };
            let ident = (udp.sport, m.hdr.id);
            let wire_q = m.questions.first().and_then(|q| q.name.clone().ok().map(|n| (n, q.qtype)));
            let qi = match w.queries.iter().position(|q| q.ident == Some(ident)) {
                Some(qi) => qi,
                None => {
                    // first datagram of a query (on Ethernet it may come polls after start_query,
                    // once the neighbour is known): it belongs to the one identity-less pending
                    // query that asks this question
                    let cands: Vec<usize> = (0..w.queries.len())
                        .filter(|i| {
                            let q = &w.queries[*i];
                            q.ident.is_none() && !q.done && wire_q.as_ref().map(|(n, t)| *n == q.name && *t == q.qtype).unwrap_or(false)
                        })
                        .collect();
                    match cands.len() {
                        1 => {
                            w.queries[cands[0]].ident = Some(ident);
                            cands[0]
                        }
                        0 => {
                            ctx.label("wire:query-of-unknown-identity");
                            continue;
                        }
                        _ => {
                            // two identical questions without identity: cannot tell them apart
                            ctx.label("ambiguous-query-identity");
                            ctx.inconclusive = true;
                            return Ok(());
                        }
                    }
                }
            };
            let first = w.queries[qi].tx.is_empty();
            // the question on the wire
            let changed: Option<&'static str> = match &wire_q {
                None => Some("malformed"),
                Some((n, t)) => {
                    if *n != w.queries[qi].name {
                        Some("name")
                    } else if *t != w.queries[qi].qtype {
                        Some("type")
                    } else if m.hdr.qd != 1 || m.hdr.qr() {
                        Some("header")
                    } else {
                        None
                    }
                }
            };
            w.queries[qi].wire_name = wire_q.as_ref().map(|x| x.0.clone());
            ctx.note(|| {
                format!(
                    "t={} wire: query #{} {} -> {}:{} from port {} id={:#06x} question={}",
                    w.now,
                    qi,
                    ip.src(),
                    ip.dst(),
                    udp.dport,
                    udp.sport,
                    m.hdr.id,
                    match &wire_q {
                        Some((n, t)) => format!("{} {}", name_to_string(n), tname(*t)),
                        None => format!("UNDECODABLE {:02x?}", &udp.payload[12..]),
                    }
                )
            });
            if let Some(c) = changed {
                w.queries[qi].wire_changed = true;
                let q = &w.queries[qi];
                let f = Fail::new(
                    format!("retransmit-question-changed:{}", c),
                    format!(
                        "query #{} was started for {} {} but its {} datagram (port {}, id {:#06x}) asks {}",
                        qi,
                        name_to_string(&q.name),
                        tname(q.qtype),
                        if first { "first" } else { "retransmitted" },
                        udp.sport,
                        m.hdr.id,
                        match &wire_q {
                            Some((n, t)) => format!("{} {}", name_to_string(n), tname(*t)),
                            None => format!("an undecodable question {:02x?}", &udp.payload[12..udp.payload.len().min(60)]),
                        }
                    ),
                );
                report(ctx, f)?;
            }
            // destination, back-off and fail-over timing
            let dsts = w.expected_dsts(&w.queries[qi]);
            let want_port = if w.queries[qi].mdns { 5353 } else { 53 };
            if !dsts.contains(&ip.dst()) || udp.dport != want_port {
                ctx.label("wire:query-to-unexpected-destination");
            } else if !w.dup_servers || w.queries[qi].mdns {
                let q = &w.queries[qi];
                if let Some(prev) = q.tx.last() {
                    if prev.dst == ip.dst() {
                        // same server: the gap must not shrink
                        let run: Vec<&Tx> = q.tx.iter().rev().take_while(|t| t.dst == ip.dst()).collect();
                        if run.len() >= 2 {
                            let g_prev = run[0].t - run[1].t;
                            let g_now = w.now - run[0].t;
                            // (neighbour discovery - late answers, its 1 s rate limit - stretches single
                            // gaps: only judged on Medium::Ip where a datagram can always be sent at once)
                            if g_now + 100_000 < g_prev && w.eth.is_none() {
                                report(ctx, Fail::new(
                                    "retransmit-without-back-off",
                                    format!("query #{} retransmitted to {} after {} us, the previous gap was {} us", qi, ip.dst(), g_now, g_prev),
                                ))?;
                            }
                        }
                        if run.len() >= 2 {
                            ctx.label("retransmit-back-off-seen");
                        }
                    } else {
                        ctx.label("server-failover");
                        let first_prev = q.tx.iter().find(|t| t.dst == prev.dst).unwrap().t;
                        // (the 10 s run from the first attempt, which is only visible on the wire on
                        // Medium::Ip; on Ethernet neighbour discovery may delay the first datagram)
                        if w.now - first_prev < 10 * SEC && w.eth.is_none() {
                            report(ctx, Fail::new(
                                "failover-before-timeout",
                                format!("query #{} moved from {} to {} only {} us after first asking it", qi, prev.dst, ip.dst(), w.now - first_prev),
                            ))?;
                        }
                        // evidence for C13 (poll_at ignores the per-server timeout): how long a server was kept
                        let kept = w.now - first_prev;
                        ctx.label(if kept <= 10 * SEC + 100_000 {
                            "failover-after:10s"
                        } else if kept < 15 * SEC {
                            "failover-after:10-15s"
                        } else {
                            "failover-after:15s-or-more"
                        });
                        let pi = dsts.iter().position(|d| *d == prev.dst);
                        let ni = dsts.iter().position(|d| *d == ip.dst());
                        if ni < pi {
                            ctx.label("wire:server-order-regressed");
                        }
                    }
                }
            }
            w.queries[qi].tx.push(Tx { t: w.now, dst: ip.dst() });
            ctx.count("query-datagrams", 1);

            // ---- the scripted resolver reacts
            if !w.locals.contains(&ip.src()) {
                ctx.label("wire:query-from-unconfigured-address");
                continue;
            }
            let mood = w.queries[qi].mood;
            let n = match mood {
                0 => src.weighted(&[6, 1, 1]),
                1 => src.weighted(&[5, 2, 3]),
                _ => 1,
            };
            // index 0 of each list above is "one response"
            let n = match (mood, n) {
                (2, _) => 0,
                (_, 0) => 1,
                (_, 1) => 0,
                _ => 2,
            };
            if n == 0 {
                ctx.label("resolver:silent-or-lost");
            }
            for _ in 0..n {
                let d = gen_response(src, ctx, &mut w, qi, ip.src(), ip.dst(), None);
                let delay = *src.pick(&DELAYS);
                w.events.push(Event { t: w.now + delay, d, target: Some(qi) });
            }
        }
        if let Some(s) = started {
            if w.queries[s].ident.is_none() {
                ctx.label("query:no-datagram-on-start");
            }
        }

        // ---- unsolicited traffic
        if unsolicited < 4 && src.chance(1, 12) {
            let known: Vec<usize> = (0..w.queries.len()).filter(|i| w.queries[*i].ident.is_some() && !w.queries[*i].tx.is_empty()).collect();
            if !known.is_empty() {
                unsolicited += 1;
                let qi = *src.pick(&known);
                let node_addr = *src.pick(&w.locals);
                let asked = w.queries[qi].tx.last().unwrap().dst;
                if asked.is_v4() == node_addr.is_v4() {
                    let forced = *src.pick(&[0usize, 1, 14, 0, 1, 7]);
                    let d = gen_response(src, ctx, &mut w, qi, node_addr, asked, Some(forced));
                    let delay = *src.pick(&DELAYS[..6]);
                    ctx.label("unsolicited-datagram");
                    w.events.push(Event { t: w.now + delay, d, target: Some(qi) });
                }
            }
        }

        // ---- results
        for qi in 0..w.queries.len() {
            if w.queries[qi].done {
                continue;
            }
            let h = w.queries[qi].handle;
            let r = {
                let sock = w.sock();
                watched(src, "get_query_result", || sock.get_query_result(h))?
            };
            match r {
                Err(GetQueryResultError::Pending) => {
                    if w.queries[qi].ident.is_none() {
                        ctx.label("query:pending-without-datagram");
                    }
                    // dispatch() stops at the first query whose datagram cannot be handed to the
                    // device (unresolved neighbour) and starts a query's 10 s clock only when it first
                    // reaches it, so with a silent next hop queries time out one after the other.
                    // That is kept apart from "never completes".
                    let excuse = w.eth.is_some() && w.queries.len() > 1; // (silent neighbour or no route to the server)
                    let over_soft = w.now > w.queries[qi].deadline_us;
                    let over_hard = w.now > w.queries[qi].hard_deadline_us;
                    if over_soft && excuse && !over_hard {
                        if !w.queries[qi].blocked_reported {
                            w.queries[qi].blocked_reported = true;
                            let q = &w.queries[qi];
                            // Judged permitted: the statement demands a bounded time, and the time
                            // stays bounded by (number of queries x per-query bound). Counted, not flagged.
                            let _ = q;
                            ctx.label("observed:query-blocked-behind-other-queries");
                        }
                    } else if over_soft {
                        let q = &w.queries[qi];
                        report(ctx, Fail::new(
                            "query-never-completes",
                            format!(
                                "query #{} {} started at {} us is still pending at {} us ({} servers => bound {} us); {} datagrams sent, last at {:?} us",
                                qi,
                                name_to_string(&q.name),
                                q.start_us,
                                w.now,
                                q.nsrv,
                                if excuse { q.hard_deadline_us } else { q.deadline_us } - q.start_us,
                                q.tx.len(),
                                q.tx.last().map(|t| t.t)
                            ),
                        ))?;
                        // known finding: stop following this query
                        w.queries[qi].done = true;
                        let sock = w.sock();
                        sock.cancel_query(h);
                    }
                }
                Err(GetQueryResultError::Failed) => {
                    w.queries[qi].done = true;
                    ctx.label("completed-failed");
                    let q = &w.queries[qi];
                    let last_rx = w.delivered.iter().any(|(p, d)| *p == this_poll && q.ident.map(|i| i.0 == d.dport).unwrap_or(false));
                    ctx.label(if last_rx { "failed:on-response" } else if q.tx.is_empty() { "failed:without-sending" } else { "failed:timeout" });
                    // NXDOMAIN is honoured before the question is compared (statement is silent: label only)
                    if let Some((port, txid)) = q.ident {
                        for (p, d) in &w.delivered {
                            if *p != this_poll || d.dport != port {
                                continue;
                            }
                            if let Some(m) = decode_msg(&d.payload) {
                                if m.hdr.id == txid && m.hdr.rcode() == 3 && m.hdr.qr() {
                                    let v = judge(&w.servers, q, d);
                                    if v.hard.iter().any(|h| h.starts_with("question")) {
                                        ctx.label("failed:nxdomain-for-another-question");
                                    } else if v.hard.is_empty() {
                                        ctx.label("failed:nxdomain");
                                    }
                                }
                            }
                        }
                    }
                    ctx.note(|| format!("t={} query #{} -> Failed", w.now, qi));
                }
                Ok(addrs) => {
                    w.queries[qi].done = true;
                    let addrs: Vec<Ip> = addrs.iter().map(|a| Ip::from_smol(*a)).collect();
                    ctx.note(|| format!("t={} query #{} -> Ok [{}]", w.now, qi, fmt_addrs(&addrs)));
                    check_answer(&w, qi, &addrs, ctx)?;
                }
            }
        }

        // ---- next instant
        let pending = w.queries.iter().any(|q| !q.done);
        let more_plans = next_plan < plans.len();
        if !pending && !more_plans {
            // late datagrams meet a socket without pending queries
            if !w.events.is_empty() && src.chance(1, 2) {
                ctx.label("leftover-datagrams-delivered");
                let evs = std::mem::take(&mut w.events);
                for ev in evs {
                    w.node.inject(frame_of(w.eth, &ev.d));
                }
                let now = w.now + 1;
                let _ = watched(src, "Interface::poll", || w.node.poll(us(now), None))?;
            }
            break;
        }
        let now = w.now;
        let pa = watched(src, "Interface::poll_at", || w.node.poll_at(us(now)))?.map(|t| t.total_micros());
        let next_ev = w.events.iter().map(|e| e.t).chain(w.l2_events.iter().map(|e| e.0)).min();
        let next_start = if more_plans { Some(plans[next_plan].at) } else { None };
        if pending && pa.is_none() && next_ev.is_none() && next_start.is_none() {
            report(ctx, Fail::new(
                "pending-query-no-deadline",
                format!("poll_at returned None at {} us while a query is pending and nothing is in flight", w.now),
            ))?;
            break;
        }
        if pending && pa.is_none() {
            ctx.label("poll_at-none-while-pending");
        }
        let mut t_next = i64::MAX;
        let mut from_pa = false;
        if let Some(t) = pa {
            t_next = t;
            from_pa = true;
        }
        for t in [next_ev, next_start].into_iter().flatten() {
            if t < t_next {
                t_next = t;
                from_pa = false;
            }
        }
        if t_next <= w.now {
            if delivered_now {
                same_time = 0;
            }
            same_time += 1;
            if same_time > 12 && from_pa {
                report(ctx, Fail::new(
                    "poll_at-does-not-advance",
                    format!("poll_at keeps returning {} us <= now {} us after {} polls at this instant", t_next, w.now, same_time),
                ))?;
                break;
            }
            if same_time > 50 {
                panic!("C19 harness: simulation does not advance at {} us", w.now);
            }
        } else {
            same_time = 0;
            w.now = t_next;
            if from_pa && jitter_on {
                w.now += *src.pick(&[0i64, 1_000, 50_000, 0]);
            }
        }
    }

    // ---- wrap up
    if w.near_miss || w.rich_answer {
        ctx.nontrivial = true;
    }
    ctx.digest.u64(w.delivered.len() as u64);
    ctx.count("datagrams-delivered", w.delivered.len() as u64);
    ctx.count("polls", w.polls as u64);
    Ok(())
}

pub fn prop() -> Prop {
    Prop {
        id: "C19",
        parts: vec![Part { name: "resolver", case, quick: 40_000, thorough: 2_000_000 }],
        phases: vec![],
        smoltcp_panic_is_violation: true,
        rule: "one dns::Socket on a Medium::Ip interface (3/4) or a Medium::Ethernet interface with default routes and scripted neighbours that answer ARP/NS at once, late or never (1/4); IPv4 and/or IPv6 addresses; 0-3 configured servers (IPv4/IPv6, on/off subnet, duplicates, rarely unspecified); 1-3 queries (A/AAAA, 1-5 labels, one in sixteen with a first label of 63/64/65 octets, `.local` => mDNS, start_query / trailing dot / start_query_raw with either mDNS flag) started at drawn instants; a scripted resolver sees every query datagram (independent Ethernet/IP/UDP/DNS decoders) and answers with 0-2 datagrams after a drawn delay (0..31 s), each a correct response with 0-2 (mostly exactly one) attributes drawn wrong: source address (other configured server / stranger), source port (5353/other), destination port, transaction id, question name (other name - preferably a CNAME target used before, with answers for the query's or for that other name -, case, shortened, extended, root, pointer-encoded), question type/class/count, QR, opcode, rcode, TC, answer count, truncation at any byte, garbage; answer section = direct addresses / CNAME chain 1-3 (one target in four padded to 252-259 octets, around the limit of a name) in or out of order ending in the right or wrong record type / unrelated names / empty, plus noise records (unrelated owner, unrelated CNAME, other type, wrong class, bad RDLENGTH, other family), names written plain, compressed, with chained, forward, self, looping and out-of-range pointers, reserved label types or no terminator; plus unsolicited datagrams. Time moves only to Interface::poll_at (optionally a little late), datagram arrival or query start. Non-trivial = a near-miss (exactly one statement attribute wrong, otherwise a usable answer) or a header-and-question-matching response with a CNAME chain or compression pointers was delivered while its query was pending; distinct by digest of configuration, queries and delivered payloads",
        assumptions: vec![
            "independent IPv4/IPv6/UDP codec in vkit::indep and the RFC 1035 codec in vcheck/src/c19_dns.rs",
            "a query's source port and transaction id are those of the first datagram the stack emits after start_query (one query is started per poll)",
            "statement read permissively: any source address is fine from port 5353 (also for unicast queries), name comparison may be case-insensitive, QR/opcode/rcode/TC/class/question-count are not matching attributes, addresses may come from any A/AAAA record whose owner is reachable from the queried name over CNAME records of the answer section in any order",
            "termination bound 20 s x servers + 1 s per query (+1 s when polls are drawn late); mDNS queries count the two multicast groups as servers; on Ethernet with several queries a query that exceeds it but stays within (bound x number of queries) is only counted under the label observed:query-blocked-behind-other-queries (time is still bounded, so the statement holds)",
            "back-off and fail-over timing are judged on Medium::Ip with distinct servers only (neighbour discovery delays datagrams on Ethernet)",
            "a loop inside smoltcp is detected by a watchdog thread measuring the CPU time one call consumes without returning (> 5 s; never the wall-clock time), which writes the tape and exits with the violation code; a call that stalls without consuming CPU ends the run as inconclusive (exit 2)",
        ],
    }
}
