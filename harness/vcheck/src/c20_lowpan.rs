//! C20 helper: independent IEEE 802.15.4 MAC header codec, RFC 4944 §5.3
//! fragmentation headers, RFC 6282 LOWPAN_IPHC / LOWPAN_NHC (UDP, extension
//! headers) decompressor and compressor, a reference fragmenter and a
//! reference model of a bounded reassembler. Written from the RFCs; shares no
//! code with `smoltcp::wire`.

use vkit::indep::*;

// ------------------------------------------------------------------ link addresses

/// IEEE 802.15.4 address in canonical (big-endian, as printed / as used in the IID) order.
#[derive(Clone, Copy, Debug, PartialEq, Eq, Hash, PartialOrd, Ord)]
pub enum Ll {
    None,
    Short([u8; 2]),
    Ext([u8; 8]),
}

impl Ll {
    /// Interface identifier derived from the link-layer address (RFC 6282 §3.2.2,
    /// RFC 4944 §6): EUI-64 with the universal/local bit inverted, or
    /// 0000:00ff:fe00:XXXX for a 16-bit short address.
    pub fn iid(&self) -> Option<[u8; 8]> {
        match self {
            Ll::None => None,
            Ll::Short(s) => Some([0, 0, 0, 0xff, 0xfe, 0, s[0], s[1]]),
            Ll::Ext(e) => {
                let mut i = *e;
                i[0] ^= 0x02;
                Some(i)
            }
        }
    }
    pub fn is_broadcast(&self) -> bool {
        *self == Ll::Short([0xff, 0xff])
    }
}

impl std::fmt::Display for Ll {
    fn fmt(&self, f: &mut std::fmt::Formatter<'_>) -> std::fmt::Result {
        match self {
            Ll::None => write!(f, "-"),
            Ll::Short(s) => write!(f, "{:02x}{:02x}", s[0], s[1]),
            Ll::Ext(e) => {
                for (i, b) in e.iter().enumerate() {
                    if i > 0 {
                        write!(f, ":")?;
                    }
                    write!(f, "{:02x}", b)?;
                }
                Ok(())
            }
        }
    }
}

// ------------------------------------------------------------------ 802.15.4 MAC header (2003/2006 layout)

#[derive(Clone, Debug, PartialEq, Eq)]
pub struct Mac {
    pub ftype: u8,
    pub security: bool,
    pub pending: bool,
    pub ack_req: bool,
    pub pan_comp: bool,
    /// frame control bits 7..=9
    pub reserved: u8,
    pub version: u8,
    pub seq: u8,
    pub dst_pan: Option<u16>,
    pub dst: Ll,
    pub src_pan: Option<u16>,
    pub src: Ll,
}

impl Mac {
    pub fn data(seq: u8, pan: u16, dst: Ll, src: Ll) -> Mac {
        Mac {
            ftype: 1,
            security: false,
            pending: false,
            ack_req: false,
            pan_comp: true,
            reserved: 0,
            version: 0,
            seq,
            dst_pan: Some(pan),
            dst,
            src_pan: None,
            src,
        }
    }
    pub fn encode(&self) -> Vec<u8> {
        let mode = |a: &Ll| match a {
            Ll::None => 0u16,
            Ll::Short(_) => 2,
            Ll::Ext(_) => 3,
        };
        let fcf: u16 = (self.ftype as u16 & 7)
            | (self.security as u16) << 3
            | (self.pending as u16) << 4
            | (self.ack_req as u16) << 5
            | (self.pan_comp as u16) << 6
            | (self.reserved as u16 & 7) << 7
            | mode(&self.dst) << 10
            | (self.version as u16 & 3) << 12
            | mode(&self.src) << 14;
        let mut b = fcf.to_le_bytes().to_vec();
        b.push(self.seq);
        let put = |b: &mut Vec<u8>, a: &Ll| match a {
            Ll::None => {}
            Ll::Short(s) => b.extend(s.iter().rev()),
            Ll::Ext(e) => b.extend(e.iter().rev()),
        };
        if let Some(p) = self.dst_pan {
            b.extend_from_slice(&p.to_le_bytes());
        }
        put(&mut b, &self.dst);
        if let Some(p) = self.src_pan {
            b.extend_from_slice(&p.to_le_bytes());
        }
        put(&mut b, &self.src);
        b
    }
}

/// Decode the MAC header of a frame without FCS; returns the header and its length.
pub fn decode_mac(b: &[u8]) -> Result<(Mac, usize), String> {
    if b.len() < 3 {
        return Err("802.15.4: shorter than frame control + sequence number".into());
    }
    let fcf = u16::from_le_bytes([b[0], b[1]]);
    let version = ((fcf >> 12) & 3) as u8;
    if version > 1 {
        return Err(format!("802.15.4: frame version {} not handled by this decoder", version));
    }
    let dmode = (fcf >> 10) & 3;
    let smode = (fcf >> 14) & 3;
    if dmode == 1 || smode == 1 {
        return Err("802.15.4: reserved addressing mode".into());
    }
    let pan_comp = fcf & (1 << 6) != 0;
    let mut at = 3;
    let take = |at: &mut usize, n: usize| -> Result<Vec<u8>, String> {
        if *at + n > b.len() {
            return Err("802.15.4: truncated addressing fields".into());
        }
        let v = b[*at..*at + n].to_vec();
        *at += n;
        Ok(v)
    };
    let addr = |at: &mut usize, mode: u16| -> Result<Ll, String> {
        Ok(match mode {
            0 => Ll::None,
            2 => {
                let v = take(at, 2)?;
                Ll::Short([v[1], v[0]])
            }
            _ => {
                let mut v = take(at, 8)?;
                v.reverse();
                let mut e = [0u8; 8];
                e.copy_from_slice(&v);
                Ll::Ext(e)
            }
        })
    };
    let mut dst_pan = None;
    if dmode != 0 {
        let v = take(&mut at, 2)?;
        dst_pan = Some(u16::from_le_bytes([v[0], v[1]]));
    }
    let dst = addr(&mut at, dmode)?;
    let mut src_pan = None;
    if smode != 0 && !(pan_comp && dmode != 0) {
        let v = take(&mut at, 2)?;
        src_pan = Some(u16::from_le_bytes([v[0], v[1]]));
    }
    let src = addr(&mut at, smode)?;
    Ok((
        Mac {
            ftype: (fcf & 7) as u8,
            security: fcf & (1 << 3) != 0,
            pending: fcf & (1 << 4) != 0,
            ack_req: fcf & (1 << 5) != 0,
            pan_comp,
            reserved: ((fcf >> 7) & 7) as u8,
            version,
            seq: b[2],
            dst_pan,
            dst,
            src_pan,
            src,
        },
        at,
    ))
}

// ------------------------------------------------------------------ dispatch / fragment headers

#[derive(Clone, Debug, PartialEq, Eq)]
pub enum Lp<'a> {
    Iphc(&'a [u8]),
    Frag1 { size: usize, tag: u16, rest: &'a [u8] },
    /// offset in octets (field value * 8)
    FragN { size: usize, tag: u16, offset: usize, rest: &'a [u8] },
}

pub fn decode_dispatch(p: &[u8]) -> Result<Lp<'_>, String> {
    if p.is_empty() {
        return Err("6lowpan: empty MAC payload".into());
    }
    let d = p[0];
    if d >> 5 == 0b011 {
        return Ok(Lp::Iphc(p));
    }
    if d >> 3 == 0b11000 {
        if p.len() < 4 {
            return Err("6lowpan: truncated FRAG1 header".into());
        }
        let size = (((d & 7) as usize) << 8) | p[1] as usize;
        return Ok(Lp::Frag1 { size, tag: u16::from_be_bytes([p[2], p[3]]), rest: &p[4..] });
    }
    if d >> 3 == 0b11100 {
        if p.len() < 5 {
            return Err("6lowpan: truncated FRAGN header".into());
        }
        let size = (((d & 7) as usize) << 8) | p[1] as usize;
        return Ok(Lp::FragN { size, tag: u16::from_be_bytes([p[2], p[3]]), offset: p[4] as usize * 8, rest: &p[5..] });
    }
    Err(format!("6lowpan: dispatch octet {:#04x} is neither LOWPAN_IPHC, FRAG1 nor FRAGN", d))
}

pub fn frag1_header(size: usize, tag: u16) -> Vec<u8> {
    assert!(size < 2048);
    vec![0xc0 | (size >> 8) as u8, size as u8, (tag >> 8) as u8, tag as u8]
}
pub fn fragn_header(size: usize, tag: u16, offset: usize) -> Vec<u8> {
    assert!(size < 2048 && offset % 8 == 0 && offset / 8 < 256);
    vec![0xe0 | (size >> 8) as u8, size as u8, (tag >> 8) as u8, tag as u8, (offset / 8) as u8]
}

// ------------------------------------------------------------------ IPHC / NHC decompression

/// 64-bit prefix contexts by context identifier.
#[derive(Clone, Debug, Default)]
pub struct Ctxs(pub [Option<[u8; 8]>; 16]);

#[derive(Clone, Copy, Debug, PartialEq, Eq, Default)]
pub struct Modes {
    pub tf: u8,
    pub nh: bool,
    pub hlim: u8,
    pub cid: bool,
    pub sac: bool,
    pub sam: u8,
    pub m: bool,
    pub dac: bool,
    pub dam: u8,
    /// (C, P) of LOWPAN_NHC UDP
    pub udp: Option<(bool, u8)>,
}

#[derive(Clone, Debug)]
pub struct Decomp {
    pub tc: u8,
    pub flow: u32,
    pub hop: u8,
    pub src: [u8; 16],
    pub dst: [u8; 16],
    /// value of the IPv6 header's next-header field
    pub first_nh: u8,
    /// uncompressed form of the NHC-compressed headers (extension headers, UDP header)
    pub hdrs: Vec<u8>,
    /// offset of the UDP header inside `hdrs` when it came from LOWPAN_NHC
    pub udp_at: Option<usize>,
    pub udp_csum_elided: bool,
    /// octets of the LOWPAN payload consumed by IPHC + NHC headers
    pub compressed_len: usize,
    /// everything after the compressed headers (copied verbatim)
    pub rest: Vec<u8>,
    pub modes: Modes,
}

fn unicast(
    stateful: bool,
    mode: u8,
    ctx_id: u8,
    ll: Ll,
    ctxs: &Ctxs,
    p: &[u8],
    at: &mut usize,
    what: &str,
) -> Result<[u8; 16], String> {
    let mut a = [0u8; 16];
    let mut take = |n: usize| -> Result<&[u8], String> {
        if *at + n > p.len() {
            return Err(format!("iphc: truncated in-line {} address", what));
        }
        let s = &p[*at..*at + n];
        *at += n;
        Ok(s)
    };
    let prefix: [u8; 8] = if stateful {
        match ctxs.0[ctx_id as usize] {
            Some(c) => c,
            None => return Err(format!("iphc: {} address uses unknown context {}", what, ctx_id)),
        }
    } else {
        [0xfe, 0x80, 0, 0, 0, 0, 0, 0]
    };
    match mode {
        0 => {
            if stateful {
                return Err(format!("iphc: {} stateful mode 00", what));
            }
            a.copy_from_slice(take(16)?);
        }
        1 => {
            a[..8].copy_from_slice(&prefix);
            a[8..].copy_from_slice(take(8)?);
        }
        2 => {
            a[..8].copy_from_slice(&prefix);
            a[8..14].copy_from_slice(&[0, 0, 0, 0xff, 0xfe, 0]);
            a[14..].copy_from_slice(take(2)?);
        }
        _ => {
            a[..8].copy_from_slice(&prefix);
            match ll.iid() {
                Some(i) => a[8..].copy_from_slice(&i),
                None => return Err(format!("iphc: {} address elided but the frame carries no link-layer address", what)),
            }
        }
    }
    Ok(a)
}

/// Decompress the LOWPAN_IPHC (+NHC) headers at the start of `p`.
pub fn decompress(p: &[u8], ll_src: Ll, ll_dst: Ll, ctxs: &Ctxs) -> Result<Decomp, String> {
    if p.len() < 2 {
        return Err("iphc: shorter than the two base octets".into());
    }
    if p[0] >> 5 != 0b011 {
        return Err("iphc: dispatch is not 011".into());
    }
    let tf = (p[0] >> 3) & 3;
    let nh = p[0] & 4 != 0;
    let hlim = p[0] & 3;
    let cid = p[1] & 0x80 != 0;
    let sac = p[1] & 0x40 != 0;
    let sam = (p[1] >> 4) & 3;
    let m = p[1] & 8 != 0;
    let dac = p[1] & 4 != 0;
    let dam = p[1] & 3;
    let mut at = 2;
    let (mut sci, mut dci) = (0u8, 0u8);
    if cid {
        if p.len() < 3 {
            return Err("iphc: truncated context identifier extension".into());
        }
        sci = p[2] >> 4;
        dci = p[2] & 15;
        at = 3;
    }
    let need = |at: usize, n: usize, what: &str| -> Result<(), String> {
        if at + n > p.len() {
            Err(format!("iphc: truncated {}", what))
        } else {
            Ok(())
        }
    };
    let (mut tc, mut flow) = (0u8, 0u32);
    match tf {
        0 => {
            need(at, 4, "traffic class / flow label")?;
            let ecn = p[at] >> 6;
            let dscp = p[at] & 0x3f;
            tc = (dscp << 2) | ecn;
            flow = (((p[at + 1] & 0x0f) as u32) << 16) | ((p[at + 2] as u32) << 8) | p[at + 3] as u32;
            at += 4;
        }
        1 => {
            need(at, 3, "ECN / flow label")?;
            let ecn = p[at] >> 6;
            tc = ecn;
            flow = (((p[at] & 0x0f) as u32) << 16) | ((p[at + 1] as u32) << 8) | p[at + 2] as u32;
            at += 3;
        }
        2 => {
            need(at, 1, "traffic class")?;
            let ecn = p[at] >> 6;
            let dscp = p[at] & 0x3f;
            tc = (dscp << 2) | ecn;
            at += 1;
        }
        _ => {}
    }
    let mut first_nh = 0u8;
    if !nh {
        need(at, 1, "next header")?;
        first_nh = p[at];
        at += 1;
    }
    let hop = match hlim {
        0 => {
            need(at, 1, "hop limit")?;
            at += 1;
            p[at - 1]
        }
        1 => 1,
        2 => 64,
        _ => 255,
    };
    let src = if sac && sam == 0 { [0u8; 16] } else { unicast(sac, sam, sci, ll_src, ctxs, p, &mut at, "source")? };
    let dst = if !m {
        if dac && dam == 0 {
            return Err("iphc: reserved destination mode M=0 DAC=1 DAM=00".into());
        }
        unicast(dac, dam, dci, ll_dst, ctxs, p, &mut at, "destination")?
    } else if !dac {
        let mut a = [0u8; 16];
        a[0] = 0xff;
        match dam {
            0 => {
                need(at, 16, "multicast address")?;
                a.copy_from_slice(&p[at..at + 16]);
                at += 16;
            }
            1 => {
                need(at, 6, "multicast address")?;
                a[1] = p[at];
                a[11..].copy_from_slice(&p[at + 1..at + 6]);
                at += 6;
            }
            2 => {
                need(at, 4, "multicast address")?;
                a[1] = p[at];
                a[13..].copy_from_slice(&p[at + 1..at + 4]);
                at += 4;
            }
            _ => {
                need(at, 1, "multicast address")?;
                a[1] = 0x02;
                a[15] = p[at];
                at += 1;
            }
        }
        a
    } else {
        if dam != 0 {
            return Err("iphc: reserved multicast mode".into());
        }
        // ffXX:XXLL:PPPP:PPPP:PPPP:PPPP:XXXX:XXXX (RFC 3306 / RFC 3956 style)
        need(at, 6, "multicast address")?;
        let c = ctxs.0[dci as usize].ok_or_else(|| format!("iphc: multicast uses unknown context {}", dci))?;
        let mut a = [0u8; 16];
        a[0] = 0xff;
        a[1] = p[at];
        a[2] = p[at + 1];
        a[3] = 64;
        a[4..12].copy_from_slice(&c);
        a[12..].copy_from_slice(&p[at + 2..at + 6]);
        at += 6;
        a
    };

    // next header compression chain
    let mut hdrs: Vec<u8> = vec![];
    let mut udp_at = None;
    let mut udp_csum_elided = false;
    let mut udp_mode = None;
    let mut compressed = nh;
    // where to patch the "next header" value of the previous header: None = IPv6 header
    let mut patch: Option<usize> = None;
    let set_nh = |hdrs: &mut Vec<u8>, first_nh: &mut u8, patch: Option<usize>, v: u8| match patch {
        None => *first_nh = v,
        Some(i) => hdrs[i] = v,
    };
    while compressed {
        need(at, 1, "LOWPAN_NHC octet")?;
        let id = p[at];
        if id >> 3 == 0b11110 {
            // UDP
            let c = id & 4 != 0;
            let pm = id & 3;
            at += 1;
            let (sport, dport) = match pm {
                0 => {
                    need(at, 4, "UDP ports")?;
                    at += 4;
                    (u16::from_be_bytes([p[at - 4], p[at - 3]]), u16::from_be_bytes([p[at - 2], p[at - 1]]))
                }
                1 => {
                    need(at, 3, "UDP ports")?;
                    at += 3;
                    (u16::from_be_bytes([p[at - 3], p[at - 2]]), 0xf000 | p[at - 1] as u16)
                }
                2 => {
                    need(at, 3, "UDP ports")?;
                    at += 3;
                    (0xf000 | p[at - 3] as u16, u16::from_be_bytes([p[at - 2], p[at - 1]]))
                }
                _ => {
                    need(at, 1, "UDP ports")?;
                    at += 1;
                    (0xf0b0 | (p[at - 1] >> 4) as u16, 0xf0b0 | (p[at - 1] & 15) as u16)
                }
            };
            let mut csum = [0u8; 2];
            if !c {
                need(at, 2, "UDP checksum")?;
                csum = [p[at], p[at + 1]];
                at += 2;
            } else {
                udp_csum_elided = true;
            }
            set_nh(&mut hdrs, &mut first_nh, patch, PROTO_UDP);
            udp_at = Some(hdrs.len());
            hdrs.extend_from_slice(&sport.to_be_bytes());
            hdrs.extend_from_slice(&dport.to_be_bytes());
            hdrs.extend_from_slice(&[0, 0]); // length, fixed up in build()
            hdrs.extend_from_slice(&csum);
            udp_mode = Some((c, pm));
            compressed = false;
        } else if id >> 4 == 0b1110 {
            let eid = (id >> 1) & 7;
            let nh_c = id & 1 != 0;
            at += 1;
            let proto = match eid {
                0 => PROTO_HOPOPT,
                1 => PROTO_V6ROUTE,
                2 => PROTO_V6FRAG,
                3 => PROTO_V6OPTS,
                _ => return Err(format!("nhc: extension header id {} not handled by this decoder", eid)),
            };
            let mut inline_nh = 0u8;
            if !nh_c {
                need(at, 1, "NHC in-line next header")?;
                inline_nh = p[at];
                at += 1;
            }
            need(at, 1, "NHC extension header length")?;
            let len = p[at] as usize;
            at += 1;
            need(at, len, "NHC extension header data")?;
            set_nh(&mut hdrs, &mut first_nh, patch, proto);
            let start = hdrs.len();
            hdrs.push(inline_nh);
            hdrs.push(0);
            hdrs.extend_from_slice(&p[at..at + len]);
            at += len;
            // trailing padding may have been elided: restore to a multiple of 8 (Pad1 / PadN)
            let total = hdrs.len() - start;
            let pad = (8 - total % 8) % 8;
            if pad == 1 {
                hdrs.push(0);
            } else if pad > 1 {
                hdrs.push(1);
                hdrs.push((pad - 2) as u8);
                hdrs.extend(std::iter::repeat(0).take(pad - 2));
            }
            let total = hdrs.len() - start;
            hdrs[start + 1] = (total / 8 - 1) as u8;
            patch = Some(start);
            compressed = nh_c;
        } else {
            return Err(format!("nhc: unknown LOWPAN_NHC octet {:#04x}", id));
        }
    }
    Ok(Decomp {
        tc,
        flow,
        hop,
        src,
        dst,
        first_nh,
        hdrs,
        udp_at,
        udp_csum_elided,
        compressed_len: at,
        rest: p[at..].to_vec(),
        modes: Modes { tf, nh, hlim, cid, sac, sam, m, dac, dam, udp: udp_mode },
    })
}

impl Decomp {
    /// Octets of the uncompressed datagram represented by the frame that carried these headers.
    pub fn uncompressed_len(&self) -> usize {
        40 + self.hdrs.len() + self.rest.len()
    }
    /// Uncompressed octets: IPv6 header, decompressed headers, rest of this frame.
    /// `datagram_size` is the FRAG1 datagram_size when the datagram is fragmented.
    pub fn build(&self, datagram_size: Option<usize>) -> Vec<u8> {
        let total = datagram_size.unwrap_or(self.uncompressed_len());
        let mut b = vec![0u8; 40];
        b[0] = 0x60 | (self.tc >> 4);
        b[1] = (self.tc << 4) | ((self.flow >> 16) as u8 & 0x0f);
        b[2] = (self.flow >> 8) as u8;
        b[3] = self.flow as u8;
        b[4..6].copy_from_slice(&((total.saturating_sub(40)) as u16).to_be_bytes());
        b[6] = self.first_nh;
        b[7] = self.hop;
        b[8..24].copy_from_slice(&self.src);
        b[24..40].copy_from_slice(&self.dst);
        let mut h = self.hdrs.clone();
        if let Some(u) = self.udp_at {
            let ulen = total.saturating_sub(40 + u);
            h[u + 4..u + 6].copy_from_slice(&(ulen as u16).to_be_bytes());
        }
        b.extend_from_slice(&h);
        b.extend_from_slice(&self.rest);
        b
    }
}

/// Fill in an elided UDP checksum of a complete datagram (offset of the UDP header given).
pub fn fill_udp_checksum(dgram: &mut [u8], udp_off: usize) {
    let src = Ip::V6(dgram[8..24].try_into().unwrap());
    let dst = Ip::V6(dgram[24..40].try_into().unwrap());
    dgram[udp_off + 6] = 0;
    dgram[udp_off + 7] = 0;
    let mut c = l4_checksum(&src, &dst, PROTO_UDP, &dgram[udp_off..]);
    if c == 0 {
        c = 0xffff;
    }
    dgram[udp_off + 6..udp_off + 8].copy_from_slice(&c.to_be_bytes());
}

// ------------------------------------------------------------------ IPHC / NHC compression (independent encoder)

#[derive(Clone, Copy, Debug, PartialEq, Eq)]
pub struct EncMode {
    pub tf: u8,
    pub hlim_inline: bool,
    pub sac: bool,
    pub sam: u8,
    pub sci: u8,
    pub dac: bool,
    pub dam: u8,
    pub dci: u8,
    /// emit the CID octet even when both identifiers are 0
    pub force_cid: bool,
    /// compress a UDP header with LOWPAN_NHC
    pub udp_nhc: bool,
    pub udp_p: u8,
    pub udp_c: bool,
}

/// Which source address modes can represent `a` (sac, sam, ctx id).
pub fn legal_unicast_modes(a: &[u8; 16], ll: Ll, ctxs: &Ctxs) -> Vec<(bool, u8, u8)> {
    let mut v = vec![(false, 0u8, 0u8)];
    let form16 = a[8..14] == [0, 0, 0, 0xff, 0xfe, 0];
    let derived = ll.iid().map(|i| a[8..] == i).unwrap_or(false);
    if a[..8] == [0xfe, 0x80, 0, 0, 0, 0, 0, 0] {
        v.push((false, 1, 0));
        if form16 {
            v.push((false, 2, 0));
        }
        if derived {
            v.push((false, 3, 0));
        }
    }
    for (i, c) in ctxs.0.iter().enumerate() {
        if let Some(c) = c {
            if a[..8] == *c {
                v.push((true, 1, i as u8));
                if form16 {
                    v.push((true, 2, i as u8));
                }
                if derived {
                    v.push((true, 3, i as u8));
                }
            }
        }
    }
    v
}

pub fn legal_multicast_modes(a: &[u8; 16]) -> Vec<u8> {
    let mut v = vec![0u8];
    if a[2..11] == [0; 9] {
        v.push(1);
    }
    if a[2..13] == [0; 11] {
        v.push(2);
    }
    if a[1] == 2 && a[2..15] == [0; 13] {
        v.push(3);
    }
    v
}

pub fn legal_tf(tc: u8, flow: u32) -> Vec<u8> {
    let mut v = vec![0u8];
    let dscp = tc >> 2;
    if dscp == 0 {
        v.push(1);
    }
    if flow == 0 {
        v.push(2);
    }
    if flow == 0 && tc == 0 {
        v.push(3);
    }
    v
}

pub fn legal_udp_p(sport: u16, dport: u16) -> Vec<u8> {
    let mut v = vec![0u8];
    if dport >> 8 == 0xf0 {
        v.push(1);
    }
    if sport >> 8 == 0xf0 {
        v.push(2);
    }
    if sport >> 4 == 0xf0b && dport >> 4 == 0xf0b {
        v.push(3);
    }
    v
}

/// Compress an IPv6 datagram (40-octet header, no extension headers) whose
/// octets are `dgram`. Returns (compressed headers, number of uncompressed
/// header octets they stand for). Panics if the mode cannot represent the datagram
/// (callers draw modes from the `legal_*` lists).
pub fn compress(dgram: &[u8], ll_src: Ll, ll_dst: Ll, ctxs: &Ctxs, m: &EncMode) -> (Vec<u8>, usize) {
    assert!(dgram.len() >= 40 && dgram[0] >> 4 == 6);
    let tc = (dgram[0] << 4) | (dgram[1] >> 4);
    let flow = (((dgram[1] & 15) as u32) << 16) | ((dgram[2] as u32) << 8) | dgram[3] as u32;
    let nh = dgram[6];
    let hop = dgram[7];
    let src: [u8; 16] = dgram[8..24].try_into().unwrap();
    let dst: [u8; 16] = dgram[24..40].try_into().unwrap();
    let ecn = tc & 3;
    let dscp = tc >> 2;
    let udp_nhc = m.udp_nhc && nh == PROTO_UDP;
    let hl = if m.hlim_inline {
        0
    } else {
        match hop {
            1 => 1,
            64 => 2,
            255 => 3,
            _ => 0,
        }
    };
    let multicast = dst[0] == 0xff;
    let cid = m.force_cid || (m.sac && m.sam != 0 && m.sci != 0) || (!multicast && m.dac && m.dci != 0);
    let mut b = vec![0x60 | (m.tf << 3) | ((udp_nhc as u8) << 2) | hl, 0];
    b[1] = ((cid as u8) << 7) | ((m.sac as u8) << 6) | (m.sam << 4) | ((multicast as u8) << 3) | ((m.dac as u8) << 2) | m.dam;
    if cid {
        b.push((m.sci << 4) | m.dci);
    }
    match m.tf {
        0 => {
            b.push((ecn << 6) | dscp);
            b.push((flow >> 16) as u8 & 15);
            b.push((flow >> 8) as u8);
            b.push(flow as u8);
        }
        1 => {
            assert!(dscp == 0);
            b.push((ecn << 6) | ((flow >> 16) as u8 & 15));
            b.push((flow >> 8) as u8);
            b.push(flow as u8);
        }
        2 => {
            assert!(flow == 0);
            b.push((ecn << 6) | dscp);
        }
        _ => assert!(flow == 0 && tc == 0),
    }
    if !udp_nhc {
        b.push(nh);
    }
    if hl == 0 {
        b.push(hop);
    }
    let put_unicast = |b: &mut Vec<u8>, a: &[u8; 16], stateful: bool, mode: u8, ci: u8, ll: Ll| {
        let prefix: [u8; 8] = if stateful { ctxs.0[ci as usize].expect("context") } else { [0xfe, 0x80, 0, 0, 0, 0, 0, 0] };
        match mode {
            0 => {
                assert!(!stateful);
                b.extend_from_slice(a);
            }
            1 => {
                assert!(a[..8] == prefix);
                b.extend_from_slice(&a[8..]);
            }
            2 => {
                assert!(a[..8] == prefix && a[8..14] == [0, 0, 0, 0xff, 0xfe, 0]);
                b.extend_from_slice(&a[14..]);
            }
            _ => {
                assert!(a[..8] == prefix && ll.iid().map(|i| a[8..] == i).unwrap_or(false));
            }
        }
    };
    if m.sac && m.sam == 0 {
        assert!(src == [0u8; 16]);
    } else {
        put_unicast(&mut b, &src, m.sac, m.sam, m.sci, ll_src);
    }
    if multicast {
        assert!(!m.dac);
        match m.dam {
            0 => b.extend_from_slice(&dst),
            1 => {
                assert!(dst[2..11] == [0; 9]);
                b.push(dst[1]);
                b.extend_from_slice(&dst[11..]);
            }
            2 => {
                assert!(dst[2..13] == [0; 11]);
                b.push(dst[1]);
                b.extend_from_slice(&dst[13..]);
            }
            _ => {
                assert!(dst[1] == 2 && dst[2..15] == [0; 13]);
                b.push(dst[15]);
            }
        }
    } else {
        put_unicast(&mut b, &dst, m.dac, m.dam, m.dci, ll_dst);
    }
    let mut unc = 40;
    if udp_nhc {
        let u = &dgram[40..48];
        let sport = u16::from_be_bytes([u[0], u[1]]);
        let dport = u16::from_be_bytes([u[2], u[3]]);
        b.push(0xf0 | ((m.udp_c as u8) << 2) | m.udp_p);
        match m.udp_p {
            0 => b.extend_from_slice(&u[0..4]),
            1 => {
                assert!(dport >> 8 == 0xf0);
                b.extend_from_slice(&u[0..2]);
                b.push(dport as u8);
            }
            2 => {
                assert!(sport >> 8 == 0xf0);
                b.push(sport as u8);
                b.extend_from_slice(&u[2..4]);
            }
            _ => {
                assert!(sport >> 4 == 0xf0b && dport >> 4 == 0xf0b);
                b.push((((sport & 15) as u8) << 4) | (dport & 15) as u8);
            }
        }
        if !m.udp_c {
            b.extend_from_slice(&u[6..8]);
        }
        unc = 48;
    }
    (b, unc)
}

/// Split a compressed datagram into FRAG1/FRAGN LOWPAN payloads.
/// `comp` = compressed headers (`comp_hdr` octets, standing for `unc_hdr`
/// uncompressed octets) followed by the rest of the datagram. `first_unc` is the
/// number of *uncompressed* octets covered by FRAG1 (multiple of 8, >= unc_hdr),
/// `next` the size of every further fragment (multiple of 8).
pub fn fragment(comp: &[u8], comp_hdr: usize, unc_hdr: usize, tag: u16, first_unc: usize, next: usize) -> Vec<Vec<u8>> {
    let size = unc_hdr + comp.len() - comp_hdr;
    assert!(first_unc % 8 == 0 && next % 8 == 0 && next > 0 && first_unc >= unc_hdr && first_unc < size);
    let mut out = vec![];
    let mut f = frag1_header(size, tag);
    let first_comp = comp_hdr + (first_unc - unc_hdr);
    f.extend_from_slice(&comp[..first_comp]);
    out.push(f);
    let mut off = first_unc;
    let mut at = first_comp;
    while off < size {
        let n = next.min(size - off);
        let mut f = fragn_header(size, tag, off);
        f.extend_from_slice(&comp[at..at + n]);
        out.push(f);
        off += n;
        at += n;
    }
    out
}

// ------------------------------------------------------------------ reference reassembler (receiver model)

pub type FragKey = (Ll, Ll, usize, u16);

#[derive(Clone, Debug)]
struct Slot {
    key: FragKey,
    expires_ms: i64,
    total: Option<usize>,
    /// disjoint, non-adjacent, sorted (start, end)
    ranges: Vec<(usize, usize)>,
}

/// Model of a reassembler with a bounded number of datagrams in progress, a
/// bounded number of disjoint ranges per datagram and a reassembly timeout.
#[derive(Clone, Debug)]
pub struct RefReasm {
    slots: Vec<Slot>,
    pub max_slots: usize,
    pub max_ranges: usize,
    pub timeout_ms: i64,
    /// statistics: why a fragment could not be tracked
    pub refused_slots: u32,
    pub refused_ranges: u32,
    pub expired: u32,
}

impl RefReasm {
    pub fn new(max_slots: usize, max_ranges: usize, timeout_ms: i64) -> RefReasm {
        RefReasm { slots: vec![], max_slots, max_ranges, timeout_ms, refused_slots: 0, refused_ranges: 0, expired: 0 }
    }
    /// start of a poll at time `now`: incomplete datagrams older than the timeout are discarded
    pub fn poll_begin(&mut self, now_ms: i64) {
        let before = self.slots.len();
        self.slots.retain(|s| !(s.expires_ms < now_ms));
        self.expired += (before - self.slots.len()) as u32;
    }
    /// A fragment covering uncompressed octets off..off+len arrives. Returns true when the datagram completes.
    pub fn fragment(&mut self, now_ms: i64, key: FragKey, first: bool, off: usize, len: usize) -> bool {
        if key.2 < 40 {
            return false;
        }
        let idx = match self.slots.iter().position(|s| s.key == key) {
            Some(i) => i,
            None => {
                if self.slots.len() >= self.max_slots {
                    self.refused_slots += 1;
                    return false;
                }
                self.slots.push(Slot { key, expires_ms: now_ms + self.timeout_ms, total: None, ranges: vec![] });
                self.slots.len() - 1
            }
        };
        let s = &mut self.slots[idx];
        if first {
            s.total = Some(key.2);
        }
        if len > 0 {
            let (a, b) = (off, off + len);
            let touches: Vec<usize> = s.ranges.iter().enumerate().filter(|(_, r)| a <= r.1 && r.0 <= b).map(|(i, _)| i).collect();
            if touches.is_empty() {
                if s.ranges.len() >= self.max_ranges {
                    self.refused_ranges += 1;
                } else {
                    s.ranges.push((a, b));
                    s.ranges.sort();
                }
            } else {
                let lo = a.min(s.ranges[touches[0]].0);
                let hi = b.max(s.ranges[*touches.last().unwrap()].1);
                for i in touches.iter().rev() {
                    s.ranges.remove(*i);
                }
                s.ranges.push((lo, hi));
                s.ranges.sort();
            }
        }
        let done = match s.total {
            Some(t) => s.ranges.first().map(|r| r.0 == 0 && r.1 == t).unwrap_or(false),
            None => false,
        };
        if done {
            self.slots.remove(idx);
        }
        done
    }
}
