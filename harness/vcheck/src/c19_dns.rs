//! Small DNS message codec for the C19 check, written from RFC 1035 (sections
//! 4.1.1 header, 4.1.2 question, 4.1.3 resource record, 4.1.4 compression).
//! Shares no code with `smoltcp::wire::dns`.
//!
//! The decoder is deliberately *lenient*: it is the basis of an oracle that
//! must allow everything the property statement allows, so wherever smoltcp
//! could legitimately be stricter (pointer direction, class, record lengths)
//! this decoder accepts more, never less.

use std::collections::BTreeSet;
use vkit::indep::Ip;

pub type Name = Vec<Vec<u8>>;

pub const T_A: u16 = 1;
pub const T_NS: u16 = 2;
pub const T_CNAME: u16 = 5;
pub const T_TXT: u16 = 16;
pub const T_AAAA: u16 = 28;
pub const C_IN: u16 = 1;

#[cfg(test)]
pub fn name_from_str(s: &str) -> Name {
    s.split('.').filter(|l| !l.is_empty()).map(|l| l.as_bytes().to_vec()).collect()
}

pub fn name_to_string(n: &Name) -> String {
    if n.is_empty() {
        return ".".into();
    }
    let mut out = String::new();
    for (i, l) in n.iter().enumerate() {
        if i > 0 {
            out.push('.');
        }
        if l.len() > 12 {
            out.push_str(&format!("<{}x{:?}>", l.len(), l[0] as char));
            continue;
        }
        for b in l {
            if b.is_ascii_alphanumeric() || *b == b'-' || *b == b'_' {
                out.push(*b as char);
            } else {
                out.push_str(&format!("\\{:03}", b));
            }
        }
    }
    out
}

pub fn lower(n: &Name) -> Name {
    n.iter().map(|l| l.to_ascii_lowercase()).collect()
}

/// RFC 1035 2.3.3 / RFC 4343: comparison is case-insensitive for ASCII letters.
pub fn name_eq_ci(a: &Name, b: &Name) -> bool {
    lower(a) == lower(b)
}

// ------------------------------------------------------------------ decoding

/// Position just after a name stored in place at `at` (ends at the root label
/// or at the first pointer); None when it runs off the packet or uses a
/// reserved label type.
pub fn skip_name(pkt: &[u8], at: usize) -> Option<usize> {
    let mut pos = at;
    loop {
        let b = *pkt.get(pos)?;
        match b & 0xC0 {
            0x00 => {
                if b == 0 {
                    return Some(pos + 1);
                }
                pos += 1 + b as usize;
                if pos > pkt.len() {
                    return None;
                }
            }
            0xC0 => {
                pkt.get(pos + 1)?;
                return Some(pos + 2);
            }
            _ => return None,
        }
    }
}

/// Decode the domain name at `at`, following compression pointers in any
/// direction. Pointer loops are detected (a pointer target may be visited once).
pub fn decode_name(pkt: &[u8], at: usize) -> Result<Name, String> {
    let mut labels: Name = vec![];
    let mut pos = at;
    let mut visited: Vec<usize> = vec![];
    let mut total = 0usize;
    loop {
        let b = *pkt.get(pos).ok_or_else(|| format!("name runs off the packet at {}", pos))?;
        match b & 0xC0 {
            0x00 => {
                if b == 0 {
                    return Ok(labels);
                }
                let l = b as usize;
                let lab = pkt.get(pos + 1..pos + 1 + l).ok_or_else(|| format!("label at {} runs off the packet", pos))?;
                labels.push(lab.to_vec());
                total += 1 + l;
                if total > 4096 {
                    return Err("name longer than 4096 octets".into());
                }
                pos += 1 + l;
            }
            0xC0 => {
                let b2 = *pkt.get(pos + 1).ok_or_else(|| format!("pointer at {} cut", pos))?;
                let ptr = (((b & 0x3f) as usize) << 8) | b2 as usize;
                if ptr >= pkt.len() {
                    return Err(format!("pointer at {} to {} beyond the packet", pos, ptr));
                }
                if visited.contains(&ptr) {
                    return Err(format!("pointer loop through {}", ptr));
                }
                visited.push(ptr);
                pos = ptr;
            }
            _ => return Err(format!("reserved label type {:#04x} at {}", b, pos)),
        }
    }
}

#[derive(Clone, Debug)]
#[allow(dead_code)]
pub struct Hdr {
    pub id: u16,
    pub flags: u16,
    pub qd: u16,
    pub an: u16,
    pub ns: u16,
    pub ar: u16,
}

impl Hdr {
    pub fn qr(&self) -> bool {
        self.flags & 0x8000 != 0
    }
    pub fn opcode(&self) -> u8 {
        ((self.flags >> 11) & 0xf) as u8
    }
    pub fn tc(&self) -> bool {
        self.flags & 0x0200 != 0
    }
    pub fn rcode(&self) -> u8 {
        (self.flags & 0xf) as u8
    }
}

#[derive(Clone, Debug)]
pub struct Q {
    pub name: Result<Name, String>,
    pub qtype: u16,
    pub qclass: u16,
}

#[derive(Clone, Debug)]
#[allow(dead_code)]
pub struct RR {
    pub owner: Result<Name, String>,
    pub rtype: u16,
    pub class: u16,
    pub ttl: u32,
    pub rdlen: usize,
    pub rdata_off: usize,
}

#[derive(Clone, Debug)]
pub struct Msg {
    pub hdr: Hdr,
    pub questions: Vec<Q>,
    /// all `qd` questions were present
    pub q_complete: bool,
    pub answers: Vec<RR>,
    /// all `an` answer records were present and structurally whole
    pub an_complete: bool,
}

fn be16(p: &[u8], at: usize) -> u16 {
    u16::from_be_bytes([p[at], p[at + 1]])
}

/// Decode as much of a message as is structurally present. None: shorter than a header.
pub fn decode_msg(pkt: &[u8]) -> Option<Msg> {
    if pkt.len() < 12 {
        return None;
    }
    let hdr = Hdr {
        id: be16(pkt, 0),
        flags: be16(pkt, 2),
        qd: be16(pkt, 4),
        an: be16(pkt, 6),
        ns: be16(pkt, 8),
        ar: be16(pkt, 10),
    };
    let mut m = Msg {
        hdr: hdr.clone(),
        questions: vec![],
        q_complete: false,
        answers: vec![],
        an_complete: false,
    };
    let mut pos = 12;
    for _ in 0..hdr.qd {
        let Some(next) = skip_name(pkt, pos) else { return Some(m) };
        if next + 4 > pkt.len() {
            return Some(m);
        }
        m.questions.push(Q {
            name: decode_name(pkt, pos),
            qtype: be16(pkt, next),
            qclass: be16(pkt, next + 2),
        });
        pos = next + 4;
    }
    m.q_complete = true;
    for _ in 0..hdr.an {
        let Some(next) = skip_name(pkt, pos) else { return Some(m) };
        if next + 10 > pkt.len() {
            return Some(m);
        }
        let rdlen = be16(pkt, next + 8) as usize;
        if next + 10 + rdlen > pkt.len() {
            return Some(m);
        }
        m.answers.push(RR {
            owner: decode_name(pkt, pos),
            rtype: be16(pkt, next),
            class: be16(pkt, next + 2),
            ttl: u32::from_be_bytes([pkt[next + 4], pkt[next + 5], pkt[next + 6], pkt[next + 7]]),
            rdlen,
            rdata_off: next + 10,
        });
        pos = next + 10 + rdlen;
    }
    m.an_complete = true;
    Some(m)
}

fn rr_addr(pkt: &[u8], r: &RR) -> Option<Ip> {
    if r.rtype == T_A && r.rdlen == 4 {
        let mut a = [0u8; 4];
        a.copy_from_slice(&pkt[r.rdata_off..r.rdata_off + 4]);
        Some(Ip::V4(a))
    } else if r.rtype == T_AAAA && r.rdlen == 16 {
        let mut a = [0u8; 16];
        a.copy_from_slice(&pkt[r.rdata_off..r.rdata_off + 16]);
        Some(Ip::V6(a))
    } else {
        None
    }
}

/// Every address held by an A/AAAA record of the answer section, whatever its owner.
pub fn all_addresses(pkt: &[u8], m: &Msg) -> Vec<Ip> {
    m.answers.iter().filter_map(|r| rr_addr(pkt, r)).collect()
}

/// Reference resolver: the addresses the statement permits a query for `qname`
/// to take from this message. Names reachable from `qname` through CNAME records
/// of the answer section (any record order, case-insensitive, any class) form
/// the permitted owner set; every A/AAAA record owned by one of them counts.
/// This is the most permissive reading of "records for other names are ignored
/// except along a CNAME chain started at the queried name".
pub fn reference_addresses(pkt: &[u8], m: &Msg, qname: &Name) -> (Vec<Ip>, usize) {
    let mut closure: BTreeSet<Name> = BTreeSet::new();
    closure.insert(lower(qname));
    let mut chain = 0usize;
    loop {
        let mut grew = false;
        for r in &m.answers {
            if r.rtype != T_CNAME {
                continue;
            }
            let Ok(owner) = &r.owner else { continue };
            if !closure.contains(&lower(owner)) {
                continue;
            }
            if let Ok(target) = decode_name(pkt, r.rdata_off) {
                if closure.insert(lower(&target)) {
                    grew = true;
                    chain += 1;
                }
            }
        }
        if !grew {
            break;
        }
    }
    let mut out = vec![];
    for r in &m.answers {
        let Ok(owner) = &r.owner else { continue };
        if !closure.contains(&lower(owner)) {
            continue;
        }
        if let Some(a) = rr_addr(pkt, r) {
            out.push(a);
        }
    }
    (out, chain)
}

/// One-line description of a datagram payload as this decoder reads it (for failure messages).
pub fn describe(pkt: &[u8]) -> String {
    let Some(m) = decode_msg(pkt) else { return format!("{} bytes, shorter than a DNS header", pkt.len()) };
    let tn = |t: u16| match t {
        T_A => "A".to_string(),
        T_AAAA => "AAAA".to_string(),
        T_CNAME => "CNAME".to_string(),
        x => format!("TYPE{}", x),
    };
    let nm = |n: &Result<Name, String>| match n {
        Ok(n) => name_to_string(n),
        Err(e) => format!("<{}>", e),
    };
    let qs: Vec<String> = m.questions.iter().map(|q| format!("{} {}{}", nm(&q.name), tn(q.qtype), if q.qclass != C_IN { format!(" class={}", q.qclass) } else { String::new() })).collect();
    let rs: Vec<String> = m
        .answers
        .iter()
        .map(|r| {
            let data = if let Some(a) = rr_addr(pkt, r) {
                a.to_string()
            } else if r.rtype == T_CNAME {
                nm(&decode_name(pkt, r.rdata_off))
            } else {
                format!("{} bytes", r.rdlen)
            };
            format!("{} {} {}{}", nm(&r.owner), tn(r.rtype), data, if r.class != C_IN { format!(" class={}", r.class) } else { String::new() })
        })
        .collect();
    format!(
        "id={:#06x} flags={:#06x} qd={} an={} questions=[{}] answers=[{}]{}",
        m.hdr.id,
        m.hdr.flags,
        m.hdr.qd,
        m.hdr.an,
        qs.join("; "),
        rs.join("; "),
        if m.an_complete { "" } else { " (answer section incomplete/malformed)" }
    )
}

// ------------------------------------------------------------------ encoding

/// How a domain name is written into a message.
#[derive(Clone, Copy, Debug, PartialEq, Eq)]
pub enum Enc {
    /// labels and root label
    Plain,
    /// RFC 1035 4.1.4: longest already-written suffix replaced by a backward pointer
    Compress,
    /// pointer to an earlier *pointer* that resolves to the name (falls back to Compress)
    Chain,
    /// pointer to a copy of the name written after the last record
    Forward,
    /// first label in place, then a forward pointer to the rest
    LabelThenForward,
    /// pointer to its own first octet
    SelfPtr,
    /// pointer to a pointer (after the last record) that points back
    Loop,
    /// pointer beyond the end of the message
    OutOfRange,
    /// a label with the reserved type bits 01
    BadType,
    /// labels without the terminating root label
    NoTerminator,
}

enum Fix {
    Name(Name),
    LoopBack,
}

pub struct Builder {
    pub buf: Vec<u8>,
    suffixes: Vec<(Name, usize)>,
    ptrs: Vec<(Name, usize)>,
    fixups: Vec<(usize, Fix)>,
    /// pointer kinds actually written (a Compress with nothing to point at writes none)
    pub kinds: BTreeSet<&'static str>,
}

impl Builder {
    pub fn new(id: u16, flags: u16) -> Builder {
        let mut buf = vec![0u8; 12];
        buf[0..2].copy_from_slice(&id.to_be_bytes());
        buf[2..4].copy_from_slice(&flags.to_be_bytes());
        Builder {
            buf,
            suffixes: vec![],
            ptrs: vec![],
            fixups: vec![],
            kinds: BTreeSet::new(),
        }
    }
    pub fn set_counts(&mut self, qd: u16, an: u16, ns: u16, ar: u16) {
        self.buf[4..6].copy_from_slice(&qd.to_be_bytes());
        self.buf[6..8].copy_from_slice(&an.to_be_bytes());
        self.buf[8..10].copy_from_slice(&ns.to_be_bytes());
        self.buf[10..12].copy_from_slice(&ar.to_be_bytes());
    }
    fn ptr(&mut self, to: usize) {
        debug_assert!(to < 0x4000);
        self.buf.push(0xC0 | (to >> 8) as u8);
        self.buf.push(to as u8);
    }
    fn plain_from(&mut self, name: &Name, from: usize, remember: bool) {
        for i in from..name.len() {
            if remember && self.buf.len() < 0x4000 {
                self.suffixes.push((name[i..].to_vec(), self.buf.len()));
            }
            assert!(name[i].len() < 64 && !name[i].is_empty());
            self.buf.push(name[i].len() as u8);
            self.buf.extend_from_slice(&name[i]);
        }
    }
    fn compress(&mut self, name: &Name) {
        for i in 0..name.len() {
            let suffix = &name[i..];
            if let Some((_, off)) = self.suffixes.iter().find(|(s, _)| s.as_slice() == suffix) {
                let off = *off;
                let at = self.buf.len();
                self.ptr(off);
                self.kinds.insert("ptr:backward");
                if i == 0 {
                    self.ptrs.push((name.clone(), at));
                }
                return;
            }
            if self.buf.len() < 0x4000 {
                self.suffixes.push((suffix.to_vec(), self.buf.len()));
            }
            self.buf.push(name[i].len() as u8);
            self.buf.extend_from_slice(&name[i]);
        }
        self.buf.push(0);
    }
    pub fn put_name(&mut self, name: &Name, enc: Enc) {
        match enc {
            Enc::Plain => {
                self.plain_from(name, 0, true);
                self.buf.push(0);
            }
            Enc::Compress => self.compress(name),
            Enc::Chain => {
                if let Some((_, off)) = self.ptrs.iter().find(|(n, _)| n == name) {
                    let off = *off;
                    self.ptr(off);
                    self.kinds.insert("ptr:chain");
                } else {
                    self.compress(name);
                }
            }
            Enc::Forward => {
                self.fixups.push((self.buf.len(), Fix::Name(name.clone())));
                self.ptr(0);
                self.kinds.insert("ptr:forward");
            }
            Enc::LabelThenForward => {
                if name.len() < 2 {
                    self.fixups.push((self.buf.len(), Fix::Name(name.clone())));
                } else {
                    self.buf.push(name[0].len() as u8);
                    self.buf.extend_from_slice(&name[0]);
                    self.fixups.push((self.buf.len(), Fix::Name(name[1..].to_vec())));
                }
                self.ptr(0);
                self.kinds.insert("ptr:forward");
            }
            Enc::SelfPtr => {
                let at = self.buf.len();
                self.ptr(at.min(0x3fff));
                self.kinds.insert("ptr:self");
            }
            Enc::Loop => {
                self.fixups.push((self.buf.len(), Fix::LoopBack));
                self.ptr(0);
                self.kinds.insert("ptr:loop");
            }
            Enc::OutOfRange => {
                self.ptr(0x3fff);
                self.kinds.insert("ptr:out-of-range");
            }
            Enc::BadType => {
                for (i, l) in name.iter().enumerate() {
                    self.buf.push(l.len() as u8 | if i == 0 { 0x40 } else { 0 });
                    self.buf.extend_from_slice(l);
                }
                self.buf.push(0);
                self.kinds.insert("name:reserved-label-type");
            }
            Enc::NoTerminator => {
                self.plain_from(name, 0, false);
                self.kinds.insert("name:no-terminator");
            }
        }
    }
    pub fn put_question(&mut self, name: &Name, enc: Enc, qtype: u16, qclass: u16) {
        self.put_name(name, enc);
        self.buf.extend_from_slice(&qtype.to_be_bytes());
        self.buf.extend_from_slice(&qclass.to_be_bytes());
    }
    pub fn put_record(&mut self, r: &Rec) {
        self.put_name(&r.owner, r.enc);
        self.buf.extend_from_slice(&r.rtype.to_be_bytes());
        self.buf.extend_from_slice(&r.class.to_be_bytes());
        self.buf.extend_from_slice(&r.ttl.to_be_bytes());
        let len_at = self.buf.len();
        self.buf.extend_from_slice(&[0, 0]);
        let start = self.buf.len();
        match &r.data {
            RData::A(a) => self.buf.extend_from_slice(a),
            RData::Aaaa(a) => self.buf.extend_from_slice(a),
            RData::Cname(n, e) => self.put_name(n, *e),
            RData::Raw(d) => self.buf.extend_from_slice(d),
        }
        let len = (self.buf.len() - start) as i64 + r.rdlen_delta as i64;
        let len = len.clamp(0, 65535) as u16;
        self.buf[len_at..len_at + 2].copy_from_slice(&len.to_be_bytes());
    }
    /// Append the names forward pointers refer to and patch the pointers.
    pub fn finish(mut self) -> (Vec<u8>, BTreeSet<&'static str>) {
        let fixups = std::mem::take(&mut self.fixups);
        for (at, f) in fixups {
            let target = self.buf.len();
            if target >= 0x4000 {
                continue;
            }
            self.buf[at] = 0xC0 | (target >> 8) as u8;
            self.buf[at + 1] = target as u8;
            match f {
                Fix::Name(n) => {
                    self.plain_from(&n, 0, false);
                    self.buf.push(0);
                }
                Fix::LoopBack => self.ptr(at),
            }
        }
        (self.buf, self.kinds)
    }
}

#[derive(Clone, Debug)]
pub enum RData {
    A([u8; 4]),
    Aaaa([u8; 16]),
    Cname(Name, Enc),
    Raw(Vec<u8>),
}

#[derive(Clone, Debug)]
pub struct Rec {
    pub owner: Name,
    pub enc: Enc,
    pub rtype: u16,
    pub class: u16,
    pub ttl: u32,
    pub data: RData,
    /// added to the true RDLENGTH (0 = honest)
    pub rdlen_delta: i32,
}

impl Rec {
    pub fn describe(&self) -> String {
        let d = match &self.data {
            RData::A(a) => format!("A {}", Ip::V4(*a)),
            RData::Aaaa(a) => format!("AAAA {}", Ip::V6(*a)),
            RData::Cname(n, e) => format!("CNAME {}{}", name_to_string(n), if *e == Enc::Plain { String::new() } else { format!(" [{:?}]", e) }),
            RData::Raw(d) => format!("TYPE{} {} bytes", self.rtype, d.len()),
        };
        format!(
            "{}{} {}{}{}",
            name_to_string(&self.owner),
            if self.enc == Enc::Plain { String::new() } else { format!(" [{:?}]", self.enc) },
            d,
            if self.class != C_IN { format!(" class={}", self.class) } else { String::new() },
            if self.rdlen_delta != 0 { format!(" rdlen{:+}", self.rdlen_delta) } else { String::new() }
        )
    }
}

#[cfg(test)]
mod t {
    use super::*;
    #[test]
    fn roundtrip_and_loops() {
        let n = name_from_str("www.example.com");
        let mut b = Builder::new(7, 0x8180);
        b.set_counts(1, 2, 0, 0);
        b.put_question(&n, Enc::Plain, T_A, C_IN);
        b.put_record(&Rec { owner: n.clone(), enc: Enc::Compress, rtype: T_CNAME, class: 1, ttl: 5, data: RData::Cname(name_from_str("x.example.com"), Enc::Compress), rdlen_delta: 0 });
        b.put_record(&Rec { owner: name_from_str("x.example.com"), enc: Enc::Forward, rtype: T_A, class: 1, ttl: 5, data: RData::A([1, 2, 3, 4]), rdlen_delta: 0 });
        let (p, _) = b.finish();
        let m = decode_msg(&p).unwrap();
        assert!(m.an_complete);
        let (a, chain) = reference_addresses(&p, &m, &name_from_str("WWW.example.com"));
        assert_eq!(a, vec![Ip::V4([1, 2, 3, 4])]);
        assert_eq!(chain, 1);
        let mut b = Builder::new(7, 0x8180);
        b.put_name(&n, Enc::Loop);
        b.put_name(&n, Enc::SelfPtr);
        let (p, _) = b.finish();
        assert!(decode_name(&p, 12).is_err());
        assert!(decode_name(&p, 14).is_err());
    }
}
