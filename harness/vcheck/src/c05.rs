//! C05 - a TCP sender stays inside the peer's window and MSS and never alters data.
//!
//! One socket, application writes a PRF stream; a scripted peer acknowledges and
//! advertises windows arbitrarily (only ever sending segments whose
//! acceptability is unambiguous, so the window the sender has learned is known
//! exactly). Every emitted segment is decoded independently and checked.

use smoltcp::socket::tcp;
use vkit::indep::*;
use vkit::runner::{Fail, Part, Prop};
use vkit::sim::tcpbed::{prf_bytes, tsgen, TcpBed};
use vkit::{vensure, Ctx, Src};

struct Model {
    iss: u32,
    irs: u32,
    /// app stream written so far
    written: Vec<u8>,
    close_called: bool,
    /// highest acknowledged data offset delivered in an acceptable segment
    una: i64,
    /// highest sequence offset sent (data offsets; +1 once FIN was sent)
    snd_max: i64,
    fin_sent: bool,
    /// window learned from the last acceptable segment delivered: (ack offset, window bytes)
    learned: Option<(i64, i64)>,
    /// effective MSS the sender may use (payload + options), None before the peer's SYN
    eff_mss: usize,
    peer_scale: u8,
    /// shift the socket applies to its own non-SYN windows
    own_shift: u8,
    rx_cap: usize,
    mtu: usize,
    v6: bool,
    data_segments: u32,
    retransmissions: u32,
    window_changes: u32,
    established: bool,
}

impl Model {
    fn check_emitted(&mut self, seg: &Tcp, ctx: &mut Ctx) -> Result<(), Fail> {
        let ip_hdr = if self.v6 { 40 } else { 20 };
        let opt_len = seg.opt_bytes().len();
        let total = ip_hdr + 20 + opt_len + seg.payload.len();
        vensure!(total <= self.mtu, "segment-exceeds-mtu", "IP length {} > MTU {}", total, self.mtu);
        if seg.has(RST) {
            return Ok(());
        }
        if seg.has(SYN) {
            // clause 5: SYN segments carry an unscaled window
            let want = self.rx_cap.min(65535) as u16;
            vensure!(
                seg.win == want,
                "syn-window-scaled",
                "SYN window field {} but receive buffer {} (expected unscaled {})",
                seg.win,
                self.rx_cap,
                want
            );
            vensure!(seg.payload.is_empty(), "syn-with-data", "SYN carries {} bytes", seg.payload.len());
            return Ok(());
        }
        if !self.established {
            return Ok(());
        }
        // later windows are scaled as negotiated: the receive buffer is always empty here
        let want = (self.rx_cap >> self.own_shift).min(65535) as u16;
        vensure!(
            seg.win == want,
            "window-not-scaled-as-negotiated",
            "window field {} with receive buffer {} empty and negotiated shift {} (expected {})",
            seg.win,
            self.rx_cap,
            self.own_shift,
            want
        );
        let seq_rel = seq_diff(seg.seq, self.iss.wrapping_add(1));
        let len = seg.payload.len() as i64;
        if len > 0 {
            self.data_segments += 1;
            // clause 3: exactly the application's bytes
            vensure!(
                seq_rel >= 0 && seq_rel + len <= self.written.len() as i64,
                "sends-unwritten-bytes",
                "segment covers stream offsets {}..{} but the application wrote only {} bytes",
                seq_rel,
                seq_rel + len,
                self.written.len()
            );
            let exp = &self.written[seq_rel as usize..(seq_rel + len) as usize];
            if exp != &seg.payload[..] {
                let at = exp.iter().zip(seg.payload.iter()).position(|(a, b)| a != b).unwrap_or(0);
                return Err(Fail::new(
                    "payload-differs-from-written",
                    format!(
                        "segment at stream offset {} len {}: byte {} is {:#04x}, application wrote {:#04x}{}",
                        seq_rel,
                        len,
                        seq_rel as usize + at,
                        seg.payload[at],
                        exp[at],
                        if seq_rel + len <= self.snd_max { " (retransmission)" } else { "" }
                    ),
                ));
            }
            // clause 1: inside the learned window (one-byte zero-window probes excepted)
            let Some((ack_l, win_l)) = self.learned else {
                return Err(Fail::new("data-before-any-window", "data sent before any window was learned"));
            };
            let edge = ack_l + win_l;
            let is_probe = len == 1 && win_l == 0;
            if seq_rel + len > edge && !is_probe {
                let kind = if seq_rel + len <= self.snd_max { "retransmission" } else { "new data" };
                ctx.report(Fail::new(
                    format!("outside-window:{}", kind),
                    format!(
                        "{} segment covers offsets {}..{} but the last acceptable segment delivered acknowledged {} with window {} (right edge {})",
                        kind,
                        seq_rel,
                        seq_rel + len,
                        ack_l,
                        win_l,
                        edge
                    ),
                ))?;
            }
            if is_probe {
                ctx.label("zero-window-probe");
            }
            // clause 2: payload + options within the peer's MSS
            vensure!(
                seg.payload.len() + opt_len <= self.eff_mss,
                "exceeds-peer-mss",
                "payload {} + options {} > effective MSS {}",
                seg.payload.len(),
                opt_len,
                self.eff_mss
            );
            if seq_rel + len <= self.snd_max {
                self.retransmissions += 1;
            }
        }
        // clause 4: contiguous order, FIN placement
        vensure!(
            seq_rel <= self.snd_max,
            "sequence-gap",
            "segment starts at offset {} but only {} sequence numbers were sent so far",
            seq_rel,
            self.snd_max
        );
        if seg.has(FIN) {
            vensure!(self.close_called, "fin-before-close", "FIN sent although close() was not called");
            vensure!(
                seq_rel + len == self.written.len() as i64,
                "fin-misplaced",
                "FIN at offset {} but the application wrote {} bytes",
                seq_rel + len,
                self.written.len()
            );
            self.fin_sent = true;
            ctx.label("fin-sent");
        } else if self.fin_sent {
            // after the FIN only empty segments at FIN+1 or retransmissions of old data may follow
            vensure!(
                seq_rel + len <= self.written.len() as i64 + (len == 0) as i64,
                "data-after-fin",
                "segment reaches offset {} after the FIN at {}",
                seq_rel + len,
                self.written.len()
            );
        }
        let end = seq_rel + len + seg.has(FIN) as i64;
        if end > self.snd_max {
            self.snd_max = end;
        }
        Ok(())
    }

    /// The peer delivers a segment (no payload) with this ack offset / raw window. Returns whether acceptable.
    fn peer_delivers(&mut self, ack_rel: i64, raw_win: u16, syn: bool) -> bool {
        let acceptable = ack_rel >= self.una && ack_rel <= self.snd_max;
        if acceptable {
            let win = if syn { raw_win as i64 } else { (raw_win as i64) << self.peer_scale };
            if let Some((a, w)) = self.learned {
                if a + w != ack_rel + win {
                    self.window_changes += 1;
                }
            }
            self.learned = Some((ack_rel, win));
            self.una = ack_rel;
        }
        acceptable
    }
}

fn case(src: &mut Src, ctx: &mut Ctx) -> Result<(), Fail> {
    let v6 = src.chance(1, 4);
    let tx_cap = match src.weighted(&[3, 3, 2]) {
        0 => *src.pick(&[4096usize, 1, 2, 100, 536, 1460, 65535, 65536, 100_000, 200_000]),
        1 => src.usize(1, 5000),
        _ => src.biased(1, 200_000) as usize,
    };
    let rx_cap = *src.pick(&[4096usize, 64, 1, 65535, 65536, 100_000, 262_144, 1_000_000]);
    let mtu = if v6 { *src.pick(&[1500usize, 1280]) } else { *src.pick(&[1500usize, 576, 120, 68 + 40]) };
    let active = src.bool();
    let peer_mss: Option<u16> = if src.chance(4, 5) { Some(*src.pick(&[1460u16, 536, 100, 48, 47, 1, 0, 65535])) } else { None };
    let peer_ws: Option<u8> = if src.chance(2, 3) { Some(src.range(0, 14) as u8) } else { None };
    let peer_ts = src.chance(1, 3);
    let irs = src.u32();
    let seed = src.u64();
    let stream_seed = src.u64();
    // RFC 7323 2.3: a shift count above 14 is to be used as 14. One announced scale in eight is out of
    // range (decided from bits of the payload seed so that saved tapes keep their draws).
    let peer_ws: Option<u8> = match peer_ws {
        Some(_) if (stream_seed >> 40) & 7 == 0 => Some([15u8, 16, 31, 255][((stream_seed >> 43) & 3) as usize]),
        w => w,
    };
    if matches!(peer_ws, Some(w) if w > 14) {
        ctx.label("peer-ws-above-14");
    }
    let mut bed = TcpBed::new(v6, rx_cap, tx_cap, mtu, seed);
    let nagle = src.bool();
    bed.sock().set_nagle_enabled(nagle);
    let cc = src.draw(2);
    bed.sock().set_congestion_control(match cc {
        0 => tcp::CongestionControl::None,
        1 => tcp::CongestionControl::Reno,
        _ => tcp::CongestionControl::Cubic,
    });
    let sock_ts = src.chance(1, 3);
    if sock_ts {
        bed.sock().set_tsval_generator(Some(tsgen));
    }
    ctx.note(|| {
        format!(
            "{} tx_buffer={} rx_buffer={} mtu={} {} peer_mss={:?} peer_ws={:?} peer_ts={} sock_ts={} nagle={} cc={}",
            if v6 { "ipv6" } else { "ipv4" },
            tx_cap,
            rx_cap,
            mtu,
            if active { "connect" } else { "listen" },
            peer_mss,
            peer_ws,
            peer_ts,
            sock_ts,
            nagle,
            cc
        )
    });
    ctx.digest.u64(tx_cap as u64);
    ctx.digest.u64(mtu as u64);
    ctx.digest.u64(peer_mss.map(|m| m as u64 + 1).unwrap_or(0));

    let mut m = Model {
        iss: 0,
        irs,
        written: vec![],
        close_called: false,
        una: 0,
        snd_max: 0,
        fin_sent: false,
        learned: None,
        eff_mss: match peer_mss {
            None | Some(0) => 536,
            Some(v) => (v as usize).max(48),
        },
        peer_scale: 0,
        own_shift: 0,
        rx_cap,
        mtu,
        v6,
        data_segments: 0,
        retransmissions: 0,
        window_changes: 0,
        established: false,
    };
    let mut syn_opts = vec![];
    if let Some(v) = peer_mss {
        syn_opts.push(TcpOpt::Mss(v));
    }
    if let Some(w) = peer_ws {
        syn_opts.push(TcpOpt::Ws(w));
    }
    if peer_ts {
        syn_opts.push(TcpOpt::Ts(77, 0));
    }
    let (lport, rport) = (bed.lport, bed.rport);
    let mk = |ack: Option<u32>, flags: u8, win: u16, syn_seq: bool| {
        let mut t = Tcp::new(rport, lport, if syn_seq { irs } else { irs.wrapping_add(1) }, ack, flags, win);
        if peer_ts && !syn_seq {
            t.opts.push(TcpOpt::Ts(78, 0x12345678));
        }
        t
    };
    let syn_win = src.u16();

    // ---- handshake
    if active {
        bed.connect();
        let out = bed.poll()?;
        let Some(sy) = out.iter().find(|s| s.has(SYN)).cloned() else {
            ctx.label("no-syn");
            return Ok(());
        };
        m.iss = sy.seq;
        for s in &out {
            m.check_emitted(s, ctx)?;
        }
        m.snd_max = 0;
        let sock_ws = sy.ws();
        if let (Some(p), Some(o)) = (peer_ws, sock_ws) {
            m.peer_scale = p.min(14);
            m.own_shift = o;
        }
        let mut sa = mk(Some(m.iss.wrapping_add(1)), SYN, syn_win, true);
        sa.opts = syn_opts.clone();
        m.peer_delivers(0, syn_win, true);
        m.established = true;
        let out = bed.deliver(&sa)?;
        for s in &out {
            m.check_emitted(s, ctx)?;
        }
    } else {
        bed.listen();
        // In a quarter of the passive opens an earlier connection attempt with other options
        // (window scale, MSS, timestamps, initial sequence number) is answered and then reset by
        // the peer: nothing negotiated in it may leak into the connection that follows.
        // (decided from bits of the payload seed so that saved tapes keep their draws)
        if (stream_seed >> 3) & 3 == 0 {
            let b = stream_seed >> 8;
            let irs0 = irs.wrapping_add(0x0100_0000 + (b as u32 & 0xffff));
            let mut o = vec![];
            match b & 3 {
                0 => {}
                1 => o.push(TcpOpt::Mss(1460)),
                2 => o.push(TcpOpt::Mss(65535)),
                _ => o.push(TcpOpt::Mss(100)),
            }
            match (b >> 2) & 3 {
                0 => {}
                1 => o.push(TcpOpt::Ws(7)),
                2 => o.push(TcpOpt::Ws(14)),
                _ => o.push(TcpOpt::Ws(((b >> 12) % 15) as u8)),
            }
            if (b >> 4) & 1 == 1 {
                o.push(TcpOpt::Ts(5, 0));
            }
            if (b >> 5) & 1 == 1 {
                o.push(TcpOpt::SackPerm);
            }
            let mut s0 = Tcp::new(rport, lport, irs0, None, SYN, 0xffff);
            s0.opts = o.clone();
            ctx.note(|| format!("peer: aborted attempt first: {}", s0));
            let out = bed.deliver(&s0)?;
            if out.iter().any(|s| s.has(SYN) && s.has(ACK)) {
                let r0 = Tcp::new(rport, lport, irs0.wrapping_add(1), None, RST, 0);
                let _ = bed.deliver(&r0)?;
                if bed.sock().state() == tcp::State::Listen {
                    ctx.label("aborted-attempt-before-handshake");
                } else {
                    ctx.label("aborted-attempt-not-back-in-listen");
                    return Ok(());
                }
            }
        }
        let mut sy = mk(None, SYN, syn_win, true);
        sy.opts = syn_opts.clone();
        let out = bed.deliver(&sy)?;
        let Some(sa) = out.iter().find(|s| s.has(SYN) && s.has(ACK)).cloned() else {
            ctx.label("no-synack");
            return Ok(());
        };
        m.iss = sa.seq;
        for s in &out {
            m.check_emitted(s, ctx)?;
        }
        if let (Some(p), Some(o)) = (peer_ws, sa.ws()) {
            m.peer_scale = p.min(14);
            m.own_shift = o;
        }
        vensure!(sa.ws().is_none() || peer_ws.is_some(), "ws-offered-unasked", "SYN-ACK offers window scaling although the SYN did not");
        // the SYN's window counts from offset 0
        m.learned = Some((0, syn_win as i64));
        // third segment of the handshake
        let w = src.u16();
        let a = mk(Some(m.iss.wrapping_add(1)), 0, w, false);
        m.peer_delivers(0, w, false);
        m.established = true;
        let out = bed.deliver(&a)?;
        for s in &out {
            m.check_emitted(s, ctx)?;
        }
    }
    if bed.sock().state() != tcp::State::Established {
        ctx.label("not-established");
        return Ok(());
    }
    if m.eff_mss <= 48 {
        ctx.label("tiny-mss");
    }

    // ---- main script
    let mut steps = 0;
    let mut last_peer: Option<(i64, u16)> = None;
    while steps < 300 && src.more(59, 60) {
        steps += 1;
        match src.weighted(&[5, 8, 3, 3, 1, 1]) {
            0 => {
                // application write
                if !m.close_called {
                    let n = match src.weighted(&[3, 3, 1]) {
                        0 => src.usize(1, 100),
                        1 => src.usize(1, 3000),
                        _ => src.usize(1, tx_cap.max(1)),
                    };
                    let data = prf_bytes(stream_seed, m.written.len() as u64, n);
                    match bed.sock().send_slice(&data) {
                        Ok(k) => {
                            ctx.note(|| format!("app: send_slice({}) -> {}", n, k));
                            m.written.extend_from_slice(&data[..k]);
                        }
                        Err(e) => ctx.note(|| format!("app: send_slice({}) -> {:?}", n, e)),
                    }
                    let out = bed.poll()?;
                    for s in &out {
                        ctx.note(|| format!("sock: {}", s));
                        m.check_emitted(s, ctx)?;
                    }
                }
            }
            1 => {
                // peer segment: ack and window drawn
                let ack_rel: i64 = match src.weighted(&[5, 4, 3, 1, 1, 3]) {
                    0 => m.snd_max,
                    1 => m.una,
                    2 => m.una + src.range(0, (m.snd_max - m.una) as u64) as i64,
                    3 => {
                        if m.una > 0 {
                            m.una - 1 - src.range(0, (m.una - 1).min(5000) as u64) as i64
                        } else {
                            m.una
                        }
                    }
                    4 => m.written.len() as i64 + 2 + src.range(0, 70000) as i64,
                    _ => last_peer.map(|p| p.0).unwrap_or(m.una).max(m.una).min(m.snd_max),
                };
                let flight = (m.snd_max - ack_rel).max(0) as u64;
                let win: u16 = match src.weighted(&[3, 3, 2, 2, 2, 3]) {
                    0 => 0,
                    1 => src.range(1, 10) as u16,
                    2 => (flight >> m.peer_scale).min(65535) as u16 / 2,
                    3 => 65535,
                    4 => src.u16(),
                    _ => last_peer.map(|p| p.1).unwrap_or(1000),
                };
                if Some((ack_rel, win)) == last_peer {
                    ctx.label("peer:exact-duplicate");
                }
                last_peer = Some((ack_rel, win));
                let seg = mk(Some(m.iss.wrapping_add(1).wrapping_add(ack_rel as u32)), 0, win, false);
                let acc = m.peer_delivers(ack_rel, win, false);
                ctx.note(|| format!("peer: ack={} win={}<<{} {}", ack_rel, win, m.peer_scale, if acc { "(acceptable)" } else { "(to be ignored)" }));
                if win == 0 && acc {
                    ctx.label("peer:zero-window");
                }
                let out = bed.deliver(&seg)?;
                for s in &out {
                    ctx.note(|| format!("sock: {}", s));
                    m.check_emitted(s, ctx)?;
                }
            }
            2 => {
                // triple duplicate ACK with data in flight
                if m.snd_max > m.una {
                    let win = last_peer.map(|p| p.1).filter(|_| src.bool()).unwrap_or(src.u16());
                    ctx.label("peer:triple-dup-ack");
                    for _ in 0..4 {
                        let seg = mk(Some(m.iss.wrapping_add(1).wrapping_add(m.una as u32)), 0, win, false);
                        m.peer_delivers(m.una, win, false);
                        ctx.note(|| format!("peer: dup ack={} win={}", m.una, win));
                        let out = bed.deliver(&seg)?;
                        for s in &out {
                            ctx.note(|| format!("sock: {}", s));
                            m.check_emitted(s, ctx)?;
                        }
                    }
                    last_peer = Some((m.una, win));
                }
            }
            3 => {
                // let time pass up to the socket's own deadline (RTO, probe...)
                let t = bed.poll_at_us();
                let d = match t {
                    Some(t) if t > bed.now_us => (t - bed.now_us).min(120_000_000),
                    Some(_) => 0,
                    None => *src.pick(&[1_000i64, 1_000_000, 10_000_000]),
                };
                bed.advance(d);
                ctx.note(|| format!("time +{} us (poll_at)", d));
                let out = bed.poll()?;
                for s in &out {
                    ctx.note(|| format!("sock: {}", s));
                    m.check_emitted(s, ctx)?;
                }
            }
            4 => {
                let d = *src.pick(&[1i64, 1_000, 100_000, 1_000_000, 5_000_000]);
                bed.advance(d);
                ctx.note(|| format!("time +{} us", d));
                let out = bed.poll()?;
                for s in &out {
                    ctx.note(|| format!("sock: {}", s));
                    m.check_emitted(s, ctx)?;
                }
            }
            _ => {
                if !m.close_called && src.chance(1, 3) {
                    bed.sock().close();
                    m.close_called = true;
                    ctx.note(|| "app: close()".to_string());
                    let out = bed.poll()?;
                    for s in &out {
                        ctx.note(|| format!("sock: {}", s));
                        m.check_emitted(s, ctx)?;
                    }
                }
            }
        }
        if bed.sock().state() == tcp::State::Closed {
            break;
        }
    }
    if m.retransmissions > 0 {
        ctx.label("retransmission");
    }
    if m.window_changes > 0 {
        ctx.label("window-change");
    }
    if m.data_segments >= 3 && (m.retransmissions > 0 || m.window_changes > 0) {
        ctx.nontrivial = true;
    }
    ctx.count("data_segments", m.data_segments as u64);
    ctx.digest.u64(m.data_segments as u64);
    ctx.digest.u64(m.written.len() as u64);
    ctx.digest.u64(m.snd_max as u64);
    ctx.digest.u64(steps as u64);
    let _ = m.irs;
    Ok(())
}

pub fn prop() -> Prop {
    Prop {
        id: "C05",
        parts: vec![Part { name: "sender", case, quick: 400_000, thorough: 10_000_000 }],
        phases: vec![],
        smoltcp_panic_is_violation: true,
        rule: "one TCP socket (tx buffer 1..=200000, MTU/Nagle/timestamps/congestion control drawn, active or passive open) whose application writes a pseudo-random stream and closes, facing a scripted peer that announces MSS {absent,0,1,47,48,100,536,1460,65535} and window scale {absent,0..14, and 15/16/31/255 which count as 14} and then sends only empty segments with drawn ACK numbers (current, old, partial, stale, far future) and windows (zero, tiny, below flight size, huge, repeated), triple duplicate ACKs and RTO-length silences; every emitted segment is decoded independently and checked against the window/MSS delivered so far, the written bytes, contiguity, FIN placement and SYN/scaled window fields; non-trivial = >= 3 data segments and at least one retransmission or change of the learned window; distinct by digest of (config, totals)",
        assumptions: vec![
            "independent IPv4/IPv6/TCP codec in vkit::indep",
            "peer segments are either acceptable under both RFC 9293 and smoltcp (SND.UNA <= ACK <= SND.MAX) or unacceptable under both (below SND.UNA, or beyond everything the application wrote), so the learned window is unambiguous",
            "peer MSS below 48 is clamped to 48 by documented design (MIN_REMOTE_MSS); absent or zero MSS means 536",
            "keep-alive is disabled (its garbage octet is not application data)",
        ],
    }
}
