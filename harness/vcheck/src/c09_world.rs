//! C09 world: one smoltcp node (the SUT), a scripted link environment that
//! answers ARP / neighbour solicitations, and the queue models of the oracle.
//!
//! Everything the SUT emits is decoded with `vkit::indep` only.

use smoltcp::iface::SocketHandle;
use std::collections::{BTreeMap, BTreeSet, VecDeque};
use vkit::indep::*;
use vkit::runner::Fail;
use vkit::sim::{ms, Hw, Node};
use vkit::{vensure, Ctx};

pub const SUT_MAC: [u8; 6] = [0x02, 0, 0, 0, 0, 0x01];
/// UDP destination port of a datagram sent by a SUT socket = base + tag
pub const TAG_PORT: u16 = 2000;
/// UDP source port of a datagram injected by the environment = base + itag
pub const ITAG_PORT: u16 = 30000;
/// ICMP echo sequence numbers / raw tags of injected datagrams start here; sent ones are below
pub const ITAG_SEQ: u16 = 0x8000;
pub const GW: usize = 6;

#[derive(Clone, Debug)]
pub struct Host {
    pub ip4: [u8; 4],
    pub ip6: [u8; 16],
    pub mac: [u8; 6],
    /// None = never answers ARP / NS
    pub delay_ms: Option<i64>,
}

fn v6(segs: [u16; 8]) -> [u8; 16] {
    match Ip::v6(segs) {
        Ip::V6(a) => a,
        _ => unreachable!(),
    }
}

pub struct Net {
    pub eth: bool,
    pub mtu: usize,
    pub ip_mtu: usize,
    /// second subnet configured on the SUT
    pub second: bool,
    pub gw4: bool,
    pub gw6: bool,
    pub hosts: Vec<Host>,
}

impl Net {
    pub fn prim(&self, v6f: bool) -> Ip {
        if v6f {
            Ip::v6([0xfd00, 0, 0, 0, 0, 0, 0, 1])
        } else {
            Ip::V4([10, 0, 0, 1])
        }
    }
    pub fn sec(&self, v6f: bool) -> Ip {
        if v6f {
            Ip::v6([0xfd01, 0, 0, 0, 0, 0, 0, 1])
        } else {
            Ip::V4([10, 0, 1, 1])
        }
    }
    /// (address, prefix length) of every SUT address, in configuration order
    pub fn cidrs(&self) -> Vec<(Ip, u8)> {
        let mut v = vec![(self.prim(false), 24), (self.prim(true), 64), (Ip::v6([0xfe80, 0, 0, 0, 0, 0, 0, 1]), 64)];
        if self.second {
            v.push((self.sec(false), 24));
            v.push((self.sec(true), 64));
        }
        v
    }
    pub fn has_addr(&self, a: &Ip) -> bool {
        self.cidrs().iter().any(|c| c.0 == *a)
    }
    pub fn on_link(&self, a: &Ip) -> bool {
        self.cidrs().iter().any(|(c, plen)| match (c, a) {
            (Ip::V4(c), Ip::V4(a)) => c[..(*plen as usize / 8)] == a[..(*plen as usize / 8)],
            (Ip::V6(c), Ip::V6(a)) => c[..(*plen as usize / 8)] == a[..(*plen as usize / 8)],
            _ => false,
        })
    }
    pub fn is_bcast4(&self, a: &Ip) -> bool {
        match a {
            Ip::V4(a) => *a == [255; 4] || *a == [10, 0, 0, 255] || (self.second && *a == [10, 0, 1, 255]),
            _ => false,
        }
    }
    pub fn host_by_ip(&self, a: &Ip) -> Option<&Host> {
        self.hosts.iter().find(|h| match a {
            Ip::V4(x) => h.ip4 == *x,
            Ip::V6(x) => h.ip6 == *x,
        })
    }
    /// Can the SUT ever obtain a link-layer next hop for this destination?
    pub fn resolvable(&self, dst: &Ip) -> bool {
        if !self.eth || self.is_bcast4(dst) || dst.is_multicast() {
            return true;
        }
        if self.on_link(dst) {
            return self.host_by_ip(dst).map(|h| h.delay_ms.is_some()).unwrap_or(false);
        }
        let gw = if dst.is_v4() { self.gw4 } else { self.gw6 };
        gw && self.hosts[GW].delay_ms.is_some()
    }
    /// Expected Ethernet destination for an IP destination (None: cannot be sent at all).
    pub fn l2_for(&self, dst: &Ip) -> Option<[u8; 6]> {
        if self.is_bcast4(dst) {
            return Some(MAC_BROADCAST);
        }
        if dst.is_multicast() {
            return Some(mac_for_multicast(dst));
        }
        if self.on_link(dst) {
            return self.host_by_ip(dst).map(|h| h.mac);
        }
        let gw = if dst.is_v4() { self.gw4 } else { self.gw6 };
        if gw {
            Some(self.hosts[GW].mac)
        } else {
            None
        }
    }
    /// Does the SUT's IP layer accept this destination address (process_ipv4 / process_ipv6)?
    pub fn is_ours(&self, dst: &Ip) -> bool {
        self.has_addr(dst)
            || self.is_bcast4(dst)
            || *dst == Ip::V4([224, 0, 0, 1])
            || *dst == Ip::v6([0xff02, 0, 0, 0, 0, 0, 0, 1])
    }
}

pub fn make_hosts(delays: &[Option<i64>], second: bool) -> Vec<Host> {
    let mut v = vec![];
    for i in 0..6u8 {
        v.push(Host {
            ip4: [10, 0, 0, 10 + i],
            ip6: v6([0xfd00, 0, 0, 0, 0, 0, 0, 0x10 + i as u16]),
            mac: [0x02, 0, 0, 0, 0x01, i],
            delay_ms: delays[i as usize],
        });
    }
    v.push(Host {
        ip4: [10, 0, 0, 254],
        ip6: v6([0xfd00, 0, 0, 0, 0, 0, 0, 0xfe]),
        mac: [0x02, 0, 0, 0, 0x02, 0],
        delay_ms: delays[6],
    });
    if second {
        v.push(Host {
            ip4: [10, 0, 1, 10],
            ip6: v6([0xfd01, 0, 0, 0, 0, 0, 0, 0x10]),
            mac: [0x02, 0, 0, 0, 0x03, 0],
            delay_ms: delays[7],
        });
    }
    v
}

// ------------------------------------------------------------------ socket models

#[derive(Clone, Copy, Debug, PartialEq, Eq)]
pub enum Kind {
    Udp,
    Icmp,
    Raw,
}

#[derive(Clone, Copy, Debug, PartialEq, Eq)]
pub enum IcmpEp {
    Ident(u16),
    /// ICMP errors about datagrams sent from this local UDP port (optional local address)
    Udp(Option<Ip>, u16),
}

#[derive(Clone, Copy, Debug, PartialEq, Eq)]
pub enum St {
    Queued,
    /// first fragment seen, datagram not complete yet
    InFlight,
    Seen,
    Discarded,
    Skipped,
}

#[derive(Clone, Copy, Debug, PartialEq, Eq)]
pub enum Class {
    /// resolvable destination and fits: must be transmitted exactly once
    Must,
    /// no next hop can ever be learned: stays queued and blocks the socket's queue
    Blocked,
    /// malformed raw/ICMP buffer: dropped by the socket before any dispatch
    Drop,
    /// larger than the MTU (IPv6) or than the fragmentation buffer (IPv4): dropped by the
    /// interface once the next hop is known
    Oversize,
}

#[derive(Clone, Debug)]
pub enum L4 {
    Udp { sport: u16, dport: u16, payload: Vec<u8> },
    Icmp(Icmp),
    Raw(Vec<u8>),
}

#[derive(Clone, Debug)]
pub struct SendRec {
    pub status: St,
    pub class: Class,
    pub fragmented: bool,
    /// explicit source address (local_address, bound address, raw header); None = any SUT address of the family
    pub src: Option<Ip>,
    pub dst: Ip,
    pub proto: u8,
    pub hop: u8,
    pub l4: L4,
    pub desc: String,
}

#[derive(Clone, Debug)]
pub struct Inner {
    pub src: Ip,
    pub dst: Ip,
    pub proto: u8,
    pub data: Vec<u8>,
}

#[derive(Clone, Debug)]
pub enum RxWhat {
    Udp { src: Ip, sport: u16, dst: Ip, payload: Vec<u8> },
    Icmp { src: Ip, dst: Ip, msg: Icmp, inner: Option<Inner> },
    Raw { pkt: IpPkt },
}

#[derive(Clone, Debug)]
pub struct Arrival {
    pub itag: u32,
    /// the datagram is known to sit in the receive buffer (arrived at an empty buffer it fits, or was peeked)
    pub must: bool,
    /// size as the socket stores / returns it
    pub len: usize,
    pub what: RxWhat,
}

pub struct Sock {
    pub h: SocketHandle,
    pub kind: Kind,
    pub rx_meta: usize,
    pub rx_bytes: usize,
    pub tx_meta: usize,
    pub tx_bytes: usize,
    pub hop: Option<u8>,
    /// UDP: bound endpoint (None = closed)
    pub udp_ep: Option<(Option<Ip>, u16)>,
    pub icmp_ep: Option<IcmpEp>,
    /// raw: (ipv6?, protocol)
    pub raw_v6: bool,
    pub raw_proto: u8,
    // sender model
    pub sent: Vec<SendRec>,
    pub next_idx: usize,
    pub accepted_bytes: usize,
    // receiver model
    pub pending: VecDeque<Arrival>,
    pub known_empty: bool,
    pub delivered: BTreeSet<u32>,
}

/// What a recv-like call returned, in owned form.
#[derive(Clone, Debug)]
pub struct Got {
    pub bytes: Vec<u8>,
    /// UDP: (remote address, remote port, local_address)
    pub udp: Option<(Ip, u16, Option<Ip>)>,
    /// ICMP: remote address
    pub from: Option<Ip>,
}

pub enum RecvOutcome {
    Item(Got),
    Exhausted,
    Truncated,
}

/// A datagram the environment handed to the SUT's device, not yet ingested by a poll.
#[derive(Clone, Debug)]
pub struct Inj {
    pub itag: u32,
    pub pkt: IpPkt,
    pub desc: String,
}

pub struct World {
    pub node: Node,
    pub net: Net,
    pub now_ms: i64,
    pub socks: Vec<Sock>,
    /// tag-1 -> (socket index, index into sent)
    pub tags: Vec<(usize, usize)>,
    pub itags: u32,
    pub inj_queue: Vec<Inj>,
    /// (due time, frame)
    pub replies: Vec<(i64, Vec<u8>)>,
    pub reasm: Reasm4,
    pub fragkeys: BTreeMap<([u8; 4], [u8; 4], u8, u16), u32>,
    pub tail: bool,
    /// Interface::poll panicked (known finding): the case ends
    pub dead: bool,
    // statistics
    pub frames_out: u64,
    pub datagrams_out: u64,
    pub fragments_out: u64,
    pub arp_requests: u64,
    pub stack_originated: u64,
    pub progress: u64,
    pub backpressure_polls: u64,
    pub pending_neighbour_polls: u64,
    pub delivered_count: u64,
    pub must_arrivals: u64,
    pub truncated_errors: u64,
    /// class name -> count, turned into labels at the end of the case
    pub classes: BTreeMap<&'static str, u64>,
}

fn rd16(b: &[u8], at: usize) -> Option<u16> {
    if b.len() >= at + 2 {
        Some(u16::from_be_bytes([b[at], b[at + 1]]))
    } else {
        None
    }
}

fn is_echo(v6f: bool, ty: u8) -> bool {
    if v6f {
        ty == 128 || ty == 129
    } else {
        ty == 8 || ty == 0
    }
}

impl World {
    pub fn new(net: Net, seed: u64) -> World {
        let hw = if net.eth { Hw::Eth(SUT_MAC) } else { Hw::Ip };
        let mut node = Node::new(hw, net.mtu, seed, false, ms(0));
        for (a, plen) in net.cidrs() {
            node.add_addr(smoltcp::wire::IpCidr::new(a.to_smol(), plen));
        }
        if net.gw4 {
            node.iface
                .routes_mut()
                .add_default_ipv4_route(smoltcp::wire::Ipv4Address::new(10, 0, 0, 254))
                .expect("route table");
        }
        if net.gw6 {
            node.iface
                .routes_mut()
                .add_default_ipv6_route(smoltcp::wire::Ipv6Address::from(net.hosts[GW].ip6))
                .expect("route table");
        }
        World {
            node,
            net,
            now_ms: 0,
            socks: vec![],
            tags: vec![],
            itags: 0,
            inj_queue: vec![],
            replies: vec![],
            reasm: Reasm4::new(),
            fragkeys: BTreeMap::new(),
            tail: false,
            dead: false,
            frames_out: 0,
            datagrams_out: 0,
            fragments_out: 0,
            arp_requests: 0,
            stack_originated: 0,
            progress: 0,
            backpressure_polls: 0,
            pending_neighbour_polls: 0,
            delivered_count: 0,
            must_arrivals: 0,
            truncated_errors: 0,
            classes: BTreeMap::new(),
        }
    }

    pub fn new_tag(&mut self, k: usize) -> u32 {
        let idx = self.socks[k].sent.len();
        self.tags.push((k, idx));
        self.tags.len() as u32
    }
    /// Undo `new_tag` when the send call was refused.
    pub fn drop_tag(&mut self) {
        self.tags.pop();
    }

    // -------------------------------------------------------------- environment -> SUT

    /// Wrap an IP packet from a host/gateway into what the SUT's device receives.
    pub fn frame_for(&self, pkt: &IpPkt) -> Vec<u8> {
        let ipb = pkt.encode();
        if !self.net.eth {
            return ipb;
        }
        let src = pkt.src();
        let smac = match self.net.host_by_ip(&src) {
            Some(h) => h.mac,
            None => self.net.hosts[GW].mac,
        };
        let dst = pkt.dst();
        let dmac = if self.net.is_bcast4(&dst) {
            MAC_BROADCAST
        } else if dst.is_multicast() {
            mac_for_multicast(&dst)
        } else {
            SUT_MAC
        };
        Eth {
            dst: dmac,
            src: smac,
            ethertype: if dst.is_v4() { ETH_IPV4 } else { ETH_IPV6 },
            payload: ipb,
        }
        .encode()
    }

    pub fn inject(&mut self, inj: Inj) {
        let f = self.frame_for(&inj.pkt);
        self.node.inject(f);
        self.inj_queue.push(inj);
    }

    /// Same datagram, handed over as in-order IPv4 fragments cut at `cut` (multiple of 8).
    pub fn inject_fragmented(&mut self, inj: Inj, cut: usize) {
        let IpPkt::V4(whole) = &inj.pkt else { panic!("only IPv4 is fragmented by the environment") };
        assert!(cut % 8 == 0 && cut > 0 && cut < whole.payload.len());
        let mut a = whole.clone();
        a.id = inj.itag as u16;
        a.mf = true;
        a.payload = whole.payload[..cut].to_vec();
        let mut b = whole.clone();
        b.id = inj.itag as u16;
        b.frag_off = cut;
        b.payload = whole.payload[cut..].to_vec();
        for part in [a, b] {
            let f = self.frame_for(&IpPkt::V4(part));
            self.node.inject(f);
        }
        self.inj_queue.push(inj);
    }

    /// Model of the SUT's demultiplexing (process_ipv4/process_ipv6, raw_socket_filter,
    /// process_udp first-match rule, icmp accepts_*): which sockets must see this datagram.
    fn route_arrival(&self, inj: &Inj) -> Vec<(usize, Arrival, bool)> {
        let mut out = vec![];
        let pkt = &inj.pkt;
        let (src, dst) = (pkt.src(), pkt.dst());
        let v6f = !dst.is_v4();
        let ours = self.net.is_ours(&dst);
        let hdr = if v6f { 40 } else { 20 };
        // raw sockets: IPv4 before the destination check, IPv6 after it
        for (k, s) in self.socks.iter().enumerate() {
            if s.kind == Kind::Raw && s.raw_v6 == v6f && s.raw_proto == pkt.proto() {
                if v6f && !ours {
                    continue;
                }
                out.push((
                    k,
                    Arrival {
                        itag: inj.itag,
                        must: false,
                        len: hdr + pkt.payload().len(),
                        what: RxWhat::Raw { pkt: pkt.clone() },
                    },
                    // IPv4 packets for other hosts reach raw sockets in this implementation; not required
                    !ours,
                ));
            }
        }
        if !ours {
            return out;
        }
        let pl = pkt.payload();
        match pkt.proto() {
            PROTO_UDP => {
                // an IP payload may be longer than the UDP length field says: the datagram is what the
                // length field delimits (checksummed as such), the rest is not part of it
                let u = match decode_udp(pl, &src, &dst) {
                    Ok(u) => u,
                    Err(_) => {
                        let len = if pl.len() >= 8 { u16::from_be_bytes([pl[4], pl[5]]) as usize } else { 0 };
                        if len < 8 || len >= pl.len() {
                            return out;
                        }
                        let Ok(u) = decode_udp(&pl[..len], &src, &dst) else { return out };
                        u
                    }
                };
                for (k, s) in self.socks.iter().enumerate() {
                    if s.kind != Kind::Udp {
                        continue;
                    }
                    let Some((addr, port)) = s.udp_ep else { continue };
                    if port != u.dport {
                        continue;
                    }
                    if let Some(a) = addr {
                        if a != dst && !self.net.is_bcast4(&dst) && !dst.is_multicast() {
                            continue;
                        }
                    }
                    out.push((
                        k,
                        Arrival {
                            itag: inj.itag,
                            must: false,
                            len: u.payload.len(),
                            what: RxWhat::Udp {
                                src,
                                sport: u.sport,
                                dst,
                                payload: u.payload.clone(),
                            },
                        },
                        false,
                    ));
                    break; // first matching socket only
                }
            }
            PROTO_ICMP | PROTO_ICMPV6 => {
                if (pkt.proto() == PROTO_ICMPV6) != v6f {
                    return out;
                }
                let m = if v6f { decode_icmp6(pl, &src, &dst) } else { decode_icmp4(pl) };
                let Ok(m) = m else { return out };
                let echo = is_echo(v6f, m.ty);
                let inner = if echo { None } else { parse_inner(v6f, &m.body) };
                for (k, s) in self.socks.iter().enumerate() {
                    if s.kind != Kind::Icmp {
                        continue;
                    }
                    let hit = match (s.icmp_ep, echo) {
                        (Some(IcmpEp::Ident(id)), true) => id == m.ident(),
                        (Some(IcmpEp::Udp(addr, port)), false) => {
                            let is_err = if v6f { m.ty == 1 || m.ty == 3 } else { m.ty == 3 || m.ty == 11 };
                            is_err
                                && (addr.is_none() || addr == Some(dst))
                                && inner.as_ref().map(|i| i.proto == PROTO_UDP && rd16(&i.data, 0) == Some(port)).unwrap_or(false)
                        }
                        _ => false,
                    };
                    if hit {
                        out.push((
                            k,
                            Arrival {
                                itag: inj.itag,
                                must: false,
                                len: pl.len(),
                                what: RxWhat::Icmp {
                                    src,
                                    dst,
                                    msg: m.clone(),
                                    inner: inner.clone(),
                                },
                            },
                            false,
                        ));
                    }
                }
            }
            _ => {}
        }
        out
    }

    /// Record the arrivals of everything injected since the last poll (called right before a poll).
    fn account_arrivals(&mut self, ctx: &mut Ctx) {
        let q = std::mem::take(&mut self.inj_queue);
        for inj in &q {
            let routed = self.route_arrival(inj);
            if routed.is_empty() {
                ctx.label("rx:arrival-for-no-socket");
            }
            for (k, mut a, optional) in routed {
                let s = &mut self.socks[k];
                if s.known_empty && !optional && a.len <= s.rx_bytes && s.rx_meta >= 1 {
                    a.must = true;
                    self.must_arrivals += 1;
                }
                // stored or (optional / buffer full) not stored: either way no longer known to be empty
                s.known_empty = false;
                ctx.note(|| format!("  model: {} arrives for socket {}{}", inj.desc, k, if a.must { " (buffer known empty: must be delivered)" } else { "" }));
                s.pending.push_back(a);
            }
        }
    }

    // -------------------------------------------------------------- polling

    /// One Interface::poll with a transmit budget; everything emitted is checked.
    pub fn poll(&mut self, budget: Option<usize>, ctx: &mut Ctx) -> Result<usize, Fail> {
        // environment replies that are due
        let now = self.now_ms;
        let mut due = vec![];
        self.replies.retain(|(t, f)| {
            if *t <= now {
                due.push(f.clone());
                false
            } else {
                true
            }
        });
        for f in due {
            self.node.inject(f);
            self.progress += 1;
        }
        self.account_arrivals(ctx);
        let now = ms(self.now_ms);
        let node = &mut self.node;
        let frames = match vkit::runner::guarded(|| node.poll(now, budget)) {
            Ok(f) => f,
            Err(p) => {
                if !vkit::runner::panic_in_smoltcp(&p) {
                    panic!("harness panic during poll at {}:{}: {}", p.file, p.line, p.msg);
                }
                // same key the runner would compute; the interface is unusable afterwards
                self.dead = true;
                ctx.report(Fail::new(vkit::runner::panic_key(&p), format!("smoltcp panicked in Interface::poll at {}:{}: {}", p.file, p.line, p.msg)))?;
                return Ok(0);
            }
        };
        let n = frames.len();
        for f in &frames {
            self.on_frame(f, ctx)?;
        }
        if let Some(b) = budget {
            if n >= b && self.anything_queued() {
                self.backpressure_polls += 1;
            }
        }
        Ok(n)
    }

    pub fn anything_queued(&self) -> bool {
        self.socks.iter().any(|s| s.sent.iter().any(|r| r.status == St::Queued || r.status == St::InFlight))
    }

    // -------------------------------------------------------------- SUT -> environment

    fn on_frame(&mut self, f: &[u8], ctx: &mut Ctx) -> Result<(), Fail> {
        self.frames_out += 1;
        vensure!(f.len() <= self.net.mtu, "tx:frame-exceeds-mtu", "emitted a frame of {} bytes on a device with MTU {}", f.len(), self.net.mtu);
        let (ipb, l2dst): (Vec<u8>, Option<[u8; 6]>) = if self.net.eth {
            let e = decode_eth(f).map_err(|e| Fail::new("tx:undecodable-frame", e))?;
            vensure!(e.src == SUT_MAC, "tx:wrong-l2-source", "frame from {:02x?}", e.src);
            match e.ethertype {
                ETH_ARP => {
                    let a = decode_arp(&e.payload).map_err(|e| Fail::new("tx:undecodable-frame", e))?;
                    self.on_arp(&a, ctx);
                    return Ok(());
                }
                ETH_IPV4 | ETH_IPV6 => (e.payload, Some(e.dst)),
                t => return Err(Fail::new("tx:undecodable-frame", format!("ethertype {:#06x}", t))),
            }
        } else {
            (f.to_vec(), None)
        };
        let ip = decode_ip(&ipb, true).map_err(|e| Fail::new("tx:undecodable-ip", format!("{} in {:02x?}", e, &ipb[..ipb.len().min(48)])))?;
        if let IpPkt::V6(p) = &ip {
            if p.proto == PROTO_ICMPV6 && p.payload.first() == Some(&ND_NS) {
                self.on_ns(&ip, ctx);
                return Ok(());
            }
        }
        match &ip {
            IpPkt::V4(p) if p.mf || p.frag_off != 0 => {
                let p = p.clone();
                self.on_fragment(p, l2dst, ctx)
            }
            _ => self.on_datagram(&ip, l2dst, false, ctx),
        }
    }

    fn on_arp(&mut self, a: &Arp, ctx: &mut Ctx) {
        if a.op != 1 {
            return;
        }
        self.arp_requests += 1;
        let target = Ip::V4(a.tpa);
        ctx.note(|| format!("  wire: ARP who-has {} tell {}", target, Ip::V4(a.spa)));
        let Some(h) = self.net.host_by_ip(&target).cloned() else { return };
        let Some(d) = h.delay_ms else { return };
        let rep = Arp {
            op: 2,
            sha: h.mac,
            spa: h.ip4,
            tha: a.sha,
            tpa: a.spa,
        };
        let frame = Eth {
            dst: a.sha,
            src: h.mac,
            ethertype: ETH_ARP,
            payload: rep.encode(),
        }
        .encode();
        let due = if self.tail { self.now_ms } else { self.now_ms + d };
        self.replies.push((due, frame));
    }

    fn on_ns(&mut self, ip: &IpPkt, ctx: &mut Ctx) {
        self.arp_requests += 1;
        let pl = ip.payload();
        if pl.len() < 24 {
            return;
        }
        let mut t = [0u8; 16];
        t.copy_from_slice(&pl[8..24]);
        let target = Ip::V6(t);
        ctx.note(|| format!("  wire: NS who-has {} from {}", target, ip.src()));
        let Some(h) = self.net.host_by_ip(&target).cloned() else { return };
        let Some(d) = h.delay_ms else { return };
        let dst = ip.src();
        let na = nd_na(&t, 0x60, Some(&h.mac));
        let l4 = na.encode6(&target, &dst);
        let pkt = IpPkt::build(target, dst, PROTO_ICMPV6, 255, l4);
        let frame = Eth {
            dst: SUT_MAC,
            src: h.mac,
            ethertype: ETH_IPV6,
            payload: pkt.encode(),
        }
        .encode();
        let due = if self.tail { self.now_ms } else { self.now_ms + d };
        self.replies.push((due, frame));
    }

    /// Tag of the socket datagram this IP packet (or first fragment) carries.
    fn identify(&self, ip: &IpPkt) -> Option<u32> {
        let pl = ip.payload();
        let n = self.tags.len() as u32;
        let v6f = !ip.dst().is_v4();
        let t = match ip.proto() {
            PROTO_UDP => {
                let dp = rd16(pl, 2)?;
                if dp > TAG_PORT {
                    (dp - TAG_PORT) as u32
                } else {
                    return None;
                }
            }
            PROTO_ICMP | PROTO_ICMPV6 => {
                if (ip.proto() == PROTO_ICMPV6) != v6f || pl.len() < 8 || !is_echo(v6f, pl[0]) {
                    return None;
                }
                let seq = rd16(pl, 6)?;
                if seq >= ITAG_SEQ {
                    return None;
                }
                seq as u32
            }
            253 | 254 => {
                let t = rd16(pl, 0)?;
                if t >= ITAG_SEQ {
                    return None;
                }
                t as u32
            }
            _ => return None,
        };
        if t >= 1 && t <= n {
            Some(t)
        } else {
            None
        }
    }

    /// Traffic the stack originates by itself (not from a socket queue).
    fn stack_originated(&self, ip: &IpPkt) -> bool {
        let pl = ip.payload();
        let v6f = !ip.dst().is_v4();
        match ip.proto() {
            PROTO_IGMP => !v6f,
            PROTO_ICMP if !v6f => {
                if pl.len() < 8 {
                    return false;
                }
                match pl[0] {
                    3 | 11 | 12 => true,
                    0 => rd16(pl, 6).map(|s| s >= ITAG_SEQ).unwrap_or(false),
                    _ => false,
                }
            }
            PROTO_ICMPV6 if v6f => {
                if pl.len() < 4 {
                    return false;
                }
                match pl[0] {
                    1..=4 | 130..=137 | 143 => true,
                    129 => rd16(pl, 6).map(|s| s >= ITAG_SEQ).unwrap_or(false),
                    _ => false,
                }
            }
            _ => false,
        }
    }

    fn first_sight(&mut self, tag: u32, ctx: &mut Ctx) -> Result<(), Fail> {
        let (k, i) = self.tags[tag as usize - 1];
        let desc = self.socks[k].sent[i].desc.clone();
        match self.socks[k].sent[i].status {
            St::Queued => {}
            St::InFlight | St::Seen => return Err(Fail::new("tx:datagram-duplicated", format!("socket {}: {} appeared on the wire a second time", k, desc))),
            St::Discarded => return Err(Fail::new("tx:sent-after-close", format!("socket {}: {} was discarded by close() but was transmitted", k, desc))),
            St::Skipped => {
                return Err(Fail::new(
                    "tx:datagram-reordered",
                    format!("socket {}: {} transmitted after a datagram that was queued behind it", k, desc),
                ))
            }
        }
        let from = self.socks[k].next_idx;
        for j in from..i {
            if self.socks[k].sent[j].status == St::Queued {
                self.socks[k].sent[j].status = St::Skipped;
                if self.socks[k].sent[j].class == Class::Must {
                    ctx.report(Fail::new(
                        "tx:datagram-lost-or-reordered",
                        format!(
                            "socket {}: {} (resolvable, fits) was not transmitted before {} which was queued behind it",
                            k, self.socks[k].sent[j].desc, desc
                        ),
                    ))?;
                }
            }
        }
        self.socks[k].next_idx = i + 1;
        self.socks[k].sent[i].status = St::InFlight;
        Ok(())
    }

    fn check_l2(&self, tag: u32, l2dst: Option<[u8; 6]>) -> Result<(), Fail> {
        let Some(l2) = l2dst else { return Ok(()) };
        let (k, i) = self.tags[tag as usize - 1];
        let r = &self.socks[k].sent[i];
        match self.net.l2_for(&r.dst) {
            Some(want) => {
                vensure!(
                    l2 == want,
                    "tx:wrong-l2-destination",
                    "socket {}: {} sent to link address {:02x?}, next hop for {} is {:02x?}",
                    k,
                    r.desc,
                    l2,
                    r.dst,
                    want
                );
            }
            None => {
                return Err(Fail::new("tx:sent-without-route", format!("socket {}: {} transmitted to {:02x?} although {} has no route", k, r.desc, l2, r.dst)));
            }
        }
        Ok(())
    }

    fn on_fragment(&mut self, p: Ip4, l2dst: Option<[u8; 6]>, ctx: &mut Ctx) -> Result<(), Fail> {
        self.fragments_out += 1;
        let key = (p.src, p.dst, p.proto, p.id);
        ctx.note(|| format!("  wire: fragment id={:#06x} off={} len={} mf={} {} -> {}", p.id, p.frag_off, p.payload.len(), p.mf, Ip::V4(p.src), Ip::V4(p.dst)));
        let tag = if p.frag_off == 0 {
            match self.identify(&IpPkt::V4(p.clone())) {
                Some(tag) => {
                    self.first_sight(tag, ctx)?;
                    self.fragkeys.insert(key, tag);
                    tag
                }
                None => {
                    if !self.stack_originated(&IpPkt::V4(p.clone())) {
                        return Err(Fail::new("tx:unattributable-packet", format!("first fragment matches no datagram accepted by a socket: {:02x?}", &p.payload[..p.payload.len().min(32)])));
                    }
                    // e.g. a large automatic echo reply: tag 0 = not from a socket queue
                    self.fragkeys.insert(key, 0);
                    0
                }
            }
        } else {
            match self.fragkeys.get(&key) {
                Some(t) => *t,
                None => return Err(Fail::new("tx:orphan-fragment", format!("fragment id={:#06x} offset {} without a first fragment", p.id, p.frag_off))),
            }
        };
        if tag == 0 {
            if let Ok(Some(_)) = self.reasm.push(&p) {
                self.fragkeys.remove(&key);
                self.stack_originated += 1;
            }
            return Ok(());
        }
        self.check_l2(tag, l2dst)?;
        match self.reasm.push(&p) {
            Err(e) => Err(Fail::new("tx:fragments-inconsistent", e)),
            Ok(None) => Ok(()),
            Ok(Some(full)) => {
                self.fragkeys.remove(&key);
                ctx.label("tx:fragmented-datagram-completed");
                self.on_datagram(&IpPkt::V4(full), l2dst, true, ctx)
            }
        }
    }

    fn on_datagram(&mut self, ip: &IpPkt, l2dst: Option<[u8; 6]>, seen_before: bool, ctx: &mut Ctx) -> Result<(), Fail> {
        let Some(tag) = self.identify(ip) else {
            if self.stack_originated(ip) {
                self.stack_originated += 1;
                ctx.note(|| format!("  wire: stack-originated {} -> {} proto {}", ip.src(), ip.dst(), ip.proto()));
                return Ok(());
            }
            return Err(Fail::new(
                "tx:unattributable-packet",
                format!(
                    "{} -> {} proto {} with {} payload bytes matches no datagram accepted by a socket: {:02x?}",
                    ip.src(),
                    ip.dst(),
                    ip.proto(),
                    ip.payload().len(),
                    &ip.payload()[..ip.payload().len().min(32)]
                ),
            ));
        };
        if !seen_before {
            self.first_sight(tag, ctx)?;
        }
        self.check_l2(tag, l2dst)?;
        let (k, i) = self.tags[tag as usize - 1];
        let r = self.socks[k].sent[i].clone();
        ctx.note(|| format!("  wire: {} (socket {})", r.desc, k));
        let modified = |what: &str, detail: String| Fail::new(format!("tx:datagram-modified:{}", what), format!("socket {}: {}: {}", k, r.desc, detail));
        if ip.dst() != r.dst {
            return Err(modified("dst-addr", format!("destination on the wire {}", ip.dst())));
        }
        match r.src {
            Some(s) => {
                if ip.src() != s {
                    return Err(modified("src-addr", format!("source on the wire {} but {} was requested", ip.src(), s)));
                }
            }
            None => {
                if !self.net.has_addr(&ip.src()) {
                    return Err(modified("src-addr", format!("source on the wire {} is not an address of the interface", ip.src())));
                }
            }
        }
        if ip.proto() != r.proto {
            return Err(modified("protocol", format!("protocol on the wire {}", ip.proto())));
        }
        if ip.hop() != r.hop {
            return Err(modified("hop-limit", format!("hop limit on the wire {} expected {}", ip.hop(), r.hop)));
        }
        let pl = ip.payload();
        match &r.l4 {
            L4::Udp { sport, dport, payload } => {
                let u = decode_udp(pl, &ip.src(), &ip.dst()).map_err(|e| modified("udp", e))?;
                if u.sport != *sport || u.dport != *dport {
                    return Err(modified("ports", format!("ports on the wire {}->{} expected {}->{}", u.sport, u.dport, sport, dport)));
                }
                if u.payload != *payload {
                    return Err(modified("payload", diff(&u.payload, payload)));
                }
            }
            L4::Icmp(m) => {
                let got = if ip.dst().is_v4() { decode_icmp4(pl) } else { decode_icmp6(pl, &ip.src(), &ip.dst()) };
                let got = match got {
                    Ok(g) => g,
                    Err(e) => {
                        if r.fragmented && e.contains("checksum") {
                            // distinct root cause: the message was serialised into the fragmentation buffer
                            ctx.report(Fail::new(
                                "tx:fragmented-icmp-checksum-wrong",
                                format!("socket {}: {}: reassembled from its fragments, but {}", k, r.desc, e),
                            ))?;
                            self.socks[k].sent[i].status = St::Seen;
                            self.datagrams_out += 1;
                            self.progress += 1;
                            return Ok(());
                        }
                        return Err(modified("icmp", e));
                    }
                };
                if got.ty != m.ty || got.code != m.code || got.rest != m.rest {
                    return Err(modified("icmp", format!("header on the wire {:?}/{:?}/{:02x?}", got.ty, got.code, got.rest)));
                }
                if got.body != m.body {
                    return Err(modified("payload", diff(&got.body, &m.body)));
                }
            }
            L4::Raw(b) => {
                if pl != &b[..] {
                    return Err(modified("payload", diff(pl, b)));
                }
            }
        }
        if r.class == Class::Drop || r.class == Class::Oversize {
            ctx.label("tx:drop-class-datagram-transmitted");
        }
        let cls = match (&r.l4, r.dst.is_v4()) {
            (L4::Udp { .. }, true) => "wire:udp4",
            (L4::Udp { .. }, false) => "wire:udp6",
            (L4::Icmp(_), true) => "wire:icmp4",
            (L4::Icmp(_), false) => "wire:icmp6",
            (L4::Raw(_), true) => "wire:raw4",
            (L4::Raw(_), false) => "wire:raw6",
        };
        *self.classes.entry(cls).or_insert(0) += 1;
        if self.net.eth && !self.net.on_link(&r.dst) && !self.net.is_bcast4(&r.dst) && !r.dst.is_multicast() {
            *self.classes.entry("wire:via-gateway").or_insert(0) += 1;
        }
        if self.net.is_bcast4(&r.dst) || r.dst.is_multicast() {
            *self.classes.entry("wire:broadcast-or-multicast").or_insert(0) += 1;
        }
        if r.src.is_some() {
            *self.classes.entry("wire:explicit-source-address").or_insert(0) += 1;
        }
        self.socks[k].sent[i].status = St::Seen;
        self.datagrams_out += 1;
        self.progress += 1;
        Ok(())
    }

    // -------------------------------------------------------------- sender model: API events

    pub fn on_close(&mut self, k: usize) {
        let s = &mut self.socks[k];
        for r in s.sent.iter_mut() {
            if r.status == St::Queued {
                r.status = St::Discarded;
            }
        }
        s.next_idx = s.sent.len();
        s.pending.clear();
        s.known_empty = true;
        s.udp_ep = None;
    }

    /// Socket `j` keeps asking for a neighbour that never answers (first datagram still in
    /// its queue that the stack does not drop by itself is unresolvable).
    fn blocked_head(&self, j: usize) -> bool {
        self.socks[j]
            .sent
            .iter()
            .find(|x| x.status == St::Queued && x.class != Class::Drop && x.class != Class::Oversize)
            .map(|x| x.class == Class::Blocked && self.net.eth)
            .unwrap_or(false)
    }

    /// After the tail phase: every datagram that had to be transmitted has been.
    pub fn final_tx_check(&mut self, ctx: &mut Ctx) -> Result<(), Fail> {
        for k in 0..self.socks.len() {
            let mut blocked = false;
            let mut behind_starved = false;
            for i in 0..self.socks[k].sent.len() {
                let r = self.socks[k].sent[i].clone();
                match r.status {
                    St::InFlight => {
                        ctx.report(Fail::new(
                            "tx:fragmented-datagram-lost-or-corrupted",
                            format!("socket {}: {}: first fragment was transmitted but the datagram never completed", k, r.desc),
                        ))?;
                    }
                    St::Queued => {
                        if blocked {
                            continue;
                        }
                        match r.class {
                            Class::Blocked => blocked = true,
                            Class::Drop => {}
                            Class::Oversize => {
                                // needs its next hop before it is dropped, so it can be starved too
                                let needs_neighbour = self.net.eth && !self.net.is_bcast4(&r.dst) && !r.dst.is_multicast();
                                if needs_neighbour
                                    && (0..self.socks.len()).any(|j| j != k && self.blocked_head(j))
                                {
                                    behind_starved = true;
                                }
                            }
                            Class::Must => {
                                let needs_neighbour = self.net.eth && !self.net.is_bcast4(&r.dst) && !r.dst.is_multicast();
                                // (any other socket: which one gets the single discovery slot first is
                                // the stack's service order, which no property fixes)
                                let starved = behind_starved
                                    || needs_neighbour
                                        && (0..self.socks.len()).any(|j| j != k && self.blocked_head(j));
                                behind_starved = starved;
                                let key = if starved {
                                    "tx:neighbour-discovery-starved-by-another-socket"
                                } else {
                                    "tx:datagram-never-transmitted"
                                };
                                ctx.report(Fail::new(
                                    key,
                                    format!(
                                        "socket {}: {} was accepted, its destination is resolvable and it fits, but it was never transmitted (tail phase: all ARP/NS answered, unlimited budget, time advanced)",
                                        k, r.desc
                                    ),
                                ))?;
                            }
                        }
                    }
                    _ => {}
                }
            }
        }
        Ok(())
    }

    // -------------------------------------------------------------- receiver model: API events

    fn got_itag(&self, k: usize, g: &Got) -> Option<u32> {
        let b = &g.bytes;
        let t = match self.socks[k].kind {
            Kind::Udp => {
                let p = g.udp.as_ref()?.1;
                if p > ITAG_PORT {
                    (p - ITAG_PORT) as u32
                } else {
                    return None;
                }
            }
            Kind::Icmp => {
                let v6f = !g.from?.is_v4();
                if b.len() < 8 {
                    return None;
                }
                if is_echo(v6f, b[0]) {
                    let s = rd16(b, 6)?;
                    if s < ITAG_SEQ {
                        return None;
                    }
                    (s - ITAG_SEQ) as u32
                } else {
                    let off = 8 + if v6f { 40 } else { ((*b.get(8)? & 0xf) as usize) * 4 };
                    let p = rd16(b, off + 2)?;
                    if p > ITAG_PORT {
                        (p - ITAG_PORT) as u32
                    } else {
                        return None;
                    }
                }
            }
            Kind::Raw => {
                let v = *b.first()? >> 4;
                let (hdr, proto) = match v {
                    4 => (20, *b.get(9)?),
                    6 => (40, *b.get(6)?),
                    _ => return None,
                };
                if proto == PROTO_UDP {
                    let p = rd16(b, hdr)?;
                    if p > ITAG_PORT {
                        (p - ITAG_PORT) as u32
                    } else {
                        return None;
                    }
                } else {
                    let s = rd16(b, hdr)?;
                    if s < ITAG_SEQ {
                        return None;
                    }
                    (s - ITAG_SEQ) as u32
                }
            }
        };
        if t >= 1 && t <= self.itags {
            Some(t)
        } else {
            None
        }
    }

    fn check_content(a: &Arrival, g: &Got) -> Result<(), (String, String)> {
        let cut = |got: usize, want: usize| ("rx:silently-truncated".to_string(), format!("returned {} bytes of a {} byte datagram without an error", got, want));
        match &a.what {
            RxWhat::Udp { src, sport, dst, payload } => {
                if g.bytes.len() < payload.len() && payload[..g.bytes.len()] == g.bytes[..] {
                    return Err(cut(g.bytes.len(), payload.len()));
                }
                if g.bytes != *payload {
                    return Err(("rx:datagram-corrupted".into(), diff(&g.bytes, payload)));
                }
                let (ra, rp, la) = g.udp.expect("udp metadata");
                if ra != *src || rp != *sport {
                    return Err(("rx:wrong-source-endpoint".into(), format!("metadata says from {}:{} but the datagram came from {}:{}", ra, rp, src, sport)));
                }
                if la != Some(*dst) {
                    return Err(("rx:wrong-local-address".into(), format!("metadata local_address {:?} but the datagram was addressed to {}", la, dst)));
                }
            }
            RxWhat::Icmp { src, dst, msg, inner } => {
                if g.bytes.len() < a.len {
                    return Err(cut(g.bytes.len(), a.len));
                }
                let got = if src.is_v4() { decode_icmp4(&g.bytes) } else { decode_icmp6(&g.bytes, src, dst) };
                let got = got.map_err(|e| ("rx:datagram-corrupted".to_string(), e))?;
                if got.ty != msg.ty || got.code != msg.code {
                    return Err(("rx:datagram-corrupted".into(), format!("type/code {}/{} expected {}/{}", got.ty, got.code, msg.ty, msg.code)));
                }
                match inner {
                    None => {
                        if got.rest != msg.rest || got.body != msg.body {
                            return Err(("rx:datagram-corrupted".into(), diff(&got.body, &msg.body)));
                        }
                    }
                    Some(want) => {
                        let gi = parse_inner(!src.is_v4(), &got.body).ok_or(("rx:datagram-corrupted".to_string(), "embedded packet not parseable".to_string()))?;
                        if gi.src != want.src || gi.dst != want.dst || gi.proto != want.proto || gi.data != want.data {
                            return Err(("rx:datagram-corrupted".into(), format!("embedded packet {}->{} proto {} {}", gi.src, gi.dst, gi.proto, diff(&gi.data, &want.data))));
                        }
                    }
                }
                if g.from != Some(*src) {
                    return Err(("rx:wrong-source-endpoint".into(), format!("metadata says from {:?} but the message came from {}", g.from, src)));
                }
            }
            RxWhat::Raw { pkt } => {
                if g.bytes.len() < a.len {
                    return Err(cut(g.bytes.len(), a.len));
                }
                let got = decode_ip(&g.bytes, true).map_err(|e| ("rx:datagram-corrupted".to_string(), e))?;
                if got.src() != pkt.src() || got.dst() != pkt.dst() {
                    return Err(("rx:wrong-source-endpoint".into(), format!("packet header says {} -> {} but it was {} -> {}", got.src(), got.dst(), pkt.src(), pkt.dst())));
                }
                if got.proto() != pkt.proto() || got.hop() != pkt.hop() {
                    return Err(("rx:datagram-corrupted".into(), format!("proto/hop {}/{} expected {}/{}", got.proto(), got.hop(), pkt.proto(), pkt.hop())));
                }
                if got.payload() != pkt.payload() {
                    return Err(("rx:datagram-corrupted".into(), diff(got.payload(), pkt.payload())));
                }
            }
        }
        Ok(())
    }

    /// Feed the result of recv / recv_slice / peek / peek_slice on socket `k` to the model.
    /// `limit` is the user buffer length of the *_slice variants.
    pub fn on_recv(&mut self, k: usize, destructive: bool, limit: Option<usize>, out: RecvOutcome, op: &str) -> Result<(), Fail> {
        match out {
            RecvOutcome::Item(g) => {
                let itag = self.got_itag(k, &g);
                let pos = itag.and_then(|t| self.socks[k].pending.iter().position(|a| a.itag == t));
                let Some(pos) = pos else {
                    let head = &g.bytes[..g.bytes.len().min(24)];
                    if let Some(t) = itag {
                        if self.socks[k].delivered.contains(&t) {
                            return Err(Fail::new("rx:datagram-delivered-twice", format!("socket {}: {} returned injected datagram #{} a second time", k, op, t)));
                        }
                        if self.socks.iter().any(|s| s.pending.iter().any(|a| a.itag == t) || s.delivered.contains(&t)) {
                            return Err(Fail::new("rx:datagram-misdelivered", format!("socket {}: {} returned injected datagram #{} which belongs to another socket", k, op, t)));
                        }
                        return Err(Fail::new("rx:datagram-misdelivered", format!("socket {}: {} returned injected datagram #{} which was not addressed to any endpoint of this socket", k, op, t)));
                    }
                    return Err(Fail::new(
                        "rx:unknown-datagram",
                        format!("socket {}: {} returned {} bytes that match no injected datagram: {:02x?} meta {:?}/{:?}", k, op, g.bytes.len(), head, g.udp, g.from),
                    ));
                };
                for j in 0..pos {
                    if self.socks[k].pending[j].must {
                        return Err(Fail::new(
                            "rx:datagram-lost-or-reordered",
                            format!(
                                "socket {}: {} returned injected datagram #{} although #{} (known to be in the buffer) is ahead of it",
                                k, op, self.socks[k].pending[pos].itag, self.socks[k].pending[j].itag
                            ),
                        ));
                    }
                }
                self.socks[k].pending.drain(0..pos);
                let a = self.socks[k].pending[0].clone();
                if let Some(l) = limit {
                    // a datagram longer than the user buffer must produce Truncated; caught by the length check below too
                    if a.len > l {
                        return Err(Fail::new(
                            "rx:silently-truncated",
                            format!("socket {}: {} with a {} byte buffer returned Ok({} bytes) for the {} byte datagram #{}", k, op, l, g.bytes.len(), a.len, a.itag),
                        ));
                    }
                }
                if let Err((key, msg)) = Self::check_content(&a, &g) {
                    return Err(Fail::new(key, format!("socket {}: {} returned injected datagram #{}: {}", k, op, a.itag, msg)));
                }
                if destructive {
                    let cls = match &a.what {
                        RxWhat::Udp { dst, .. } => {
                            if dst.is_multicast() || self.net.is_bcast4(dst) {
                                "got:udp-broadcast-or-multicast"
                            } else {
                                "got:udp-unicast"
                            }
                        }
                        RxWhat::Icmp { inner: None, .. } => "got:icmp-echo",
                        RxWhat::Icmp { inner: Some(_), .. } => "got:icmp-error-for-udp-port",
                        RxWhat::Raw { pkt } => {
                            if pkt.dst().is_v4() {
                                "got:raw4"
                            } else {
                                "got:raw6"
                            }
                        }
                    };
                    *self.classes.entry(cls).or_insert(0) += 1;
                    if a.must {
                        *self.classes.entry("got:known-stored-datagram").or_insert(0) += 1;
                    }
                    self.socks[k].pending.pop_front();
                    self.socks[k].delivered.insert(a.itag);
                    self.delivered_count += 1;
                    if self.socks[k].pending.is_empty() {
                        self.socks[k].known_empty = true;
                    }
                } else {
                    self.socks[k].pending[0].must = true;
                }
                Ok(())
            }
            RecvOutcome::Exhausted => {
                if let Some(a) = self.socks[k].pending.iter().find(|a| a.must) {
                    return Err(Fail::new(
                        "rx:datagram-lost",
                        format!("socket {}: {} says the buffer is empty but injected datagram #{} ({} bytes) was stored in it and never returned", k, op, a.itag, a.len),
                    ));
                }
                self.socks[k].pending.clear();
                self.socks[k].known_empty = true;
                Ok(())
            }
            RecvOutcome::Truncated => {
                self.truncated_errors += 1;
                let l = limit.expect("Truncated without a user buffer");
                let Some(j0) = self.socks[k].pending.iter().position(|a| a.len > l) else {
                    return Err(Fail::new(
                        "rx:truncated-error-although-datagram-fits",
                        format!("socket {}: {} with a {} byte buffer returned Truncated but no pending datagram is longer than that", k, op, l),
                    ));
                };
                for j in 0..j0 {
                    if self.socks[k].pending[j].must {
                        return Err(Fail::new(
                            "rx:truncated-error-although-datagram-fits",
                            format!(
                                "socket {}: {} with a {} byte buffer returned Truncated but the {} byte datagram #{} is ahead in the buffer",
                                k, op, l, self.socks[k].pending[j].len, self.socks[k].pending[j].itag
                            ),
                        ));
                    }
                }
                self.socks[k].pending.drain(0..j0);
                if destructive {
                    // the head (some entry up to the first one known to be stored) may have been consumed
                    if let Some(a) = self.socks[k].pending.iter_mut().find(|a| a.must) {
                        a.must = false;
                    }
                }
                Ok(())
            }
        }
    }
}

pub fn parse_inner(v6f: bool, body: &[u8]) -> Option<Inner> {
    if v6f {
        if body.len() < 40 {
            return None;
        }
        let mut s = [0u8; 16];
        s.copy_from_slice(&body[8..24]);
        let mut d = [0u8; 16];
        d.copy_from_slice(&body[24..40]);
        Some(Inner {
            src: Ip::V6(s),
            dst: Ip::V6(d),
            proto: body[6],
            data: body[40..].to_vec(),
        })
    } else {
        if body.len() < 20 {
            return None;
        }
        let ihl = (body[0] & 0xf) as usize * 4;
        if ihl < 20 || body.len() < ihl {
            return None;
        }
        Some(Inner {
            src: Ip::V4([body[12], body[13], body[14], body[15]]),
            dst: Ip::V4([body[16], body[17], body[18], body[19]]),
            proto: body[9],
            data: body[ihl..].to_vec(),
        })
    }
}

pub fn diff(got: &[u8], want: &[u8]) -> String {
    if got.len() != want.len() {
        let common = got.iter().zip(want.iter()).take_while(|(a, b)| a == b).count();
        return format!("{} bytes instead of {} (first {} bytes agree)", got.len(), want.len(), common);
    }
    match got.iter().zip(want.iter()).position(|(a, b)| a != b) {
        Some(p) => format!("byte {} of {} is {:#04x}, expected {:#04x}", p, got.len(), got[p], want[p]),
        None => "identical".into(),
    }
}
