//! C03 helper: grammar of well-formed datagrams of the transport and network
//! layer (UDP, TCP, ICMP echo / errors, raw protocols, IPv4 options and fragments,
//! IPv6 extension headers) with valid addressing for the interface under test.

use super::env::*;
use vkit::indep::*;
use vkit::Src;

pub fn payload_bytes(src: &mut Src, max: usize) -> Vec<u8> {
    let n = match src.weighted(&[4, 3, 1]) {
        0 => src.usize(0, 16.min(max)),
        1 => src.usize(0, 120.min(max)),
        _ => src.usize(0, max),
    };
    let seed = src.u8();
    (0..n).map(|i| seed.wrapping_add((i as u8).wrapping_mul(7))).collect()
}

/// Peer index: 0,1 on-link hosts, 2 on-link router, 3 far host (behind the router).
pub fn pick_peer(src: &mut Src) -> usize {
    src.weighted(&[5, 2, 1, 2])
}

pub fn peer_ip(src: &mut Src, env: &Env, peer: usize, v6: bool) -> Ip {
    let p = &env.peers[peer];
    if !v6 {
        Ip::V4(p.v4)
    } else if !p.onlink || src.chance(1, 3) {
        Ip::V6(p.g6)
    } else {
        Ip::V6(p.ll6)
    }
}

/// Destination classes: own unicast, broadcast, multicast the interface listens to, foreign.
pub fn pick_dst(src: &mut Src, env: &Env, v6: bool) -> Ip {
    let o = &env.own;
    if !v6 {
        let own = o.v4.unwrap_or([192, 168, 69, 1]);
        match src.weighted(&[10, 1, 1, 1, 1, 1]) {
            0 => Ip::V4(own),
            1 => Ip::V4([255; 4]),
            2 => Ip::V4(o.v4_bcast().unwrap_or([255; 4])),
            3 => Ip::V4([224, 0, 0, 1]),
            4 => Ip::V4(o.group4.unwrap_or([224, 0, 0, 251])),
            _ => Ip::V4([own[0], own[1], own[2], 200]),
        }
    } else {
        match src.weighted(&[6, 5, 1, 1, 1, 1, 1]) {
            0 => Ip::V6(o.ll6),
            1 => Ip::V6(o.g6),
            2 => Ip::V6(ALL_NODES),
            3 => Ip::V6(solicited_node(&o.ll6)),
            4 => Ip::V6(solicited_node(&o.g6)),
            5 => Ip::V6(o.group6.unwrap_or(ALL_ROUTERS)),
            _ => Ip::V6(v6addr(G_PREFIX, [0, 0, 0, 0, 0, 0, 0, 0xc8])),
        }
    }
}

pub fn own_unicast(src: &mut Src, env: &Env, v6: bool) -> Ip {
    if !v6 {
        Ip::V4(env.own.v4.unwrap_or([192, 168, 69, 1]))
    } else if src.bool() {
        Ip::V6(env.own.g6)
    } else {
        Ip::V6(env.own.ll6)
    }
}

/// Is IPv6 to be used? (always on 802.15.4, drawn otherwise)
pub fn pick_v6(src: &mut Src, env: &Env) -> bool {
    env.own.med == Med::Lowpan || env.own.v4.is_none() || src.bool()
}

// ------------------------------------------------------------------ TCP

/// TCP encoder taking raw option octets (so malformed option lists can be expressed).
pub fn tcp_raw(sport: u16, dport: u16, seq: u32, ack: u32, flags: u8, win: u16, urg: u16, opts: &[u8], payload: &[u8], s: &Ip, d: &Ip) -> Vec<u8> {
    let mut o = opts.to_vec();
    o.truncate(40);
    while o.len() % 4 != 0 {
        o.push(0);
    }
    let doff = 5 + o.len() / 4;
    let mut b = vec![0u8; 20];
    b[0..2].copy_from_slice(&sport.to_be_bytes());
    b[2..4].copy_from_slice(&dport.to_be_bytes());
    b[4..8].copy_from_slice(&seq.to_be_bytes());
    b[8..12].copy_from_slice(&ack.to_be_bytes());
    b[12] = (doff as u8) << 4;
    b[13] = flags;
    b[14..16].copy_from_slice(&win.to_be_bytes());
    b[18..20].copy_from_slice(&urg.to_be_bytes());
    b.extend_from_slice(&o);
    b.extend_from_slice(payload);
    let c = l4_checksum(s, d, PROTO_TCP, &b);
    b[16..18].copy_from_slice(&c.to_be_bytes());
    b
}

pub fn tcp_options(src: &mut Src, syn: bool, c: &Conn) -> Vec<u8> {
    let mut o = vec![];
    let n = if syn { src.usize(0, 5) } else { src.usize(0, 3) };
    for _ in 0..n {
        match src.weighted(&[4, 4, 2, 3, 3, 2, 1, 2, 2]) {
            0 => {
                let m = *src.pick(&[1460u16, 0, 1, 8, 536, 65535, 88]);
                o.extend_from_slice(&[2, 4]);
                o.extend_from_slice(&m.to_be_bytes());
            }
            1 => o.extend_from_slice(&[3, 3, *src.pick(&[0u8, 7, 14, 1, 15, 255, 2])]),
            2 => o.extend_from_slice(&[4, 2]),
            3 => {
                let k = src.usize(1, 4);
                o.extend_from_slice(&[5, (2 + 8 * k) as u8]);
                for _ in 0..k {
                    let base = if src.bool() { c.s_seq } else { c.s_nxt };
                    let l = base.wrapping_add(src.draw(3000) as u32).wrapping_sub(1000);
                    let r = l.wrapping_add(src.draw(2000) as u32).wrapping_sub(if src.chance(1, 8) { 500 } else { 0 });
                    o.extend_from_slice(&l.to_be_bytes());
                    o.extend_from_slice(&r.to_be_bytes());
                }
            }
            4 => {
                o.extend_from_slice(&[8, 10]);
                o.extend_from_slice(&src.u32().to_be_bytes());
                o.extend_from_slice(&(if src.bool() { 0 } else { src.u32() }).to_be_bytes());
            }
            5 => o.push(1),
            6 => o.push(0),
            7 => {
                // unknown option
                let k = src.usize(0, 6);
                o.push(*src.pick(&[254u8, 30, 34, 9]));
                o.push((2 + k) as u8);
                o.extend(src.bytes(k));
            }
            _ => {
                // malformed length: 0, 1, or running past the end
                o.push(*src.pick(&[2u8, 3, 4, 5, 8, 200]));
                o.push(*src.pick(&[0u8, 1, 3, 9, 40, 255]));
                let k = src.usize(0, 3);
                o.extend(src.bytes(k));
            }
        }
    }
    o
}

/// A TCP segment on connection `ci`. `proper` biases towards the in-sequence answer to what the
/// stack sent last (this is what walks sockets through their states).
pub fn gen_tcp_on(src: &mut Src, env: &mut Env, ci: usize, proper: bool) -> (Pkt, &'static str) {
    let c = env.conns[ci].clone();
    let (s, d) = (c.remote.0, c.local.0);
    let from = env.peer_of(&s);
    let kind = if proper { src.weighted(&[10, 6, 3, 1, 1, 0, 0, 2, 1, 1, 0, 1, 3, 0, 1]) } else { src.weighted(&[3, 3, 2, 2, 2, 2, 2, 2, 2, 2, 3, 2, 2, 1, 1]) };
    let syn_only = c.seen && c.s_flags & SYN != 0 && c.s_flags & ACK == 0;
    let syn_ack = c.seen && c.s_flags & SYN != 0 && c.s_flags & ACK != 0;
    let mut seq = if c.s_ack.is_some() && c.seen { c.s_ack.unwrap() } else { c.p_nxt };
    let mut ack = c.s_nxt;
    let mut flags = ACK;
    let mut payload: Vec<u8> = vec![];
    let mut win: u16 = *src.pick(&[4096u16, 65535, 512, 0, 1, 100]);
    let mut name = "tcp:ack";
    let mut with_opts = src.chance(1, 5);
    let mut new_iss = false;
    match kind {
        0 | 1 | 2 => {
            if !c.seen {
                // nothing seen from the stack yet: open the connection
                flags = SYN;
                ack = 0;
                seq = src.u32();
                new_iss = true;
                with_opts = true;
                name = "tcp:syn";
            } else if syn_only {
                flags = SYN | ACK;
                seq = src.u32();
                new_iss = true;
                with_opts = true;
                name = "tcp:syn-ack";
            } else if syn_ack {
                name = "tcp:handshake-ack";
                if kind == 1 {
                    payload = payload_bytes(src, 200);
                    flags |= PSH;
                }
            } else if kind == 1 {
                payload = payload_bytes(src, 1200);
                if payload.is_empty() {
                    payload.push(0x55);
                }
                flags |= PSH;
                name = "tcp:data";
            } else if kind == 2 {
                flags |= FIN;
                if src.bool() {
                    payload = payload_bytes(src, 100);
                }
                name = "tcp:fin";
            }
        }
        3 => {
            flags = RST;
            name = "tcp:rst";
        }
        4 => {
            flags = RST | ACK;
            name = "tcp:rst-ack";
        }
        5 => {
            flags = SYN;
            seq = if src.bool() { src.u32() } else { seq.wrapping_sub(1) };
            with_opts = true;
            name = "tcp:syn-again";
        }
        6 => {
            flags = SYN | ACK;
            seq = src.u32();
            with_opts = true;
            name = "tcp:syn-ack-unsolicited";
        }
        7 => {
            // duplicate ACK (with SACK blocks often)
            ack = if src.bool() { c.s_seq } else { c.s_nxt.wrapping_sub(src.draw(1500) as u32) };
            with_opts = true;
            name = "tcp:dup-ack";
        }
        8 => {
            let back = *src.pick(&[1u32, 2, 100, 1460, 70000]);
            seq = seq.wrapping_sub(back);
            payload = payload_bytes(src, 300);
            name = "tcp:old-data";
        }
        9 => {
            let fwd = *src.pick(&[1u32, 8, 100, 1460, 5000, 65535, 70000, 0x4000_0000]);
            seq = seq.wrapping_add(fwd);
            payload = payload_bytes(src, 300);
            if payload.is_empty() {
                payload.push(1);
            }
            if src.chance(1, 4) {
                flags |= FIN;
            }
            name = "tcp:future-data";
        }
        10 => {
            flags = src.u8() & 0x3f;
            if src.bool() {
                payload = payload_bytes(src, 100);
            }
            if src.chance(1, 3) {
                seq = src.u32();
            }
            if src.chance(1, 3) {
                ack = src.u32();
            }
            name = "tcp:random-flags";
        }
        11 => {
            ack = c.s_nxt.wrapping_add(*src.pick(&[1u32, 2, 1000, 0x7fff_ffff, 0x8000_0000]));
            name = "tcp:ack-beyond";
        }
        12 => {
            win = 0;
            if src.bool() {
                payload = vec![0x77];
            }
            if src.chance(1, 3) {
                // acknowledges only part of what is in flight
                ack = c.s_nxt.wrapping_sub(1 + src.draw(600) as u32);
            }
            name = "tcp:zero-window";
        }
        13 => {
            flags = SYN | FIN | if src.bool() { ACK } else { 0 };
            name = "tcp:syn-fin";
        }
        _ => {
            seq = seq.wrapping_sub(1);
            if src.bool() {
                payload = vec![0];
            }
            name = "tcp:keep-alive";
        }
    }
    let opts = if with_opts { tcp_options(src, flags & SYN != 0, &c) } else { vec![] };
    let urg = if flags & URG != 0 { src.u16() } else { 0 };
    let seg = tcp_raw(c.remote.1, c.local.1, seq, ack, flags, win, urg, &opts, &payload, &s, &d);
    // advance the scripted peer's idea of its own sequence space
    {
        let cm = &mut env.conns[ci];
        if new_iss {
            cm.p_nxt = seq.wrapping_add(1);
        } else if seq == c.p_nxt || Some(seq) == c.s_ack {
            let adv = payload.len() as u32 + (flags & FIN != 0) as u32;
            if flags & (SYN | RST) == 0 {
                cm.p_nxt = seq.wrapping_add(adv);
                if let Some(a) = cm.s_ack.as_mut() {
                    *a = seq.wrapping_add(adv);
                }
            }
        }
    }
    let mut pkt = IpPkt::build(s, d, PROTO_TCP, 64, seg);
    if let IpPkt::V4(p) = &mut pkt {
        p.id = env.next_id();
    }
    (Pkt::ip(&pkt, from, name), name)
}

/// A TCP segment on an existing connection, towards a listening port, or to a closed port.
pub fn gen_tcp(src: &mut Src, env: &mut Env) -> Pkt {
    let pick = if env.conns.is_empty() { 1 + src.weighted(&[3, 1]) } else { src.weighted(&[6, 2, 1]) };
    let ci = match pick {
        0 => {
            // most recent connections preferred
            let n = env.conns.len();
            n - 1 - src.weighted(&[4, 2, 1, 1]).min(n - 1)
        }
        k => {
            let v6 = pick_v6(src, env);
            let peer = pick_peer(src);
            let rip = peer_ip(src, env, peer, v6);
            let lip = own_unicast(src, env, v6);
            let lport = if k == 1 && !env.tcp_ports.is_empty() { *src.pick(&env.tcp_ports) } else { *src.pick(&[9u16, 0, 65535, 49152]) };
            let rport = *src.pick(&[1000u16, 1001, 0, 65535]);
            env.conn_index((lip, lport), (rip, rport))
        }
    };
    let proper = src.chance(1, 2);
    gen_tcp_on(src, env, ci, proper).0
}

// ------------------------------------------------------------------ UDP / ICMP echo / raw protocols

pub fn gen_udp(src: &mut Src, env: &mut Env, max: usize) -> Pkt {
    let v6 = pick_v6(src, env);
    let peer = pick_peer(src);
    let s = if !v6 && src.chance(1, 16) { Ip::V4([0; 4]) } else { peer_ip(src, env, peer, v6) };
    let d = pick_dst(src, env, v6);
    let dport = if !env.udp_ports.is_empty() && src.chance(3, 4) { *src.pick(&env.udp_ports) } else { *src.pick(&[9u16, 0, 53, 67, 68, 5353, 0xf0b0, 65535]) };
    let sport = *src.pick(&[4000u16, 0, 53, 5353, 0xf0b1, 0xf012, 65535, 67]);
    let payload = payload_bytes(src, max);
    let mut u = Udp::new(sport, dport, payload);
    if !v6 && src.chance(1, 8) {
        u.csum = Some(0);
    }
    let mut seg = u.encode(&s, &d);
    if src.chance(1, 16) {
        // length field disagrees with the IP payload (then the checksum is over the shorter span)
        let l = (seg.len() as u16).wrapping_sub(src.draw(9) as u16);
        seg[4..6].copy_from_slice(&l.to_be_bytes());
    }
    let mut pkt = IpPkt::build(s, d, PROTO_UDP, 64, seg);
    if let IpPkt::V4(p) = &mut pkt {
        p.id = env.next_id();
    }
    Pkt::ip(&pkt, peer, "udp")
}

pub fn gen_echo(src: &mut Src, env: &mut Env, max: usize) -> Pkt {
    let v6 = pick_v6(src, env);
    let peer = pick_peer(src);
    let s = peer_ip(src, env, peer, v6);
    let d = pick_dst(src, env, v6);
    let request = src.chance(3, 4);
    let ident = if src.bool() { env.icmp_ident } else { src.u16() };
    let seq = src.u16();
    let mut data = payload_bytes(src, max);
    // 1 in 8 (decided by the sequence number drawn anyway): a request whose reply is as large as the
    // interface's fragmentation buffer, give or take a few octets - the boundary of "can this reply
    // be sent at all" (reachable on 6LoWPAN only when that buffer is below the 2047-octet datagram limit)
    if seq % 8 == 0 {
        let limit = smoltcp::config::FRAGMENTATION_BUFFER_SIZE;
        let ip_hdr = if v6 { 40 } else { 20 };
        let lowpan = env.own.med == Med::Lowpan;
        if !lowpan || limit + 8 <= 2047 - 40 {
            // IP payload (ICMP header + data) = limit - 6 ..= limit + 1, and the same minus the IP header
            let delta = ((seq >> 3) % 8) as usize;
            let target = if (seq >> 6) & 1 == 0 { limit } else { limit.saturating_sub(ip_hdr) };
            let n = (target + delta).saturating_sub(6 + 8);
            let fill = data.first().copied().unwrap_or(0x33);
            data = (0..n).map(|i| fill.wrapping_add((i as u8).wrapping_mul(7))).collect();
        }
    }
    let e = Icmp::echo(v6, request, ident, seq, data);
    let body = if v6 { e.encode6(&s, &d) } else { e.encode4() };
    let mut pkt = IpPkt::build(s, d, if v6 { PROTO_ICMPV6 } else { PROTO_ICMP }, 64, body);
    if let IpPkt::V4(p) = &mut pkt {
        p.id = env.next_id();
    }
    Pkt::ip(&pkt, peer, if request { "icmp-echo-request" } else { "icmp-echo-reply" })
}

/// An IP datagram "the interface sent" that an ICMP error can quote.
fn own_datagram(src: &mut Src, env: &Env, v6: bool, to: &Ip) -> Vec<u8> {
    let o = own_unicast(src, env, v6);
    let (proto, body) = match src.weighted(&[3, 3, 2, 1]) {
        0 => (PROTO_UDP, Udp::new(if env.udp_ports.is_empty() { UDP_PORT_A } else { *src.pick(&env.udp_ports) }, 9, payload_bytes(src, 40)).encode(&o, to)),
        1 => {
            let c = env.conns.last();
            let (lp, rp, seq) = c.map(|c| (c.local.1, c.remote.1, c.s_seq)).unwrap_or((TCP_PORT_SMALL, 1000, 1));
            (PROTO_TCP, tcp_raw(lp, rp, seq, 0, SYN, 1000, 0, &[], &[], &o, to))
        }
        2 => {
            let e = Icmp::echo(v6, true, env.icmp_ident, 1, payload_bytes(src, 20));
            (if v6 { PROTO_ICMPV6 } else { PROTO_ICMP }, if v6 { e.encode6(&o, to) } else { e.encode4() })
        }
        _ => (253, payload_bytes(src, 30)),
    };
    IpPkt::build(o, *to, proto, 63, body).encode()
}

/// ICMP error quoting `quoted` (an IP datagram of the interface, e.g. one it really emitted).
pub fn gen_icmp_error(src: &mut Src, env: &mut Env, quoted: Option<Vec<u8>>) -> Pkt {
    let v6 = match &quoted {
        Some(q) => q.first().map(|b| b >> 4 == 6).unwrap_or(false),
        None => pick_v6(src, env),
    };
    let peer = pick_peer(src);
    let s = peer_ip(src, env, peer, v6);
    let d = own_unicast(src, env, v6);
    let q = quoted.unwrap_or_else(|| own_datagram(src, env, v6, &s));
    let hdr = if v6 { 40 } else { ((q.first().copied().unwrap_or(0x45) & 0xf) as usize * 4).max(20) };
    let keep = match src.weighted(&[5, 2, 1, 1, 1]) {
        0 => q.len().min(hdr + 8),
        1 => q.len(),
        2 => q.len().min(hdr + *src.pick(&[0usize, 1, 4, 7])),
        3 => q.len().min(hdr + 20),
        _ => src.usize(0, q.len()),
    };
    let body = q[..keep.min(if v6 { 1200 } else { 520 })].to_vec();
    let (ty, code, rest): (u8, u8, [u8; 4]) = if v6 {
        match src.weighted(&[4, 2, 2, 2, 1]) {
            0 => (1, src.draw(7) as u8, [0; 4]),
            1 => (2, 0, (*src.pick(&[1280u32, 0, 68, 0xffff_ffff])).to_be_bytes()),
            2 => (3, src.draw(1) as u8, [0; 4]),
            3 => (4, src.draw(3) as u8, (src.draw(60) as u32).to_be_bytes()),
            _ => (src.draw(127) as u8, src.u8(), [0; 4]),
        }
    } else {
        match src.weighted(&[4, 2, 1, 1, 1, 1]) {
            0 => (3, *src.pick(&[3u8, 0, 1, 2, 4, 13, 200]), if src.chance(1, 4) { [0, 0, 2, 64] } else { [0; 4] }),
            1 => (11, src.draw(1) as u8, [0; 4]),
            2 => (12, 0, [src.u8(), 0, 0, 0]),
            3 => (5, src.draw(3) as u8, env.peers[2].v4),
            4 => (4, 0, [0; 4]),
            _ => (*src.pick(&[13u8, 14, 17, 18, 40, 255]), src.u8(), [0; 4]),
        }
    };
    let e = Icmp { ty, code, rest, body };
    let seg = if v6 { e.encode6(&s, &d) } else { e.encode4() };
    let mut pkt = IpPkt::build(s, d, if v6 { PROTO_ICMPV6 } else { PROTO_ICMP }, 64, seg);
    if let IpPkt::V4(p) = &mut pkt {
        p.id = env.next_id();
    }
    Pkt::ip(&pkt, peer, "icmp-error")
}

pub fn gen_rawproto(src: &mut Src, env: &mut Env) -> Pkt {
    let v6 = pick_v6(src, env);
    let peer = pick_peer(src);
    let s = peer_ip(src, env, peer, v6);
    let d = pick_dst(src, env, v6);
    let proto = *src.pick(&[253u8, 254, 47, 50, 132, 59, 4, 41, 255, 89]);
    let mut pkt = IpPkt::build(s, d, proto, 64, payload_bytes(src, 600));
    if let IpPkt::V4(p) = &mut pkt {
        p.id = env.next_id();
    }
    Pkt::ip(&pkt, peer, "raw-protocol")
}

// ------------------------------------------------------------------ IPv4 options, fragments

pub fn ip4_options(src: &mut Src) -> Vec<u8> {
    let mut o = vec![];
    for _ in 0..src.usize(1, 4) {
        match src.weighted(&[2, 1, 2, 2, 2, 1, 2]) {
            0 => o.push(1),
            1 => o.push(0),
            2 => {
                // record route
                let k = 4 * src.usize(0, 3);
                o.extend_from_slice(&[7, (3 + k) as u8, *src.pick(&[4u8, 0, 8, 255])]);
                o.extend(std::iter::repeat(0).take(k));
            }
            3 => {
                o.extend_from_slice(&[68, 12, 5, src.u8()]);
                o.extend(src.bytes(8));
            }
            4 => o.extend_from_slice(&[148, 4, 0, 0]),
            5 => o.extend_from_slice(&[*src.pick(&[131u8, 137]), 7, 4, 10, 0, 0, 1]),
            _ => {
                // bad length
                o.push(*src.pick(&[7u8, 68, 130, 200]));
                o.push(*src.pick(&[0u8, 1, 2, 39, 255]));
                o.extend(src.bytes(2));
            }
        }
    }
    o.truncate(40);
    while o.len() % 4 != 0 {
        o.push(0);
    }
    o
}

pub fn decorate4(src: &mut Src, p: &mut Ip4) {
    if src.chance(1, 4) {
        p.ttl = *src.pick(&[1u8, 0, 255, 2]);
    }
    if src.chance(1, 6) {
        p.tos = src.u8();
    }
    if src.chance(1, 4) {
        p.df = true;
    }
    if src.chance(1, 4) {
        p.options = ip4_options(src);
    }
}

/// Split a datagram into fragments at 8-octet boundaries and apply the drawn
/// arrival disorder: permutation, duplication, loss, overlap, wrong last size.
pub fn fragment4(src: &mut Src, p: &Ip4) -> (Vec<Ip4>, &'static str) {
    let total = p.payload.len();
    if total < 16 {
        let mut q = p.clone();
        // a lone "fragment"
        match src.weighted(&[1, 1, 1]) {
            0 => q.mf = true,
            1 => q.frag_off = 8 * src.usize(1, 8000),
            _ => {
                q.mf = true;
                q.frag_off = 8 * src.usize(0, 8191);
            }
        }
        return (vec![q], "frag4:lone");
    }
    let nmax = (total / 8).min(6);
    let n = src.usize(2, nmax.max(2));
    // cut points (multiples of 8, strictly increasing)
    let mut cuts: Vec<usize> = vec![];
    for i in 1..n {
        let c = (total * i / n) / 8 * 8;
        if c > 0 && c < total && !cuts.contains(&c) {
            cuts.push(c);
        }
    }
    let mut frags = vec![];
    let mut at = 0;
    for c in cuts.iter().chain(std::iter::once(&total)) {
        let mut f = p.clone();
        f.df = false;
        f.frag_off = p.frag_off + at;
        f.payload = p.payload[at..*c].to_vec();
        f.mf = *c != total || p.mf;
        frags.push(f);
        at = *c;
    }
    let mut name = "frag4:in-order";
    match src.weighted(&[4, 2, 2, 1, 1, 1, 1, 1, 1]) {
        0 => {}
        1 => {
            frags.reverse();
            name = "frag4:reversed";
        }
        2 => {
            let n = frags.len();
            for i in 0..n - 1 {
                let j = i + src.draw((n - 1 - i) as u64) as usize;
                frags.swap(i, j);
            }
            name = "frag4:shuffled";
        }
        3 => {
            let i = src.draw(frags.len() as u64 - 1) as usize;
            let f = frags[i].clone();
            frags.insert(src.draw(frags.len() as u64) as usize, f);
            name = "frag4:duplicate";
        }
        4 => {
            let i = src.draw(frags.len() as u64 - 1) as usize;
            frags.remove(i);
            name = "frag4:one-missing";
        }
        5 => {
            // overlap: one fragment starts 8 octets early carrying different bytes
            let i = 1 + src.draw(frags.len() as u64 - 2) as usize;
            if frags[i].frag_off >= 8 {
                frags[i].frag_off -= 8;
                let mut pl = vec![0xEE; 8];
                pl.extend_from_slice(&frags[i].payload);
                frags[i].payload = pl;
            }
            name = "frag4:overlap";
        }
        6 => {
            // the last fragment claims a different end
            let l = frags.len() - 1;
            if src.bool() {
                frags[l].payload.extend(std::iter::repeat(0x11).take(8 * src.usize(1, 40)));
            } else {
                let k = frags[l].payload.len() / 2;
                frags[l].payload.truncate(k);
            }
            name = "frag4:bad-total-size";
        }
        7 => {
            // far-away offset: datagram would exceed 65535 / the reassembly buffer
            let l = frags.len() - 1;
            frags[l].frag_off = 8 * *src.pick(&[8191usize, 8000, 600, 511, 512]);
            name = "frag4:huge-offset";
        }
        _ => {
            // MF fragment whose length is not a multiple of 8
            let k = frags[0].payload.len().saturating_sub(src.usize(1, 7));
            frags[0].payload.truncate(k);
            name = "frag4:mf-odd-length";
        }
    }
    (frags, name)
}

// ------------------------------------------------------------------ IPv6 extension headers

fn tlv_options(src: &mut Src, room: usize) -> Vec<u8> {
    // body of a hop-by-hop / destination options header: (2 + body) % 8 == 0
    let mut b = vec![];
    for _ in 0..src.usize(0, 3) {
        match src.weighted(&[1, 2, 2, 3, 1, 1]) {
            0 => b.push(0),
            1 => {
                let k = src.usize(0, 5);
                b.push(1);
                b.push(k as u8);
                b.extend(std::iter::repeat(0).take(k));
            }
            2 => b.extend_from_slice(&[5, 2, 0, *src.pick(&[0u8, 1, 2, 77])]),
            3 => {
                // unknown option of each action class (skip / discard / discard+ICMP / +ICMP unless multicast)
                let t = *src.pick(&[0x1eu8, 0x5e, 0x9e, 0xde, 0x3e, 0xfe, 0x63, 0xc2, 0x04]);
                let k = src.usize(0, 6);
                b.push(t);
                b.push(k as u8);
                b.extend(src.bytes(k));
            }
            4 => {
                // length running past the header
                b.push(*src.pick(&[1u8, 0x1e, 5]));
                b.push(*src.pick(&[200u8, 255, 30]));
            }
            _ => b.extend_from_slice(&[0xc2, 4, 0, 1, 0, 0]),
        }
    }
    b.truncate(room);
    // pad to 8n + 6
    while (b.len() + 2) % 8 != 0 {
        let need = 8 - (b.len() + 2) % 8;
        if need == 1 || src.chance(1, 8) {
            b.push(0);
        } else {
            b.push(1);
            b.push((need - 2) as u8);
            b.extend(std::iter::repeat(0).take(need - 2));
        }
    }
    b
}

pub fn ext_headers(src: &mut Src, env: &Env) -> Vec<ExtHdr> {
    let mut v = vec![];
    for _ in 0..src.usize(1, 3) {
        match src.weighted(&[4, 3, 2, 2]) {
            0 => v.push(ExtHdr { kind: PROTO_HOPOPT, body: tlv_options(src, 38) }),
            1 => v.push(ExtHdr { kind: PROTO_V6OPTS, body: tlv_options(src, 38) }),
            2 => {
                // routing header: type, segments left, then addresses
                let ty = *src.pick(&[0u8, 2, 3, 4, 253]);
                let segs = *src.pick(&[0u8, 1, 2, 255]);
                let mut b = vec![ty, segs, 0, 0, 0, 0];
                for _ in 0..src.usize(0, 2) {
                    b.extend_from_slice(if src.bool() { &env.own.g6 } else { &env.peers[0].g6 });
                }
                v.push(ExtHdr { kind: PROTO_V6ROUTE, body: b })
            }
            _ => {
                // fragment header: reserved, offset/M, identification
                let off = (*src.pick(&[0u16, 1, 8, 100, 8191])) << 3 | src.draw(1) as u16;
                let mut b = vec![];
                b.extend_from_slice(&off.to_be_bytes());
                b.extend_from_slice(&src.u32().to_be_bytes());
                v.push(ExtHdr { kind: PROTO_V6FRAG, body: b })
            }
        }
    }
    v
}

pub fn decorate6(src: &mut Src, env: &Env, p: &mut Ip6) {
    if src.chance(1, 5) {
        p.hop = *src.pick(&[1u8, 0, 255, 2]);
    }
    if src.chance(1, 6) {
        p.tc = src.u8();
    }
    if src.chance(1, 6) {
        p.flow = src.draw(0xfffff) as u32;
    }
    if src.chance(1, 3) {
        p.ext = ext_headers(src, env);
    }
}
