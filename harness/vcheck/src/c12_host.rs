//! C12 helper: one smoltcp node ("host") with UDP / ICMP / raw sockets, observed
//! on both sides:
//!
//! * egress oracle - every frame the node emits is decoded with the independent
//!   codec, fragments are checked on the wire (size, alignment, header
//!   consistency, no overlap) and rebuilt with `vkit::indep::Reasm4`; every
//!   rebuilt datagram must be one of the datagrams the node was asked to send
//!   (application sends and echo replies to requests it reassembled);
//! * ingress oracle - a reference model of the reassembly slots (key, expiry,
//!   tracked ranges) says which arrivals complete a datagram "clearly within
//!   limits"; everything the sockets yield must be an original datagram, not more
//!   often than complete copies arrived, and at least as often as the model
//!   completed it within limits.

use smoltcp::config::{ASSEMBLER_MAX_SEGMENT_COUNT, FRAGMENTATION_BUFFER_SIZE, REASSEMBLY_BUFFER_COUNT, REASSEMBLY_BUFFER_SIZE};
use smoltcp::iface::SocketHandle;
use smoltcp::socket::{icmp, raw, udp};
use smoltcp::wire::{IpCidr, IpProtocol, IpVersion};
use std::collections::BTreeMap;
use vkit::indep::*;
use vkit::runner::Fail;
use vkit::sim::{us, Hw, Node};
use vkit::Ctx;

pub const IDENT: u16 = 0x4321;
pub const RAW_PROTO: u8 = 253;
pub const UDP_PORTS: [u16; 2] = [7001, 7002];
/// Receive buffers: at most MAX_BATCH packets are handed over per poll, each completes at most
/// one datagram of at most MAX_DGRAM bytes, and the sockets are drained after every poll.
pub const MAX_BATCH: usize = 40;
pub const MAX_DGRAM: usize = 6 * 1024;
const RX_BYTES: usize = MAX_BATCH * MAX_DGRAM;

/// key of the predicted defect: a second oversized datagram starts while fragments of the first are pending
pub const KEY_BACK_TO_BACK: &str = "egress:fragments-of-back-to-back-datagrams-mixed-or-lost";

pub type FragKey = ([u8; 4], [u8; 4], u8, u16);

/// Position dependent payload bytes; the first two bytes carry the datagram serial.
pub fn pattern(serial: u16, len: usize) -> Vec<u8> {
    let mut v = Vec::with_capacity(len);
    for i in 0..len {
        let x = (i as u32).wrapping_mul(2654435761).wrapping_add((serial as u32).wrapping_mul(40503));
        v.push(((x >> 13) as u8) | 1);
    }
    if len >= 2 {
        v[0] = (serial >> 8) as u8 | 0x80;
        v[1] = serial as u8;
    }
    v
}

#[derive(Clone, Debug, PartialEq, Eq)]
pub enum Kind {
    Udp { sport: u16, dport: u16 },
    Echo { request: bool, ident: u16, seq: u16 },
    Raw,
}

/// One IPv4 datagram as the harness knows it (the "original").
#[derive(Clone, Debug)]
pub struct Dgram {
    pub src: [u8; 4],
    pub dst: [u8; 4],
    pub proto: u8,
    pub ttl: u8,
    pub kind: Kind,
    /// application data (UDP payload / echo data / raw IP payload)
    pub data: Vec<u8>,
    /// canonical IP payload (UDP header + data with checksum, ICMP message, raw payload)
    pub ip_payload: Vec<u8>,
}

impl Dgram {
    pub fn udp(src: [u8; 4], dst: [u8; 4], sport: u16, dport: u16, data: Vec<u8>) -> Dgram {
        let ip_payload = Udp::new(sport, dport, data.clone()).encode(&Ip::V4(src), &Ip::V4(dst));
        Dgram { src, dst, proto: PROTO_UDP, ttl: 64, kind: Kind::Udp { sport, dport }, data, ip_payload }
    }
    pub fn echo(src: [u8; 4], dst: [u8; 4], request: bool, ident: u16, seq: u16, data: Vec<u8>) -> Dgram {
        let ip_payload = Icmp::echo(false, request, ident, seq, data.clone()).encode4();
        Dgram { src, dst, proto: PROTO_ICMP, ttl: 64, kind: Kind::Echo { request, ident, seq }, data, ip_payload }
    }
    pub fn raw(src: [u8; 4], dst: [u8; 4], ttl: u8, data: Vec<u8>) -> Dgram {
        Dgram { src, dst, proto: RAW_PROTO, ttl, kind: Kind::Raw, ip_payload: data.clone(), data }
    }
    pub fn total_len(&self) -> usize {
        20 + self.ip_payload.len()
    }
    pub fn describe(&self) -> String {
        let k = match &self.kind {
            Kind::Udp { sport, dport } => format!("UDP {}->{}", sport, dport),
            Kind::Echo { request, ident, seq } => format!("ICMP echo {} ident={:#x} seq={}", if *request { "request" } else { "reply" }, ident, seq),
            Kind::Raw => format!("raw proto {}", self.proto),
        };
        format!("{} {}->{} data {} B (IP total {} B)", k, Ip::V4(self.src), Ip::V4(self.dst), self.data.len(), self.total_len())
    }
    /// Does the (unfragmented / rebuilt) packet carry exactly this datagram? Checksums must verify.
    pub fn matches(&self, p: &Ip4) -> bool {
        if p.src != self.src || p.dst != self.dst || p.proto != self.proto || p.payload.len() != self.ip_payload.len() {
            return false;
        }
        match &self.kind {
            Kind::Udp { sport, dport } => match decode_udp(&p.payload, &Ip::V4(p.src), &Ip::V4(p.dst)) {
                Ok(u) => u.sport == *sport && u.dport == *dport && u.payload == self.data,
                Err(_) => false,
            },
            Kind::Echo { request, ident, seq } => match decode_icmp4(&p.payload) {
                Ok(m) => m.ty == if *request { 8 } else { 0 } && m.code == 0 && m.ident() == *ident && m.seq() == *seq && m.body == self.data,
                Err(_) => false,
            },
            Kind::Raw => p.payload == self.ip_payload,
        }
    }
    /// Same bytes except for the transport checksum field.
    fn matches_but_checksum(&self, p: &Ip4) -> bool {
        if p.src != self.src || p.dst != self.dst || p.proto != self.proto || p.payload.len() != self.ip_payload.len() {
            return false;
        }
        let skip = match self.kind {
            Kind::Udp { .. } => 6..8,
            Kind::Echo { .. } => 2..4,
            Kind::Raw => return false,
        };
        p.payload.iter().zip(self.ip_payload.iter()).enumerate().all(|(i, (a, b))| skip.contains(&i) || a == b)
    }
    /// identity used to group indistinguishable originals
    fn ident_bytes(&self) -> Vec<u8> {
        let mut v = vec![];
        v.extend_from_slice(&self.src);
        v.extend_from_slice(&self.dst);
        v.push(self.proto);
        v.extend_from_slice(&self.ip_payload);
        v
    }
}

/// One IP packet to be delivered to a host (a fragment or a whole datagram of original `orig`).
#[derive(Clone, Debug)]
pub struct Pkt {
    pub bytes: Vec<u8>,
    pub orig: usize,
    pub key: FragKey,
    pub off: usize,
    pub len: usize,
    pub mf: bool,
}

impl Pkt {
    pub fn whole(&self) -> bool {
        !self.mf && self.off == 0
    }
    pub fn from_ip4(p: &Ip4, orig: usize) -> Pkt {
        Pkt { bytes: p.encode(), orig, key: (p.src, p.dst, p.proto, p.id), off: p.frag_off, len: p.payload.len(), mf: p.mf }
    }
}

/// The harness' own fragmenter: `pieces` are (start, end) byte ranges of the IP payload
/// (starts multiples of 8; ends multiples of 8 or the payload end). They may overlap.
pub fn fragment(d: &Dgram, orig: usize, id: u16, pieces: &[(usize, usize)]) -> Vec<Pkt> {
    let total = d.ip_payload.len();
    let mut out = vec![];
    for &(a, b) in pieces {
        assert!(a % 8 == 0 && a <= b && b <= total && (b == total || b % 8 == 0), "bad piece {}..{} of {}", a, b, total);
        let mut p = Ip4::new(d.src, d.dst, d.proto, d.ip_payload[a..b].to_vec());
        p.ttl = d.ttl;
        p.id = id;
        p.frag_off = a;
        p.mf = b != total;
        // IPv4 header options (NOP padding closed by End-of-List) on some fragments: the header of
        // a received fragment need not be 20 octets. Pattern taken from the identification that
        // was drawn anyway, so saved tapes keep their draws: 1 in 4 datagrams; all fragments /
        // the last one only / the first one only / 8 octets on every other piece.
        if (id >> 3) & 3 == 0 {
            let last = b == total;
            let first = a == 0;
            let with = match (id >> 5) & 3 {
                0 => true,
                1 => last,
                2 => first,
                _ => (a / 8) % 2 == 0,
            };
            if with {
                p.options = if (id >> 7) & 1 == 0 { vec![1, 1, 1, 0] } else { vec![1, 1, 1, 1, 1, 1, 1, 0] };
            }
        }
        out.push(Pkt::from_ip4(&p, orig));
    }
    out
}

/// Merge [a,b) into a sorted list of disjoint, non-touching runs.
pub fn add_run(runs: &[(usize, usize)], a: usize, b: usize) -> Vec<(usize, usize)> {
    if a == b {
        return runs.to_vec();
    }
    let (mut a, mut b) = (a, b);
    let mut out = vec![];
    let mut placed = false;
    for &(x, y) in runs {
        if y < a {
            out.push((x, y));
        } else if x > b {
            if !placed {
                out.push((a, b));
                placed = true;
            }
            out.push((x, y));
        } else {
            a = a.min(x);
            b = b.max(y);
        }
    }
    if !placed {
        out.push((a, b));
    }
    out
}

pub struct Expect {
    pub d: Dgram,
    pub min: u32,
    pub max: u32,
    pub seen: u32,
    /// echo reply owed for original number ..; min/max are then derived at the end
    pub reply_to: Option<usize>,
    pub lost: bool,
}

pub struct Orig {
    pub d: Dgram,
    /// (off, len, mf) of every packet of this original handed to the node
    pub arrived: Vec<(usize, usize, bool)>,
    pub model_done: u32,
    pub required: u32,
    pub reply_required: u32,
    pub got: u32,
}

struct Slot {
    key: FragKey,
    created_us: i64,
    runs: Vec<(usize, usize)>,
    total: Option<usize>,
    clean: bool,
}

struct FragEntry {
    key: FragKey,
    first_frame: usize,
    ttl: u8,
    tos: u8,
    runs: Vec<(usize, usize)>,
    pkts: Vec<Ip4>,
    first_payload: Option<Vec<u8>>,
    done: bool,
}

pub enum Pending {
    /// ARP from peer (ip): request (true) or reply (false) addressed to this host
    Arp([u8; 4], bool),
    Pkt(Pkt),
}

pub struct Host {
    pub name: &'static str,
    pub node: Node,
    pub eth: bool,
    /// device MTU (Ethernet: including the 14 byte header)
    pub mtu: usize,
    pub ip_mtu: usize,
    pub ip: [u8; 4],
    /// further addresses of the interface (see add_ip)
    pub extra_ips: Vec<[u8; 4]>,
    pub mac: [u8; 6],
    pub peers: Vec<([u8; 4], [u8; 6])>,
    pub now_us: i64,
    pub udp: Vec<SocketHandle>,
    pub icmp: SocketHandle,
    pub raw: SocketHandle,
    pub answer_arp: bool,
    pub pending: Vec<Pending>,
    // egress
    pub exp: Vec<Expect>,
    reasm: Reasm4,
    entries: Vec<FragEntry>,
    first_frags: Vec<(usize, FragKey)>,
    frame_no: usize,
    /// (expectation index, IP packets as emitted) of every datagram rebuilt and matched
    pub captured: Vec<(usize, Vec<Ip4>)>,
    pub frags_emitted: u64,
    pub max_frags_per_dgram: usize,
    // ingress
    pub origs: Vec<Orig>,
    slots: Vec<Slot>,
    neigh: BTreeMap<[u8; 4], i64>,
    timeout_us: i64,
    serial: u16,
    /// an echo reply that needs fragmentation was (or may have been) started during the ingress pass of the current poll
    reply_frag_this_poll: bool,
}

fn ip4s(a: [u8; 4]) -> String {
    format!("{}", Ip::V4(a))
}

impl Host {
    /// Give the interface one more address (same /24): datagrams may be sent to either.
    pub fn add_ip(&mut self, ip: [u8; 4]) {
        self.node.add_addr(IpCidr::new(Ip::V4(ip).to_smol(), 24));
        self.extra_ips.push(ip);
    }

    /// `ip_mtu` is the IP MTU; the device MTU adds the Ethernet header.
    pub fn new(name: &'static str, eth: bool, ip_mtu: usize, ip: [u8; 4], mac: [u8; 6], seed: u64) -> Host {
        let mtu = if eth { ip_mtu + 14 } else { ip_mtu };
        let mut node = Node::new(if eth { Hw::Eth(mac) } else { Hw::Ip }, mtu, seed, false, us(0));
        node.add_addr(IpCidr::new(Ip::V4(ip).to_smol(), 24));
        let mut udp_handles = vec![];
        for port in UDP_PORTS {
            let mut s = udp::Socket::new(
                udp::PacketBuffer::new(vec![udp::PacketMetadata::EMPTY; 64], vec![0u8; RX_BYTES]),
                udp::PacketBuffer::new(vec![udp::PacketMetadata::EMPTY; 8], vec![0u8; 14 * 1024]),
            );
            s.bind(port).expect("udp bind");
            udp_handles.push(node.sockets.add(s));
        }
        let mut ic = icmp::Socket::new(
            icmp::PacketBuffer::new(vec![icmp::PacketMetadata::EMPTY; 64], vec![0u8; RX_BYTES]),
            icmp::PacketBuffer::new(vec![icmp::PacketMetadata::EMPTY; 8], vec![0u8; 14 * 1024]),
        );
        ic.bind(icmp::Endpoint::Ident(IDENT)).expect("icmp bind");
        let icmp_h = node.sockets.add(ic);
        let rw = raw::Socket::new(
            Some(IpVersion::Ipv4),
            Some(IpProtocol::from(RAW_PROTO)),
            raw::PacketBuffer::new(vec![raw::PacketMetadata::EMPTY; 64], vec![0u8; RX_BYTES]),
            raw::PacketBuffer::new(vec![raw::PacketMetadata::EMPTY; 8], vec![0u8; 14 * 1024]),
        );
        let raw_h = node.sockets.add(rw);
        let timeout_us = node.iface.reassembly_timeout().total_micros() as i64;
        Host {
            name,
            node,
            eth,
            mtu,
            ip_mtu,
            ip,
            extra_ips: vec![],
            mac,
            peers: vec![],
            now_us: 0,
            udp: udp_handles,
            icmp: icmp_h,
            raw: raw_h,
            answer_arp: true,
            pending: vec![],
            exp: vec![],
            reasm: Reasm4::new(),
            entries: vec![],
            first_frags: vec![],
            frame_no: 0,
            captured: vec![],
            frags_emitted: 0,
            max_frags_per_dgram: 0,
            origs: vec![],
            slots: vec![],
            neigh: BTreeMap::new(),
            timeout_us,
            serial: 0,
            reply_frag_this_poll: false,
        }
    }

    pub fn next_serial(&mut self) -> u16 {
        self.serial += 1;
        self.serial
    }

    fn peer_mac(&self, ip: &[u8; 4]) -> Option<[u8; 6]> {
        self.peers.iter().find(|p| p.0 == *ip).map(|p| p.1)
    }

    /// Will a datagram of this total IP length leave the node (whole or fragmented)?
    /// `dispatch_ip` drops (with a debug message) what needs fragmentation but does not fit
    /// the fragmentation buffer.
    pub fn can_transmit(&self, total_ip_len: usize) -> bool {
        total_ip_len <= self.ip_mtu || total_ip_len <= FRAGMENTATION_BUFFER_SIZE
    }

    // ------------------------------------------------------------ application sends

    fn expect_app(&mut self, d: Dgram, ctx: &mut Ctx) {
        let ok = self.can_transmit(d.total_len());
        if !ok {
            ctx.label("send:larger-than-fragmentation-buffer(dropped by design)");
        } else if d.total_len() > self.ip_mtu {
            ctx.label("send:needs-fragmentation");
        } else {
            ctx.label("send:fits-mtu");
        }
        if d.total_len() == FRAGMENTATION_BUFFER_SIZE && d.total_len() > self.ip_mtu {
            ctx.label("send:exactly-fragmentation-buffer");
        }
        self.exp.push(Expect { d, min: if ok { 1 } else { 0 }, max: 1, seen: 0, reply_to: None, lost: false });
    }

    /// UDP datagram from socket `which` to `dst`:`dport`. Returns false when the socket refused it.
    pub fn send_udp(&mut self, which: usize, dst: [u8; 4], dport: u16, data: Vec<u8>, ctx: &mut Ctx) -> bool {
        let h = self.udp[which];
        let s = self.node.sockets.get_mut::<udp::Socket>(h);
        match s.send_slice(&data, (Ip::V4(dst).to_smol(), dport)) {
            Ok(()) => {
                let d = Dgram::udp(self.ip, dst, UDP_PORTS[which], dport, data);
                ctx.note(|| format!("{}: app sends {}", self.name, d.describe()));
                self.expect_app(d, ctx);
                true
            }
            Err(e) => {
                ctx.note(|| format!("{}: udp send of {} B refused: {:?}", self.name, data.len(), e));
                ctx.label("send:socket-buffer-full");
                false
            }
        }
    }

    pub fn send_echo(&mut self, dst: [u8; 4], request: bool, ident: u16, seq: u16, data: Vec<u8>, ctx: &mut Ctx) -> bool {
        let d = Dgram::echo(self.ip, dst, request, ident, seq, data);
        let s = self.node.sockets.get_mut::<icmp::Socket>(self.icmp);
        match s.send_slice(&d.ip_payload, Ip::V4(dst).to_smol()) {
            Ok(()) => {
                ctx.note(|| format!("{}: app sends {}", self.name, d.describe()));
                self.expect_app(d, ctx);
                true
            }
            Err(e) => {
                ctx.note(|| format!("{}: icmp send refused: {:?}", self.name, e));
                ctx.label("send:socket-buffer-full");
                false
            }
        }
    }

    pub fn send_raw(&mut self, dst: [u8; 4], ttl: u8, data: Vec<u8>, ctx: &mut Ctx) -> bool {
        let d = Dgram::raw(self.ip, dst, ttl, data);
        let mut p = Ip4::new(d.src, d.dst, d.proto, d.ip_payload.clone());
        p.ttl = ttl;
        let bytes = p.encode();
        let s = self.node.sockets.get_mut::<raw::Socket>(self.raw);
        match s.send_slice(&bytes) {
            Ok(()) => {
                ctx.note(|| format!("{}: app sends {}", self.name, d.describe()));
                self.expect_app(d, ctx);
                true
            }
            Err(e) => {
                ctx.note(|| format!("{}: raw send refused: {:?}", self.name, e));
                ctx.label("send:socket-buffer-full");
                false
            }
        }
    }

    // ------------------------------------------------------------ ingress

    /// Register an original datagram that will be delivered to this host (in pieces).
    pub fn add_orig(&mut self, d: Dgram) -> usize {
        let idx = self.origs.len();
        if let Kind::Echo { request: true, ident, seq } = d.kind {
            // the node owes an echo reply for every copy it reassembles
            let r = Dgram::echo(d.dst, d.src, false, ident, seq, d.data.clone());
            self.exp.push(Expect { d: r, min: 0, max: 0, seen: 0, reply_to: Some(idx), lost: false });
        }
        self.origs.push(Orig { d, arrived: vec![], model_done: 0, required: 0, reply_required: 0, got: 0 });
        idx
    }

    pub fn queue_pkt(&mut self, p: Pkt) {
        self.pending.push(Pending::Pkt(p));
    }
    pub fn queue_arp(&mut self, peer: [u8; 4], request: bool) {
        self.pending.push(Pending::Arp(peer, request));
    }

    fn neigh_ok(&self, ip: &[u8; 4]) -> bool {
        if !self.eth {
            return true;
        }
        // cache entries live 60 s; demand the reply only when clearly inside
        self.neigh.get(ip).is_some_and(|t| self.now_us - *t < 50_000_000)
    }

    fn model_complete(&mut self, o: usize, clean: bool, ctx: &mut Ctx) {
        let fits = self.origs[o].d.ip_payload.len() <= REASSEMBLY_BUFFER_SIZE;
        let req = clean && fits;
        let src = self.origs[o].d.src;
        // An oversized reply is owed only when no other fragmented transmission can be in
        // progress: a stack may drop (entirely) a reply that needs the single fragmentation
        // buffer while that buffer is busy. A reply that is started must still be completed.
        let is_req = matches!(self.origs[o].d.kind, Kind::Echo { request: true, .. });
        let needs_frag = self.origs[o].d.total_len() > self.ip_mtu;
        let busy = self.reply_frag_this_poll || self.entries.iter().any(|e| !e.done);
        if is_req && needs_frag {
            self.reply_frag_this_poll = true;
            if busy {
                ctx.label("reply:oversized-while-fragmenter-may-be-busy(not demanded)");
            } else {
                ctx.label("reply:oversized");
            }
        }
        let reply_ok = self.neigh_ok(&src) && self.can_transmit(self.origs[o].d.total_len()) && !(needs_frag && busy);
        let or = &mut self.origs[o];
        or.model_done += 1;
        if req {
            or.required += 1;
            if reply_ok {
                or.reply_required += 1;
            }
        }
        if !fits {
            ctx.label("ingress:larger-than-reassembly-buffer");
        }
        ctx.label(if req { "ingress:model-complete-within-limits" } else { "ingress:model-complete-not-required" });
    }

    fn model_step(&mut self, p: &Pkt, ctx: &mut Ctx) {
        self.origs[p.orig].arrived.push((p.off, p.len, p.mf));
        if p.whole() {
            self.model_complete(p.orig, true, ctx);
            return;
        }
        let idx = match self.slots.iter().position(|s| s.key == p.key) {
            Some(i) => i,
            None => {
                if self.slots.len() >= REASSEMBLY_BUFFER_COUNT {
                    ctx.label("ingress:no-free-reassembly-slot");
                    return;
                }
                self.slots.push(Slot { key: p.key, created_us: self.now_us, runs: vec![], total: None, clean: true });
                if self.slots.len() == REASSEMBLY_BUFFER_COUNT {
                    ctx.label("ingress:all-slots-busy");
                }
                self.slots.len() - 1
            }
        };
        let s = &mut self.slots[idx];
        if !p.mf {
            s.total = Some(p.off + p.len);
        }
        let nr = add_run(&s.runs, p.off, p.off + p.len);
        if nr.len() > ASSEMBLER_MAX_SEGMENT_COUNT {
            // the tracker refuses the range: the fragment is as good as lost
            s.clean = false;
            ctx.label("ingress:too-many-gaps");
        } else {
            if nr.len() == ASSEMBLER_MAX_SEGMENT_COUNT {
                ctx.label("ingress:max-tracked-ranges-reached");
            }
            s.runs = nr;
        }
        let front = match s.runs.first() {
            Some(&(0, e)) => e,
            _ => 0,
        };
        if s.total == Some(front) {
            let clean = s.clean;
            self.slots.remove(idx);
            self.model_complete(p.orig, clean, ctx);
        }
    }

    fn model_expire(&mut self, ctx: &mut Ctx) {
        let now = self.now_us;
        let t = self.timeout_us;
        let before = self.slots.len();
        self.slots.retain(|s| !(s.created_us + t < now));
        if self.slots.len() != before {
            ctx.label("ingress:reassembly-timeout");
        }
    }

    fn wrap(&self, ip_bytes: &[u8], src_ip: &[u8; 4]) -> Vec<u8> {
        if !self.eth {
            return ip_bytes.to_vec();
        }
        let src = self.peer_mac(src_ip).unwrap_or([0x02, 0, 0, 0, 0, 0xee]);
        Eth { dst: self.mac, src, ethertype: ETH_IPV4, payload: ip_bytes.to_vec() }.encode()
    }

    /// One `Interface::poll` at the current time: hands over everything queued, then checks
    /// what came out of the device and out of the sockets. Returns the number of frames emitted.
    pub fn poll(&mut self, budget: Option<usize>, ctx: &mut Ctx) -> Result<usize, Fail> {
        self.model_expire(ctx);
        self.reply_frag_this_poll = false;
        let pend = std::mem::take(&mut self.pending);
        for p in pend {
            match p {
                Pending::Arp(peer, request) => {
                    if !self.eth {
                        continue;
                    }
                    let mac = self.peer_mac(&peer).expect("arp from unknown peer");
                    let a = Arp { op: if request { 1 } else { 2 }, sha: mac, spa: peer, tha: if request { [0; 6] } else { self.mac }, tpa: self.ip };
                    let f = Eth { dst: if request { MAC_BROADCAST } else { self.mac }, src: mac, ethertype: ETH_ARP, payload: a.encode() }.encode();
                    self.node.inject(f);
                    self.neigh.insert(peer, self.now_us);
                    ctx.note(|| format!("{}: <- ARP {} from {}", self.name, if request { "request" } else { "reply" }, ip4s(peer)));
                }
                Pending::Pkt(pkt) => {
                    ctx.note(|| {
                        format!(
                            "{}: <- id={:#06x} {}->{} proto {} off={} len={} MF={} (original #{})",
                            self.name,
                            pkt.key.3,
                            ip4s(pkt.key.0),
                            ip4s(pkt.key.1),
                            pkt.key.2,
                            pkt.off,
                            pkt.len,
                            pkt.mf as u8,
                            pkt.orig
                        )
                    });
                    self.model_step(&pkt, ctx);
                    let f = self.wrap(&pkt.bytes, &pkt.key.0);
                    self.node.inject(f);
                }
            }
        }
        let frames = self.node.poll(us(self.now_us), budget);
        assert!(!self.node.dev.hard_cap_hit, "device hard cap hit");
        ctx.note(|| format!("{}: poll t={}us budget={:?} -> {} frame(s)", self.name, self.now_us, budget, frames.len()));
        let n = frames.len();
        self.observe(frames, ctx)?;
        self.drain(ctx)?;
        Ok(n)
    }

    /// Unlimited budget, time advancing, until the node has been quiet for a while.
    pub fn tail(&mut self, ctx: &mut Ctx) -> Result<(), Fail> {
        self.answer_arp = true;
        let mut idle = 0;
        for _ in 0..1500 {
            let n = self.poll(None, ctx)?;
            if n > 0 || !self.pending.is_empty() {
                idle = 0;
                self.now_us += 1_000;
            } else {
                idle += 1;
                self.now_us += 700_000;
                if idle >= 4 {
                    return Ok(());
                }
            }
        }
        ctx.inconclusive = true;
        Ok(())
    }

    // ------------------------------------------------------------ egress oracle

    fn observe(&mut self, frames: Vec<Vec<u8>>, ctx: &mut Ctx) -> Result<(), Fail> {
        for f in frames {
            self.frame_no += 1;
            if f.len() > self.mtu {
                return Err(Fail::new("egress:frame-exceeds-mtu", format!("{} emitted a frame of {} bytes, device MTU is {}", self.name, f.len(), self.mtu)));
            }
            let ipb: Vec<u8> = if self.eth {
                let e = decode_eth(&f).map_err(|e| Fail::new("egress:undecodable-frame", e))?;
                if e.ethertype == ETH_ARP {
                    let a = decode_arp(&e.payload).map_err(|e| Fail::new("egress:undecodable-frame", e))?;
                    if a.op == 1 && self.answer_arp && self.peer_mac(&a.tpa).is_some() {
                        ctx.label("arp:request-answered");
                        self.pending.push(Pending::Arp(a.tpa, false));
                    }
                    continue;
                }
                if e.ethertype != ETH_IPV4 {
                    return Err(Fail::new("egress:unexpected-frame", format!("{} emitted ethertype {:#06x}", self.name, e.ethertype)));
                }
                if e.src != self.mac {
                    return Err(Fail::new("egress:ethernet-header-wrong", format!("source MAC {:02x?}, own is {:02x?}", e.src, self.mac)));
                }
                if e.payload.len() >= 20 {
                    let dst = [e.payload[16], e.payload[17], e.payload[18], e.payload[19]];
                    if let Some(m) = self.peer_mac(&dst) {
                        if e.dst != m {
                            return Err(Fail::new("egress:ethernet-header-wrong", format!("frame for {} sent to MAC {:02x?}, neighbour is {:02x?}", ip4s(dst), e.dst, m)));
                        }
                    }
                }
                e.payload
            } else {
                f
            };
            let p = decode_ip4(&ipb, true).map_err(|e| Fail::new("egress:undecodable-ipv4", format!("{}: {} in {:02x?}", self.name, e, &ipb[..ipb.len().min(40)])))?;
            if ipb.len() > self.ip_mtu {
                return Err(Fail::new("egress:frame-exceeds-mtu", format!("{} emitted an IP packet of {} bytes, IP MTU is {}", self.name, ipb.len(), self.ip_mtu)));
            }
            if p.src != self.ip && !self.extra_ips.contains(&p.src) {
                return Err(Fail::new("egress:foreign-source-address", format!("{} emitted a packet from {}", self.name, ip4s(p.src))));
            }
            let key: FragKey = (p.src, p.dst, p.proto, p.id);
            if p.mf || p.frag_off != 0 {
                self.frags_emitted += 1;
                ctx.note(|| format!("{}:   -> fragment id={:#06x} proto {} off={} len={} MF={}", self.name, p.id, p.proto, p.frag_off, p.payload.len(), p.mf as u8));
                if p.df {
                    return Err(Fail::new("egress:fragment-has-df", format!("fragment id={:#06x} off={} carries DF", p.id, p.frag_off)));
                }
                if !p.options.is_empty() {
                    return Err(Fail::new("egress:fragment-header-inconsistent", "fragment carries IP options".to_string()));
                }
                if p.mf && (p.payload.len() % 8 != 0 || p.payload.is_empty()) {
                    return Err(Fail::new(
                        "egress:fragment-payload-not-multiple-of-8",
                        format!("fragment id={:#06x} off={} with MF set carries {} bytes (IP MTU {})", p.id, p.frag_off, p.payload.len(), self.ip_mtu),
                    ));
                }
                let fno = self.frame_no;
                let ei = match self.entries.iter().position(|e| e.key == key && !e.done) {
                    Some(i) => i,
                    None => {
                        self.entries.push(FragEntry { key, first_frame: fno, ttl: p.ttl, tos: p.tos, runs: vec![], pkts: vec![], first_payload: None, done: false });
                        self.entries.len() - 1
                    }
                };
                let e = &mut self.entries[ei];
                if e.ttl != p.ttl || e.tos != p.tos {
                    return Err(Fail::new(
                        "egress:fragment-header-inconsistent",
                        format!("fragments of id={:#06x} differ in TTL/TOS: {}/{} then {}/{}", p.id, e.ttl, e.tos, p.ttl, p.tos),
                    ));
                }
                let (a, b) = (p.frag_off, p.frag_off + p.payload.len());
                if e.runs.iter().any(|&(x, y)| a < y && x < b) {
                    return Err(Fail::new(
                        "egress:fragments-overlap-or-duplicate",
                        format!("fragment id={:#06x} {}..{} overlaps bytes already sent {:?}", p.id, a, b, e.runs),
                    ));
                }
                e.runs = add_run(&e.runs, a, b);
                e.pkts.push(p.clone());
                if p.frag_off == 0 {
                    e.first_payload = Some(p.payload.clone());
                    self.first_frags.push((fno, key));
                }
            }
            let done = self.reasm.push(&p).map_err(|e| Fail::new("egress:fragments-inconsistent", format!("{}: id={:#06x}: {}", self.name, p.id, e)))?;
            if let Some(whole) = done {
                let pkts = if p.mf || p.frag_off != 0 {
                    let ei = self.entries.iter().position(|e| e.key == key && !e.done).expect("entry");
                    self.entries[ei].done = true;
                    std::mem::take(&mut self.entries[ei].pkts)
                } else {
                    vec![p.clone()]
                };
                self.match_emitted(&whole, pkts, ctx)?;
            }
        }
        Ok(())
    }

    fn match_emitted(&mut self, whole: &Ip4, pkts: Vec<Ip4>, ctx: &mut Ctx) -> Result<(), Fail> {
        let n = pkts.len();
        if n > 1 {
            ctx.label(match n {
                2 => "egress:rebuilt-from-2-fragments",
                3 => "egress:rebuilt-from-3-fragments",
                4 => "egress:rebuilt-from-4-fragments",
                5..=16 => "egress:rebuilt-from-5..16-fragments",
                _ => "egress:rebuilt-from->16-fragments",
            });
            self.max_frags_per_dgram = self.max_frags_per_dgram.max(n);
            ctx.count("datagrams_rebuilt_from_fragments", 1);
        }
        let mut cand: Option<usize> = None;
        let mut any = false;
        for (i, e) in self.exp.iter().enumerate() {
            if e.d.matches(whole) {
                any = true;
                let cap = if e.reply_to.is_some() { u32::MAX } else { e.max };
                if e.seen < cap {
                    cand = Some(i);
                    break;
                }
            }
        }
        if let Some(i) = cand {
            if whole.ttl != self.exp[i].d.ttl {
                return Err(Fail::new("egress:ttl", format!("{}: {} emitted with TTL {}, expected {}", self.name, self.exp[i].d.describe(), whole.ttl, self.exp[i].d.ttl)));
            }
            self.exp[i].seen += 1;
            ctx.note(|| format!("{}:   => complete: {} ({} packet(s))", self.name, self.exp[i].d.describe(), n));
            self.captured.push((i, pkts));
            return Ok(());
        }
        if any {
            return Err(Fail::new(
                "egress:datagram-transmitted-more-often-than-sent",
                format!("{} transmitted once more than asked: proto {} {} bytes to {}", self.name, whole.proto, whole.payload.len(), ip4s(whole.dst)),
            ));
        }
        if let Some(e) = self.exp.iter().find(|e| e.d.matches_but_checksum(whole)) {
            let (key, what) = match e.d.kind {
                Kind::Udp { .. } => ("egress:udp-checksum-wrong", "UDP"),
                _ => ("egress:icmp-checksum-wrong", "ICMP"),
            };
            let field = match e.d.kind {
                Kind::Udp { .. } => 6,
                _ => 2,
            };
            let f = Fail::new(
                key,
                format!(
                    "{}: {} was transmitted in {} packet(s) with every byte right except the {} checksum: {:#06x} on the wire, {:#06x} correct",
                    self.name,
                    e.d.describe(),
                    n,
                    what,
                    u16::from_be_bytes([whole.payload[field], whole.payload[field + 1]]),
                    u16::from_be_bytes([e.d.ip_payload[field], e.d.ip_payload[field + 1]]),
                ),
            );
            // continue behind a registered finding: the datagram counts as transmitted but is not handed on
            ctx.report(f)?;
            ctx.label("egress:checksum-finding-seen");
            let i = self.exp.iter().position(|e| e.d.matches_but_checksum(whole)).unwrap();
            self.exp[i].seen += 1;
            return Ok(());
        }
        // closest expectation for the message
        let near = self.exp.iter().find(|e| e.d.proto == whole.proto && e.d.dst == whole.dst && e.d.ip_payload.len() == whole.payload.len());
        let detail = match near {
            Some(e) => {
                let at = e.d.ip_payload.iter().zip(whole.payload.iter()).position(|(a, b)| a != b);
                format!("closest: {} - first differing IP payload byte at {:?}", e.d.describe(), at)
            }
            None => "no datagram of that protocol/length/destination was sent".to_string(),
        };
        Err(Fail::new(
            "egress:emitted-datagram-matches-nothing-sent",
            format!("{} emitted id={:#06x} proto {} {} payload bytes to {} in {} packet(s); {}", self.name, whole.id, whole.proto, whole.payload.len(), ip4s(whole.dst), n, detail),
        ))
    }

    /// After `tail()`: every datagram owed must have left completely.
    pub fn finish_egress(&mut self, ctx: &mut Ctx) -> Result<(), Fail> {
        // derive the bounds of the echo replies from the ingress model
        for i in 0..self.exp.len() {
            if let Some(o) = self.exp[i].reply_to {
                self.exp[i].min = self.origs[o].reply_required;
                self.exp[i].max = self.bound(o);
            }
        }
        let mut first_fail: Option<Fail> = None;
        let mut b2b: Option<Fail> = None;
        for ei in 0..self.entries.len() {
            if self.entries[ei].done {
                continue;
            }
            let e = &self.entries[ei];
            // whose datagram was it?
            let owner = e.first_payload.as_ref().and_then(|fp| {
                self.exp.iter().position(|x| {
                    let skip = match x.d.kind {
                        Kind::Udp { .. } => 6..8,
                        Kind::Echo { .. } => 2..4,
                        Kind::Raw => 0..0,
                    };
                    x.d.src == e.key.0
                        && x.d.dst == e.key.1
                        && x.d.proto == e.key.2
                        && x.seen < x.max.max(1)
                        && !x.lost
                        && x.d.ip_payload.len() >= fp.len()
                        && fp.iter().zip(x.d.ip_payload.iter()).enumerate().all(|(i, (a, b))| skip.contains(&i) || a == b)
                })
            });
            let overwritten = self.first_frags.iter().any(|(fno, k)| *fno > e.first_frame && *k != e.key);
            let who = match owner {
                Some(o) => self.exp[o].d.describe(),
                None => "(no sent datagram starts like its first fragment)".to_string(),
            };
            let msg = format!(
                "{}: datagram id={:#06x} [{}] was never transmitted completely: bytes sent {:?} of {} (IP MTU {}, {} fragment(s) seen, first in frame {}){}",
                self.name,
                e.key.3,
                who,
                e.runs,
                owner.map(|o| self.exp[o].d.ip_payload.len().to_string()).unwrap_or("?".into()),
                self.ip_mtu,
                e.pkts.len(),
                e.first_frame,
                if overwritten { "; the first fragment of another datagram was transmitted while its fragments were still pending" } else { "" }
            );
            if let Some(o) = owner {
                self.exp[o].lost = true;
            }
            if overwritten {
                b2b.get_or_insert(Fail::new(KEY_BACK_TO_BACK, msg));
            } else {
                first_fail.get_or_insert(Fail::new("egress:datagram-incomplete", msg));
            }
        }
        for e in &self.exp {
            if e.seen < e.min && !e.lost {
                first_fail.get_or_insert(Fail::new(
                    "egress:datagram-never-transmitted",
                    format!("{}: {} was owed {} time(s) but transmitted {} time(s); no fragment of it was seen", self.name, e.d.describe(), e.min, e.seen),
                ));
            }
            if e.seen > e.max {
                first_fail.get_or_insert(Fail::new(
                    "egress:datagram-transmitted-more-often-than-sent",
                    format!("{}: {} transmitted {} time(s), at most {} owed", self.name, e.d.describe(), e.seen, e.max),
                ));
            }
        }
        if let Some(f) = first_fail {
            return Err(f);
        }
        if let Some(f) = b2b {
            ctx.label("egress:back-to-back-loss-seen");
            ctx.report(f)?;
        }
        // socket queues must be empty now
        Ok(())
    }

    // ------------------------------------------------------------ ingress oracle

    /// Upper bound on how often original `o` can have been completed from what arrived.
    fn bound(&self, o: usize) -> u32 {
        let or = &self.origs[o];
        let total = or.d.ip_payload.len();
        let wholes = or.arrived.iter().filter(|a| !a.2 && a.0 == 0).count() as u32;
        let frags: Vec<&(usize, usize, bool)> = or.arrived.iter().filter(|a| a.2 || a.0 != 0).collect();
        if frags.is_empty() || total == 0 {
            return wholes;
        }
        let lasts = frags.iter().filter(|a| !a.2).count() as u32;
        let mut cuts: Vec<usize> = vec![0, total];
        for a in &frags {
            cuts.push(a.0);
            cuts.push(a.0 + a.1);
        }
        cuts.sort();
        cuts.dedup();
        let mut min_cov = u32::MAX;
        for w in cuts.windows(2) {
            if w[0] >= total {
                break;
            }
            let c = frags.iter().filter(|a| a.0 <= w[0] && w[1] <= a.0 + a.1).count() as u32;
            min_cov = min_cov.min(c);
        }
        wholes + lasts.min(min_cov)
    }

    fn credit(&mut self, found: Option<usize>, what: &str, detail: String) -> Result<(), Fail> {
        match found {
            Some(i) => {
                self.origs[i].got += 1;
                Ok(())
            }
            None => Err(Fail::new("ingress:delivered-datagram-matches-no-original", format!("{}: {} socket yielded something that is none of the originals: {}", self.name, what, detail))),
        }
    }

    /// Describe how `got` relates to the originals of the same length (for the failure message).
    fn diff_detail(&self, got: &[u8], pick: impl Fn(&Dgram) -> Option<&[u8]>) -> String {
        for (i, o) in self.origs.iter().enumerate() {
            if let Some(want) = pick(&o.d) {
                if want.len() == got.len() {
                    let bad: Vec<usize> = (0..got.len()).filter(|k| got[*k] != want[*k]).collect();
                    if bad.len() < got.len() / 2 + 1 {
                        let other = self.origs.iter().position(|x| pick(&x.d).is_some_and(|w| w.len() >= got.len() && bad.iter().all(|k| w[*k] == got[*k])));
                        return format!(
                            "{} bytes; equals original #{} except at {} byte(s) in {}..={}{}",
                            got.len(),
                            i,
                            bad.len(),
                            bad.first().copied().unwrap_or(0),
                            bad.last().copied().unwrap_or(0),
                            match other {
                                Some(x) if x != i => format!(" where it carries the bytes of original #{}", x),
                                _ => String::new(),
                            }
                        );
                    }
                }
            }
        }
        format!("{} bytes starting {:02x?}", got.len(), &got[..got.len().min(16)])
    }

    fn drain(&mut self, ctx: &mut Ctx) -> Result<(), Fail> {
        for w in 0..self.udp.len() {
            loop {
                let h = self.udp[w];
                let s = self.node.sockets.get_mut::<udp::Socket>(h);
                let (data, ep, local) = match s.recv() {
                    Ok((d, m)) => (d.to_vec(), m.endpoint, m.local_address),
                    Err(_) => break,
                };
                let from = match Ip::from_smol(ep.addr) {
                    Ip::V4(a) => a,
                    _ => [0; 4],
                };
                let port = UDP_PORTS[w];
                let found = self.origs.iter().position(|o| {
                    o.d.src == from && o.d.kind == Kind::Udp { sport: ep.port, dport: port } && o.d.data == data && local == Some(Ip::V4(o.d.dst).to_smol())
                });
                ctx.count("udp_datagrams_delivered", 1);
                let detail = if found.is_none() { self.diff_detail(&data, |d| if matches!(d.kind, Kind::Udp { .. }) { Some(&d.data[..]) } else { None }) } else { String::new() };
                self.credit(found, "UDP", format!("from {}:{} {}", ip4s(from), ep.port, detail))?;
            }
        }
        loop {
            let s = self.node.sockets.get_mut::<icmp::Socket>(self.icmp);
            let (bytes, addr) = match s.recv() {
                Ok((b, a)) => (b.to_vec(), a),
                Err(_) => break,
            };
            let from = match Ip::from_smol(addr) {
                Ip::V4(a) => a,
                _ => [0; 4],
            };
            let m = decode_icmp4(&bytes).map_err(|e| Fail::new("ingress:delivered-datagram-matches-no-original", format!("ICMP socket yielded an undecodable message: {}", e)))?;
            let found = self.origs.iter().position(|o| match o.d.kind {
                Kind::Echo { request, ident, seq } => o.d.src == from && m.ty == if request { 8 } else { 0 } && m.ident() == ident && m.seq() == seq && m.body == o.d.data,
                _ => false,
            });
            ctx.count("icmp_messages_delivered", 1);
            let detail = if found.is_none() { self.diff_detail(&m.body, |d| if matches!(d.kind, Kind::Echo { .. }) { Some(&d.data[..]) } else { None }) } else { String::new() };
            self.credit(found, "ICMP", format!("type {} from {} {}", m.ty, ip4s(from), detail))?;
        }
        loop {
            let s = self.node.sockets.get_mut::<raw::Socket>(self.raw);
            let bytes = match s.recv() {
                Ok(b) => b.to_vec(),
                Err(_) => break,
            };
            let p = decode_ip4(&bytes, true).map_err(|e| Fail::new("ingress:delivered-datagram-matches-no-original", format!("raw socket yielded an undecodable packet: {}", e)))?;
            let found = self.origs.iter().position(|o| o.d.kind == Kind::Raw && o.d.src == p.src && o.d.dst == p.dst && o.d.proto == p.proto && o.d.ip_payload == p.payload && o.d.ttl == p.ttl);
            ctx.count("raw_packets_delivered", 1);
            let detail = if found.is_none() { self.diff_detail(&p.payload, |d| if d.kind == Kind::Raw { Some(&d.ip_payload[..]) } else { None }) } else { String::new() };
            self.credit(found, "raw", format!("{}->{} proto {} {}", ip4s(p.src), ip4s(p.dst), p.proto, detail))?;
        }
        Ok(())
    }

    fn has_socket(&self, d: &Dgram) -> bool {
        match d.kind {
            Kind::Udp { dport, .. } => UDP_PORTS.contains(&dport),
            Kind::Echo { ident, .. } => ident == IDENT,
            Kind::Raw => true,
        }
    }

    /// Compare socket yields with the model, per group of indistinguishable originals.
    pub fn finish_ingress(&mut self, ctx: &mut Ctx) -> Result<(), Fail> {
        let mut groups: BTreeMap<Vec<u8>, (u32, u32, u32, u32, usize)> = BTreeMap::new();
        for i in 0..self.origs.len() {
            let b = self.bound(i);
            let o = &self.origs[i];
            let g = groups.entry(o.d.ident_bytes()).or_insert((0, 0, 0, 0, i));
            g.0 += o.got;
            g.1 += if self.has_socket(&o.d) { o.required } else { 0 };
            g.2 += b;
            g.3 += o.model_done;
        }
        for (_, (got, required, bound, model_done, i)) in groups {
            let d = &self.origs[i].d;
            if got > bound {
                return Err(Fail::new(
                    "ingress:delivered-more-often-than-complete-copies-arrived",
                    format!("{}: {} was delivered {} time(s) but only {} complete cop(ies) arrived; pieces (off,len,MF): {:?}", self.name, d.describe(), got, bound, self.origs[i].arrived),
                ));
            }
            if got < required {
                return Err(Fail::new(
                    "ingress:not-delivered-although-within-limits",
                    format!(
                        "{}: {} was delivered {} time(s); the reference reassembler completed it {} time(s) without ever exceeding {} tracked ranges, {} slots, the {} byte buffer or the {} s timeout; pieces (off,len,MF) in arrival order: {:?}",
                        self.name,
                        d.describe(),
                        got,
                        required,
                        ASSEMBLER_MAX_SEGMENT_COUNT,
                        REASSEMBLY_BUFFER_COUNT,
                        REASSEMBLY_BUFFER_SIZE,
                        self.timeout_us / 1_000_000,
                        self.origs[i].arrived
                    ),
                ));
            }
            if got > 0 {
                ctx.label("ingress:delivered");
                if self.origs[i].arrived.len() > 1 {
                    ctx.label("ingress:delivered-reassembled");
                }
            } else if model_done == 0 {
                ctx.label("ingress:nothing-delivered(incomplete)");
            } else {
                ctx.label("ingress:nothing-delivered(model-complete-but-outside-limits-or-no-socket)");
            }
            if got > 1 {
                ctx.label("ingress:delivered-twice-or-more(duplicates complete)");
            }
        }
        Ok(())
    }
}
