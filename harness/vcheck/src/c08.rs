//! C08 - Internet checksums are computed correctly, emitted valid and enforced.
//!
//! (a) `wire::checksum::{data, combine, pseudo_header_*}` against an independent
//!     RFC 1071 implementation: exhaustive over (length, alignment) with several
//!     content classes, plus random buffers.
//! (b) every frame emitted in the other simulation scenarios verifies under the
//!     independent decoder (same machinery as C10, checksum-related verdicts only),
//!     plus an own scenario with mixed ChecksumCapabilities.
//! (c) received packets with 1-2 flipped bits inside a checksummed region that the
//!     independent verifier finds invalid have no effect on sockets and elicit nothing.

use serde_json::json;
use smoltcp::iface::SocketHandle;
use smoltcp::phy::{Checksum, ChecksumCapabilities};
use smoltcp::socket::{icmp, tcp, udp};
use smoltcp::wire::{checksum, IpAddress, IpCidr, IpProtocol, Ipv4Address, Ipv6Address};
use vkit::indep::*;
use vkit::runner::{Fail, Part, PhaseResult, Prop, RunEnv, Tier};
use vkit::sim::{us, Hw, Node};
use vkit::{vensure, Ctx, Src};

// ------------------------------------------------------------------ (a) the routine

fn check_data(buf: &[u8], what: &str) -> Result<(), Fail> {
    let got = checksum::data(buf);
    let want = ocsum(buf);
    vensure!(
        got == want,
        "routine:data-differs-from-rfc1071",
        "checksum::data over {} octets ({}) = {:#06x}, independent RFC 1071 sum = {:#06x}",
        buf.len(),
        what,
        got,
        want
    );
    Ok(())
}

fn routine_random(src: &mut Src, ctx: &mut Ctx) -> Result<(), Fail> {
    let len = match src.weighted(&[4, 3, 2, 1]) {
        0 => src.usize(0, 64),
        1 => src.usize(0, 2048),
        2 => src.usize(0, 65535),
        _ => *src.pick(&[65535usize, 65534, 65533, 32768, 32767, 4096, 4095, 3, 2, 1, 0]),
    };
    let align = src.usize(0, 7);
    let class = src.weighted(&[4, 1, 1, 2]);
    // 8-aligned backing store, data starts at `align`
    let mut store: Vec<u64> = vec![0; (len + align) / 8 + 2];
    let bytes: &mut [u8] = unsafe_free_bytes(&mut store);
    let buf = &mut bytes[align..align + len];
    match class {
        0 => {
            let r = src.bytes(len.min(256));
            for (i, b) in buf.iter_mut().enumerate() {
                *b = r[i % r.len().max(1)] ^ (i as u8).wrapping_mul(31);
            }
        }
        1 => buf.fill(0),
        2 => buf.fill(0xff),
        _ => {
            // sparse: a few boundary-valued octets in a zero buffer
            buf.fill(0);
            let k = src.usize(1, 4);
            for _ in 0..k {
                if len > 0 {
                    let p = src.usize(0, len - 1);
                    buf[p] = *src.pick(&[0x01u8, 0x80, 0xff, 0xfe]);
                }
            }
        }
    }
    ctx.note(|| format!("len {} alignment {} class {}", len, align, class));
    check_data(buf, "random case")?;
    // combine
    let n = src.usize(0, 12);
    let words: Vec<u16> = (0..n).map(|_| if src.chance(1, 4) { 0xffff } else { src.u16() }).collect();
    let got = checksum::combine(&words);
    let want = fold(words.iter().map(|w| *w as u64).sum());
    vensure!(got == want, "routine:combine-differs", "combine({:04x?}) = {:#06x}, reference {:#06x}", words, got, want);
    // pseudo headers
    let proto = *src.pick(&[6u8, 17, 58, 1]);
    let plen = src.range(0, 65535) as u32;
    let s4 = src.bytes(4);
    let d4 = src.bytes(4);
    let got = checksum::pseudo_header_v4(&Ipv4Address::new(s4[0], s4[1], s4[2], s4[3]), &Ipv4Address::new(d4[0], d4[1], d4[2], d4[3]), IpProtocol::from(proto), plen);
    let want = pseudo_sum(&Ip::V4([s4[0], s4[1], s4[2], s4[3]]), &Ip::V4([d4[0], d4[1], d4[2], d4[3]]), proto, plen as usize);
    vensure!(got == want, "routine:pseudo-header-v4-differs", "pseudo_header_v4 = {:#06x}, reference {:#06x}", got, want);
    let s6: [u8; 16] = src.bytes(16).try_into().unwrap();
    let d6: [u8; 16] = src.bytes(16).try_into().unwrap();
    let got = checksum::pseudo_header_v6(&Ipv6Address::from(s6), &Ipv6Address::from(d6), IpProtocol::from(proto), plen);
    let want = pseudo_sum(&Ip::V6(s6), &Ip::V6(d6), proto, plen as usize);
    vensure!(got == want, "routine:pseudo-header-v6-differs", "pseudo_header_v6 = {:#06x}, reference {:#06x}", got, want);
    if len >= 3 && (len % 2 == 1 || align != 0) {
        ctx.nontrivial = true;
    }
    ctx.digest.u64(len as u64);
    ctx.digest.u64(align as u64);
    ctx.digest.u64(class as u64);
    ctx.digest.u64(ocsum(buf) as u64);
    Ok(())
}

/// View a u64 vector as bytes (safe: u64 has no invalid bit patterns and alignment only decreases).
fn unsafe_free_bytes(v: &mut Vec<u64>) -> &mut [u8] {
    let n = v.len() * 8;
    let p = v.as_mut_ptr() as *mut u8;
    // SAFETY: the allocation holds n initialised bytes, exclusively borrowed through `v`.
    unsafe { std::slice::from_raw_parts_mut(p, n) }
}

/// replay form of one grid point: [len, align, class, pos]
fn routine_grid_case(src: &mut Src, ctx: &mut Ctx) -> Result<(), Fail> {
    let len = src.usize(0, 65535);
    let align = src.usize(0, 7);
    let class = src.usize(0, 3);
    let pos = src.usize(0, 65535);
    ctx.note(|| format!("grid point len {} alignment {} class {} pos {}", len, align, class, pos));
    grid_point(len, align, class, pos)
}

fn grid_point(len: usize, align: usize, class: usize, pos: usize) -> Result<(), Fail> {
    let mut store: Vec<u64> = vec![0; (len + align) / 8 + 2];
    let bytes = unsafe_free_bytes(&mut store);
    let buf = &mut bytes[align..align + len];
    match class {
        0 => {
            for (i, b) in buf.iter_mut().enumerate() {
                *b = (i as u32).wrapping_mul(2654435761).rotate_left(7) as u8 ^ (len as u8);
            }
        }
        1 => buf.fill(0),
        2 => buf.fill(0xff),
        _ => {
            buf.fill(0);
            if len > 0 {
                buf[pos % len] = [0x01u8, 0x80, 0xff][pos % 3];
            }
        }
    }
    check_data(buf, "grid point")
}

fn routine_grid(env: &RunEnv) -> PhaseResult {
    let max_len = if env.tier == Tier::Quick { 2048 } else { 65535 };
    let nthreads = 16usize;
    let results: Vec<(u64, u64, Vec<(String, Vec<u64>, Fail)>)> = std::thread::scope(|s| {
        let hs: Vec<_> = (0..nthreads)
            .map(|t| {
                s.spawn(move || {
                    let mut evals = 0u64;
                    let mut nt = 0u64;
                    let mut fails = vec![];
                    let mut len = t;
                    while len <= max_len {
                        for align in 0..8 {
                            for class in 0..3 {
                                evals += 1;
                                if len >= 3 && (len % 2 == 1 || align != 0) {
                                    nt += 1;
                                }
                                if let Err(f) = grid_point(len, align, class, 0) {
                                    if fails.len() < 3 {
                                        fails.push(("routine_grid_case".to_string(), vec![len as u64, align as u64, class as u64, 0], f));
                                    }
                                }
                            }
                            // position weights (linearity made executable): every position for
                            // short buffers, a spread of positions for long ones
                            let step = if len <= 128 { 1 } else { (len / 37).max(1) };
                            let mut pos = 0;
                            while pos < len {
                                evals += 1;
                                if let Err(f) = grid_point(len, align, 3, pos) {
                                    if fails.len() < 3 {
                                        fails.push(("routine_grid_case".to_string(), vec![len as u64, align as u64, 3, pos as u64], f));
                                    }
                                }
                                pos += step;
                            }
                        }
                        len += nthreads;
                    }
                    (evals, nt, fails)
                })
            })
            .collect();
        hs.into_iter().map(|h| h.join().unwrap()).collect()
    });
    let mut pr = PhaseResult {
        name: format!("checksum::data on every length 0..={} x alignment 0..7 x content classes", max_len),
        exhaustive: true,
        ..Default::default()
    };
    for (e, n, f) in results {
        pr.evaluations += e;
        pr.nontrivial += n;
        pr.failures.extend(f);
    }
    pr.extra = json!({"max_len": max_len, "alignments": 8, "content_classes": ["pattern", "all 0x00", "all 0xff", "single 0x01/0x80/0xff octet at sampled positions"]});
    pr.samples.push(json!({"phase": "routine grid", "example": "len 1501, alignment 3, all 0xff"}));
    pr
}

// ------------------------------------------------------------------ (b) emitted

#[cfg(feature = "c10")]
fn emitted(src: &mut Src, ctx: &mut Ctx) -> Result<(), Fail> {
    // borrow C10's scenario runner; only checksum verdicts are this property's
    let r = super::c10::prop().parts[0].case;
    let mut inner = Ctx::new(ctx.verbose, std::sync::Arc::new(vec!["*".to_string()]), false);
    let res = r(src, &mut inner);
    ctx.nontrivial = inner.nontrivial;
    ctx.digest = inner.digest;
    for (k, n) in inner.counters.iter() {
        ctx.count(k, *n);
    }
    if ctx.verbose {
        ctx.desc = inner.desc.clone();
    }
    match res {
        Err(f) if f.msg.contains("checksum") => Err(Fail::new(format!("emitted:{}", f.key), f.msg)),
        _ => Ok(()),
    }
}

// ------------------------------------------------------------------ (c) enforced

struct Bed {
    node: Node,
    udp4: SocketHandle,
    udp6: SocketHandle,
    lis: SocketHandle,
    est: SocketHandle,
    icmp4: SocketHandle,
    icmp6: SocketHandle,
    est_irs: u32,
    est_iss: u32,
    now: i64,
}

const OWN4: [u8; 4] = [10, 0, 0, 1];
const PEER4: [u8; 4] = [10, 0, 0, 2];

fn own6() -> Ip {
    Ip::v6([0xfd00, 0, 0, 0, 0, 0, 0, 1])
}
fn peer6() -> Ip {
    Ip::v6([0xfd00, 0, 0, 0, 0, 0, 0, 2])
}

fn caps_from(bits: u64) -> ChecksumCapabilities {
    let pick = |b: u64| match b & 3 {
        0 => Checksum::Both,
        1 => Checksum::Both,
        2 => Checksum::Rx,
        _ => Checksum::Tx,
    };
    let mut c = ChecksumCapabilities::default();
    c.ipv4 = pick(bits);
    c.udp = pick(bits >> 2);
    c.tcp = pick(bits >> 4);
    c.icmpv4 = pick(bits >> 6);
    c.icmpv6 = pick(bits >> 8);
    c
}

fn mk_bed(v6_est: bool, caps: ChecksumCapabilities, seed: u64) -> Result<Bed, Fail> {
    let mut node = Node::new(Hw::Ip, 1500, seed, false, us(0));
    node.dev.checksum = caps;
    // the interface copies device capabilities at construction: rebuild it with the caps in place
    let mut dev = std::mem::replace(&mut node.dev, vkit::sim::SimDevice::new(smoltcp::phy::Medium::Ip, 1500));
    let mut cfg = smoltcp::iface::Config::new(smoltcp::wire::HardwareAddress::Ip);
    cfg.random_seed = seed;
    node.iface = smoltcp::iface::Interface::new(cfg, &mut dev, us(0));
    node.dev = dev;
    node.add_addr(IpCidr::new(IpAddress::Ipv4(Ipv4Address::new(10, 0, 0, 1)), 24));
    node.add_addr(IpCidr::new(own6().to_smol(), 64));
    let mk_udp = || {
        udp::Socket::new(
            udp::PacketBuffer::new(vec![udp::PacketMetadata::EMPTY; 4], vec![0u8; 2048]),
            udp::PacketBuffer::new(vec![udp::PacketMetadata::EMPTY; 4], vec![0u8; 2048]),
        )
    };
    let mut u4 = mk_udp();
    u4.bind(7000).unwrap();
    let mut u6 = mk_udp();
    u6.bind((own6().to_smol(), 7001)).unwrap();
    let mk_tcp = || tcp::Socket::new(tcp::SocketBuffer::new(vec![0u8; 2048]), tcp::SocketBuffer::new(vec![0u8; 2048]));
    let mut lis = mk_tcp();
    lis.listen(80).unwrap();
    let mut est = mk_tcp();
    est.listen(81).unwrap();
    est.set_ack_delay(None);
    let mk_icmp = || {
        icmp::Socket::new(
            icmp::PacketBuffer::new(vec![icmp::PacketMetadata::EMPTY; 4], vec![0u8; 2048]),
            icmp::PacketBuffer::new(vec![icmp::PacketMetadata::EMPTY; 4], vec![0u8; 2048]),
        )
    };
    let mut i4 = mk_icmp();
    i4.bind(icmp::Endpoint::Ident(0x1234)).unwrap();
    let mut i6 = mk_icmp();
    i6.bind(icmp::Endpoint::Ident(0x4321)).unwrap();
    let udp4 = node.sockets.add(u4);
    let udp6 = node.sockets.add(u6);
    let lis = node.sockets.add(lis);
    let est = node.sockets.add(est);
    let icmp4 = node.sockets.add(i4);
    let icmp6 = node.sockets.add(i6);
    let mut b = Bed {
        node,
        udp4,
        udp6,
        lis,
        est,
        icmp4,
        icmp6,
        est_irs: 5000,
        est_iss: 0,
        now: 0,
    };
    // establish the connection on port 81 with valid segments
    let (o, p) = if v6_est { (own6(), peer6()) } else { (Ip::V4(OWN4), Ip::V4(PEER4)) };
    let syn = Tcp::new(40000, 81, b.est_irs, None, SYN, 4096);
    let out = b.deliver(IpPkt::build(p, o, PROTO_TCP, 64, syn.encode(&p, &o)).encode());
    let mut iss = None;
    for f in &out {
        // checksum generation may be off for IPv4/TCP: read the fields without verifying
        let (proto, off) = if f[0] >> 4 == 4 { (f[9], (f[0] & 0xf) as usize * 4) } else { (f[6], 40) };
        if proto == PROTO_TCP && f.len() >= off + 20 {
            let pl = &f[off..];
            if pl[13] & SYN != 0 {
                iss = Some(u32::from_be_bytes([pl[4], pl[5], pl[6], pl[7]]));
            }
        }
    }
    let Some(iss) = iss else {
        return Err(Fail::new("harness:no-synack", "no SYN-ACK while setting up the established socket"));
    };
    b.est_iss = iss;
    let ack = Tcp::new(40000, 81, b.est_irs.wrapping_add(1), Some(iss.wrapping_add(1)), 0, 4096);
    b.deliver(IpPkt::build(p, o, PROTO_TCP, 64, ack.encode(&p, &o)).encode());
    if b.node.sockets.get::<tcp::Socket>(b.est).state() != tcp::State::Established {
        return Err(Fail::new("harness:not-established", "handshake with valid segments did not establish"));
    }
    Ok(b)
}

impl Bed {
    fn deliver(&mut self, frame: Vec<u8>) -> Vec<Vec<u8>> {
        self.now += 1000;
        self.node.inject(frame);
        self.node.poll(us(self.now), None)
    }
    fn snapshot(&mut self) -> Vec<u64> {
        let mut v = vec![];
        for h in [self.udp4, self.udp6] {
            let s = self.node.sockets.get::<udp::Socket>(h);
            v.push(s.recv_queue() as u64);
            v.push(s.can_recv() as u64);
        }
        for h in [self.lis, self.est] {
            let s = self.node.sockets.get::<tcp::Socket>(h);
            v.push(s.state() as u64);
            v.push(s.recv_queue() as u64);
            v.push(s.send_queue() as u64);
        }
        for h in [self.icmp4, self.icmp6] {
            let s = self.node.sockets.get::<icmp::Socket>(h);
            v.push(s.recv_queue() as u64);
            v.push(s.can_recv() as u64);
        }
        v
    }
}

/// Independent verdict on a received IP packet: Ok(()) = every checksum that applies verifies.
fn independently_valid(pkt: &[u8]) -> Result<(), String> {
    let ip = decode_ip(pkt, false)?;
    if ip.is_fragment() {
        return Ok(());
    }
    let (s, d) = (ip.src(), ip.dst());
    match ip.proto() {
        PROTO_TCP => decode_tcp(ip.payload(), &s, &d).map(|_| ()),
        PROTO_UDP => {
            // zero checksum: fine over IPv4, invalid over IPv6 (decode_udp implements exactly that)
            let pl = ip.payload();
            if pl.len() < 8 {
                return Err("udp: short".into());
            }
            let c = u16::from_be_bytes([pl[6], pl[7]]);
            if c == 0 {
                if s.is_v4() {
                    return Ok(());
                }
                return Err("udp: zero checksum over IPv6".into());
            }
            let len = u16::from_be_bytes([pl[4], pl[5]]) as usize;
            if len < 8 || len > pl.len() {
                return Err("udp: bad length".into());
            }
            if l4_verify(&s, &d, PROTO_UDP, &pl[..len]) {
                Ok(())
            } else {
                Err("udp: checksum does not verify".into())
            }
        }
        PROTO_ICMP if s.is_v4() => decode_icmp4(ip.payload()).map(|_| ()),
        PROTO_ICMPV6 if !s.is_v4() => decode_icmp6(ip.payload(), &s, &d).map(|_| ()),
        _ => Ok(()),
    }
}

fn enforced(src: &mut Src, ctx: &mut Ctx) -> Result<(), Fail> {
    let v6 = src.bool();
    let caps_bits = if src.chance(1, 2) { 0 } else { src.draw(1023) };
    let caps = caps_from(caps_bits);
    let rx = (caps.ipv4.rx(), caps.udp.rx(), caps.tcp.rx(), caps.icmpv4.rx(), caps.icmpv6.rx());
    let mut b = mk_bed(v6, caps, src.u64())?;
    let (o, p) = if v6 { (own6(), peer6()) } else { (Ip::V4(OWN4), Ip::V4(PEER4)) };
    let rounds = src.usize(1, 6);
    let mut judged = 0;
    for _ in 0..rounds {
        // a valid packet for one of the sockets
        let kind = src.draw(5);
        let plen = src.usize(0, 40);
        let payload = src.bytes(plen);
        let (proto, l4): (u8, Vec<u8>) = match kind {
            0 => (PROTO_UDP, Udp::new(5555, if v6 { 7001 } else { 7000 }, payload).encode(&p, &o)),
            1 => (PROTO_TCP, Tcp::new(41000 + src.range(0, 100) as u16, 80, src.u32(), None, SYN, 1000).encode(&p, &o)),
            2 => {
                let mut t = Tcp::new(40000, 81, b.est_irs.wrapping_add(1), Some(b.est_iss.wrapping_add(1)), PSH, 1000);
                t.payload = if payload.is_empty() { vec![0x55] } else { payload };
                (PROTO_TCP, t.encode(&p, &o))
            }
            3 => {
                let e = Icmp::echo(v6, true, 7, 1, payload);
                if v6 {
                    (PROTO_ICMPV6, e.encode6(&p, &o))
                } else {
                    (PROTO_ICMP, e.encode4())
                }
            }
            4 => {
                let e = Icmp::echo(v6, false, if v6 { 0x4321 } else { 0x1234 }, 2, payload);
                if v6 {
                    (PROTO_ICMPV6, e.encode6(&p, &o))
                } else {
                    (PROTO_ICMP, e.encode4())
                }
            }
            _ => {
                // UDP with the "no checksum" value
                let mut u = Udp::new(5556, if v6 { 7001 } else { 7000 }, payload);
                u.csum = Some(0);
                (PROTO_UDP, u.encode(&p, &o))
            }
        };
        let mut pkt = IpPkt::build(p, o, proto, 64, l4).encode();
        let ip_hdr = if v6 { 40 } else { 20 };
        // corrupt 1-2 bits inside a checksummed region (kind 5: leave the zero checksum as is half the time)
        let flips = if kind == 5 && src.bool() { 0 } else { src.usize(1, 2) };
        let mut flipped = vec![];
        for _ in 0..flips {
            let region = if !v6 && src.chance(1, 4) { (0usize, 20usize) } else { (ip_hdr, pkt.len()) };
            if region.1 <= region.0 {
                continue;
            }
            let pos = src.usize(region.0, region.1 - 1);
            let bit = src.draw(7) as u8;
            pkt[pos] ^= 1 << bit;
            flipped.push((pos, bit));
        }
        let verdict = independently_valid(&pkt);
        ctx.note(|| format!("kind {} v6={} flips {:?} caps_bits {:#x}: independent verdict {:?}", kind, v6, flipped, caps_bits, verdict));
        let Err(why) = verdict else {
            // still valid (e.g. cancelling flips, or the legal zero UDP/IPv4 checksum): not claimed
            ctx.label("still-valid");
            let _ = b.deliver(pkt);
            // re-establish a known baseline: anything may have changed legitimately
            continue;
        };
        // which receive capability is responsible for rejecting it?
        let responsible_rx = if why.starts_with("ipv4") {
            rx.0
        } else if why.starts_with("udp") {
            rx.1
        } else if why.starts_with("tcp") {
            rx.2
        } else if why.starts_with("icmpv4") {
            rx.3
        } else if why.starts_with("icmpv6") {
            rx.4
        } else {
            // structural damage (lengths, version...): not a checksum matter
            ctx.label("structurally-invalid");
            let _ = b.deliver(pkt);
            continue;
        };
        if !why.contains("checksum") {
            ctx.label("structurally-invalid");
            let _ = b.deliver(pkt);
            continue;
        }
        if !responsible_rx {
            ctx.label("rx-verification-off");
            let _ = b.deliver(pkt);
            continue;
        }
        let before = b.snapshot();
        let out = b.deliver(pkt.clone());
        let after = b.snapshot();
        judged += 1;
        ctx.label(&format!("judged:{}", why.split(':').next().unwrap_or("?")));
        let class = why.split(':').next().unwrap_or("?").to_string();
        if !out.is_empty() {
            let zero6 = why.contains("zero checksum over IPv6");
            ctx.report(Fail::new(
                if zero6 { "enforced:udp-zero-checksum-over-ipv6-accepted".to_string() } else { format!("enforced:invalid-{}-answered", class) },
                format!("a packet whose checksum does not verify ({}) was answered with {} frame(s); packet {:02x?}", why, out.len(), &pkt[..pkt.len().min(80)]),
            ))?;
        }
        if before != after {
            let zero6 = why.contains("zero checksum over IPv6");
            ctx.report(Fail::new(
                if zero6 { "enforced:udp-zero-checksum-over-ipv6-accepted".to_string() } else { format!("enforced:invalid-{}-changed-socket", class) },
                format!("a packet whose checksum does not verify ({}) changed socket state/queues {:?} -> {:?}; packet {:02x?}", why, before, after, &pkt[..pkt.len().min(80)]),
            ))?;
        }
        ctx.digest.bytes(&pkt);
    }
    if judged > 0 {
        ctx.nontrivial = true;
    }
    Ok(())
}

// ------------------------------------------------------------------ (c') enforced on the DHCPv4 client path
//
// On Ethernet, UDP 67 -> 68 is handed to the dhcpv4 socket before the general UDP path; the
// checksum must be enforced there as well. The client's DISCOVER is captured, a well-formed OFFER
// is built for it (control: it must be answered by a REQUEST), then 1-2 bits inside the UDP segment
// are flipped: when the independent verifier finds the checksum invalid and UDP receive
// verification is on, the client must neither answer nor change state.

const DHCP_MAC: [u8; 6] = [2, 0, 0, 0, 0, 0x11];
const DHCP_SRV_MAC: [u8; 6] = [2, 0, 0, 0, 0, 0xfe];
const DHCP_SRV: [u8; 4] = [10, 0, 0, 254];

fn dhcp_offer(xid: [u8; 4], yiaddr: [u8; 4], secs_flags: [u8; 4]) -> Vec<u8> {
    let mut b = vec![0u8; 236];
    b[0] = 2; // BOOTREPLY
    b[1] = 1;
    b[2] = 6;
    b[4..8].copy_from_slice(&xid);
    b[8..12].copy_from_slice(&secs_flags);
    b[16..20].copy_from_slice(&yiaddr);
    b[20..24].copy_from_slice(&DHCP_SRV);
    b[28..34].copy_from_slice(&DHCP_MAC);
    b.extend_from_slice(&[0x63, 0x82, 0x53, 0x63]);
    b.extend_from_slice(&[53, 1, 2]); // OFFER
    b.extend_from_slice(&[54, 4]);
    b.extend_from_slice(&DHCP_SRV);
    b.extend_from_slice(&[51, 4, 0, 0, 0x0e, 0x10]);
    b.extend_from_slice(&[1, 4, 255, 255, 255, 0]);
    b.extend_from_slice(&[3, 4]);
    b.extend_from_slice(&DHCP_SRV);
    b.push(255);
    b
}

fn enforced_dhcp(src: &mut Src, ctx: &mut Ctx) -> Result<(), Fail> {
    use smoltcp::socket::dhcpv4;
    let caps_bits = if src.chance(1, 2) { 0 } else { src.draw(1023) };
    let caps = caps_from(caps_bits);
    let udp_rx = caps.udp.rx();
    let ipv4_rx = caps.ipv4.rx();
    let seed = src.u64();
    let mut node = Node::new(Hw::Eth(DHCP_MAC), 1500, seed, false, us(0));
    node.dev.checksum = caps;
    let mut dev = std::mem::replace(&mut node.dev, vkit::sim::SimDevice::new(smoltcp::phy::Medium::Ethernet, 1500));
    let mut cfg = smoltcp::iface::Config::new(smoltcp::wire::HardwareAddress::Ethernet(smoltcp::wire::EthernetAddress(DHCP_MAC)));
    cfg.random_seed = seed;
    node.iface = smoltcp::iface::Interface::new(cfg, &mut dev, us(0));
    node.dev = dev;
    let h = node.sockets.add(dhcpv4::Socket::new());
    let mut now: i64 = 0;
    let out = node.poll(us(now), None);
    // the DISCOVER: Ethernet / IPv4 / UDP 68 -> 67; fields read without verification (tx checksums may be off)
    let mut xid = None;
    for f in &out {
        if f.len() >= 14 + 20 + 8 + 240 && f[12..14] == [0x08, 0x00] && f[23] == PROTO_UDP && f[34..38] == [0, 68, 0, 67] {
            let bootp = &f[42..];
            xid = Some([bootp[4], bootp[5], bootp[6], bootp[7]]);
        }
    }
    let Some(xid) = xid else {
        ctx.label("dhcp:no-discover-seen");
        return Ok(());
    };
    let yiaddr = [10, 0, 0, 50 + src.draw(100) as u8];
    let body = dhcp_offer(xid, yiaddr, [0, 0, if src.bool() { 0x80 } else { 0 }, 0]);
    let (s, d) = (Ip::V4(DHCP_SRV), Ip::V4([255, 255, 255, 255]));
    let l4 = Udp::new(67, 68, body).encode(&s, &d);
    let mut pkt = Ip4::new(DHCP_SRV, [255, 255, 255, 255], PROTO_UDP, l4).encode();
    let control = src.chance(1, 6);
    let mut flipped = vec![];
    if !control {
        for _ in 0..src.usize(1, 2) {
            // anywhere in the UDP segment (header incl. the checksum field, BOOTP fields, options);
            // biased to the fields a client acts upon
            let pos = match src.weighted(&[3, 2, 2, 1]) {
                0 => src.usize(20, pkt.len() - 1),
                1 => 20 + 8 + src.usize(16, 19), // yiaddr
                2 => 20 + src.usize(6, 7),       // the checksum itself
                _ => 20 + 8 + src.usize(8, 11),  // secs / flags
            };
            let bit = src.draw(7) as u8;
            pkt[pos] ^= 1 << bit;
            flipped.push((pos, bit));
        }
    }
    let verdict = independently_valid(&pkt);
    ctx.note(|| format!("DHCP OFFER for xid {:02x?} yiaddr {:?}: flips {:?}, caps_bits {:#x}, independent verdict {:?}", xid, yiaddr, flipped, caps_bits, verdict));
    let frame = Eth { dst: MAC_BROADCAST, src: DHCP_SRV_MAC, ethertype: ETH_IPV4, payload: pkt.clone() }.encode();
    // a new dhcpv4 socket reports an initial Deconfigured event: take it before the experiment
    let _ = node.sockets.get_mut::<dhcpv4::Socket>(h).poll();
    now += 1000;
    node.inject(frame);
    let out = node.poll(us(now), None);
    let event = node.sockets.get_mut::<dhcpv4::Socket>(h).poll().is_some();
    let request = out.iter().any(|f| f.len() >= 14 + 20 + 8 + 240 && f[12..14] == [0x08, 0x00] && f[23] == PROTO_UDP && f[34..38] == [0, 68, 0, 67]);
    ctx.digest.bytes(&pkt);
    match verdict {
        Ok(()) => {
            if control {
                ctx.label(if request { "dhcp:control-offer-answered" } else { "dhcp:control-offer-NOT-answered" });
                vensure!(request, "harness:dhcp-control-not-answered", "a well-formed OFFER for the client's own transaction was not answered with a REQUEST: the DHCP part of this check would be vacuous");
            } else {
                ctx.label("dhcp:still-valid");
            }
        }
        Err(why) => {
            if !why.contains("checksum") {
                ctx.label("dhcp:structurally-invalid");
                return Ok(());
            }
            let responsible = if why.starts_with("ipv4") { ipv4_rx } else { udp_rx };
            if !responsible {
                ctx.label("dhcp:rx-verification-off");
                return Ok(());
            }
            ctx.nontrivial = true;
            ctx.label(&format!("dhcp:judged:{}", why.split(':').next().unwrap_or("?")));
            if request || !out.is_empty() {
                ctx.report(Fail::new(
                    "enforced:invalid-dhcp-offer-answered",
                    format!("a DHCP OFFER whose checksum does not verify ({}) was answered with {} frame(s) (REQUEST: {}); flips {:?}; packet {:02x?}", why, out.len(), request, flipped, &pkt[..pkt.len().min(64)]),
                ))?;
            }
            if event {
                ctx.report(Fail::new("enforced:invalid-dhcp-offer-changed-socket", format!("a DHCP OFFER whose checksum does not verify ({}) made the dhcpv4 socket report an event; flips {:?}", why, flipped)))?;
            }
        }
    }
    Ok(())
}

pub fn prop() -> Prop {
    #[allow(unused_mut)]
    let mut parts = vec![
        Part { name: "routine_random", case: routine_random, quick: 200_000, thorough: 5_000_000 },
        Part { name: "routine_grid_case", case: routine_grid_case, quick: 2_000, thorough: 50_000 },
        Part { name: "enforced", case: enforced, quick: 150_000, thorough: 5_000_000 },
    ];
    #[cfg(feature = "c10")]
    parts.push(Part { name: "emitted", case: emitted, quick: 20_000, thorough: 1_000_000 });
    parts.push(Part { name: "enforced_dhcp", case: enforced_dhcp, quick: 60_000, thorough: 2_000_000 });
    Prop {
        id: "C08",
        parts,
        phases: vec![routine_grid],
        smoltcp_panic_is_violation: true,
        rule: "(a) wire::checksum::data against an independent RFC 1071 sum for EVERY length 0..=2048 (quick) / 0..=65535 (thorough) at every start alignment 0..7 of an 8-aligned allocation with pattern / all-zero / all-0xff contents and single 0x01/0x80/0xff octets at all (short) or sampled (long) positions, plus random buffers, combine() and pseudo_header_v4/v6 against references; non-trivial = length >= 3 with odd length or non-zero alignment. (b) every frame emitted in the simulation scenarios of the other checks is verified by the independent decoder (checksum verdicts only). (c) a node with bound UDP (v4/v6), listening and established TCP and ICMP sockets under drawn ChecksumCapabilities receives valid packets with 1-2 flipped bits inside a checksummed region, or UDP with checksum 0; when the independent verifier finds a checksum invalid and the responsible rx capability is on, the packet must change no socket state/queue and elicit no frame (UDP/IPv4 with checksum 0 is not claimed; UDP/IPv6 with 0 must be dropped); the same on an Ethernet node with a DHCPv4 client, whose own path takes UDP 67->68 before the general one: a well-formed OFFER for the captured transaction is answered (control), with 1-2 bits flipped in its UDP segment it must be neither answered nor reported; non-trivial = at least one such packet judged; distinct by digest",
        assumptions: vec![
            "independent RFC 1071 implementation (64-bit accumulate, end-around fold) and pseudo-headers in vkit::indep",
            "double flips that cancel in the one's-complement sum are recognised by the independent verifier and not claimed",
            "structurally damaging flips (lengths, version) are not this property's claim and are only labelled",
        ],
    }
}
