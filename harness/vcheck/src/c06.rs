//! C06 - wire representations survive emit-then-parse.
//!
//! One part per `Repr` type of `smoltcp::wire`. Every case generates a repr inside
//! the documented field ranges and runs, through the `drive!` macro:
//!   (3) emit into a buffer of exactly the declared length, under `guarded`;
//!   (2) the same emission into a 0x00-, a 0xFF- and a garbage-filled buffer must
//!       give identical bytes;
//!   (1) parsing the bytes gives back an equal repr (when the repr is inside the
//!       proviso of its type, `ok(..)`);
//!   (4) one field of the emitted bytes is mutated; if the result still parses to a
//!       repr r2 inside the proviso, emit(r2) -> parse must give r2 again.
//! The provisos are written next to each generator with the source line that
//! justifies them.

use serde_json::json;
use smoltcp::phy::ChecksumCapabilities;
use smoltcp::time::Duration;
use smoltcp::wire::{
    ArpOperation, ArpPacket, ArpRepr, DhcpMessageType, DhcpPacket, DhcpRepr, DnsFlags, DnsOpcode,
    DnsPacket, DnsQueryType, DnsQuestion, DnsRecord, DnsRecordData, DnsRepr, EthernetAddress,
    EthernetFrame, EthernetProtocol, EthernetRepr, Icmpv4DstUnreachable, Icmpv4Packet, Icmpv4Repr,
    Icmpv4TimeExceeded, Icmpv6DstUnreachable, Icmpv6Packet, Icmpv6ParamProblem, Icmpv6Repr,
    Icmpv6TimeExceeded, Ieee802154Address, Ieee802154Frame, Ieee802154FrameType,
    Ieee802154FrameVersion, Ieee802154Pan, Ieee802154Repr, IgmpPacket, IgmpRepr, IgmpVersion,
    IpAddress, IpProtocol, IpRepr, Ipv4Address, Ipv4Packet, Ipv4Repr, Ipv6Address, Ipv6ExtHeader,
    Ipv6ExtHeaderRepr, Ipv6FragmentHeader, Ipv6FragmentRepr, Ipv6HopByHopHeader, Ipv6HopByHopRepr,
    Ipv6Option, Ipv6OptionRepr, Ipv6OptionRouterAlert, Ipv6OptionType, Ipv6Packet, Ipv6Repr,
    Ipv6RoutingHeader, Ipv6RoutingRepr, MldAddressRecord, MldAddressRecordRepr, MldRecordType,
    MldRepr, NdiscNeighborFlags, NdiscOption, NdiscOptionRepr, NdiscPrefixInfoFlags,
    NdiscPrefixInformation, NdiscRedirectedHeader, NdiscRepr, NdiscRouterFlags, RawHardwareAddress,
    SixlowpanExtHeaderId, SixlowpanExtHeaderPacket, SixlowpanExtHeaderRepr, SixlowpanFragPacket,
    SixlowpanFragRepr, SixlowpanIphcPacket, SixlowpanIphcRepr, SixlowpanNextHeader,
    SixlowpanUdpNhcPacket, SixlowpanUdpNhcRepr, TcpControl, TcpOption, TcpPacket, TcpRepr,
    TcpSeqNumber, TcpTimestampRepr, UdpPacket, UdpRepr,
};
use vkit::runner::{guarded, panic_in_smoltcp, panic_key, CaseFn, PanicInfo};
use vkit::{vensure, Ctx, Fail, Part, PhaseResult, Prop, RunEnv, Src};

type R = std::result::Result<(), Fail>;
type Diffs = Vec<(usize, u8)>;

// ------------------------------------------------------------------ engine helpers

fn prng_fill(buf: &mut [u8], seed: u64) {
    let mut x = seed ^ 0x9E37_79B9_7F4A_7C15;
    if x == 0 {
        x = 1;
    }
    for (i, b) in buf.iter_mut().enumerate() {
        x ^= x << 13;
        x ^= x >> 7;
        x ^= x << 17;
        *b = ((x >> 24) as u8) ^ (i as u8).wrapping_mul(37) ^ 0xA5;
    }
}

/// deterministic filler for payload areas that are not part of the repr
fn pat(buf: &mut [u8]) {
    for (i, b) in buf.iter_mut().enumerate() {
        *b = (i as u8).wrapping_mul(7).wrapping_add(3);
    }
}

fn hex(b: &[u8]) -> String {
    let mut s = String::new();
    for x in b.iter().take(96) {
        s.push_str(&format!("{:02x}", x));
    }
    if b.len() > 96 {
        s.push_str("...");
    }
    s
}

fn run_emit(buf: &mut [u8], f: &mut dyn FnMut(&mut [u8])) -> Result<(), PanicInfo> {
    match guarded(|| f(buf)) {
        Ok(()) => Ok(()),
        Err(p) => {
            if panic_in_smoltcp(&p) {
                Err(p)
            } else {
                panic!("harness bug inside an emit snippet: {}:{}: {}", p.file, p.line, p.msg)
            }
        }
    }
}

/// emit into a 0x00-, 0xFF- and garbage-filled buffer; returns the bytes of the first and the
/// (offset, xor mask) list of bytes that differ between the three
fn emit3(len: usize, seed: u64, f: &mut dyn FnMut(&mut [u8])) -> Result<(Vec<u8>, Diffs), PanicInfo> {
    let mut a = vec![0u8; len];
    let mut b = vec![0xffu8; len];
    let mut c = vec![0u8; len];
    prng_fill(&mut c, seed);
    run_emit(&mut a, f)?;
    run_emit(&mut b, f)?;
    run_emit(&mut c, f)?;
    let mut d = vec![];
    for i in 0..len {
        let m = (a[i] ^ b[i]) | (a[i] ^ c[i]);
        if m != 0 {
            d.push((i, m));
        }
    }
    Ok((a, d))
}

fn emit1(len: usize, f: &mut dyn FnMut(&mut [u8])) -> Result<Vec<u8>, PanicInfo> {
    let mut a = vec![0u8; len];
    run_emit(&mut a, f)?;
    Ok(a)
}

fn panic_fail(name: &str, p: &PanicInfo, what: String, len: usize) -> Fail {
    Fail::new(
        panic_key(p),
        format!(
            "{}: emit panicked on a buffer of the declared length {} at {}:{}: {}; repr {}",
            name, len, p.file, p.line, p.msg, what
        ),
    )
}

/// turn per-byte classification keys into failures. "@checksum" marks bytes that only differ
/// as a consequence of other differing bytes (a checksum over them).
fn diff_fails(name: &str, keys: Vec<(String, String)>, what: &str) -> Vec<Fail> {
    let real: Vec<&(String, String)> = keys.iter().filter(|k| k.0 != "@checksum").collect();
    let mut out = vec![];
    if real.is_empty() {
        if let Some(k) = keys.first() {
            out.push(Fail::new(
                format!("{}:buffer-dependent:checksum-only", name),
                format!("{}: emitted checksum depends on previous buffer contents ({}); repr {}", name, k.1, what),
            ));
        }
    } else {
        for k in real {
            out.push(Fail::new(
                k.0.clone(),
                format!(
                    "{}: emitted bytes depend on what the buffer held before (0x00/0xFF/garbage pre-fill differ at {}); repr {}",
                    name, k.1, what
                ),
            ));
        }
    }
    out
}

/// All oracle failures of one case are collected; known ones are counted, of the unknown
/// ones one is chosen by a draw so that a type with an always-firing finding does not mask
/// its other oracles (over many cases every key gets its turn).
fn dev_skip(key: &str) -> bool {
    // development aid only: VERIF_C06_SKIP=key1,prefix2* hides these keys so that the oracles
    // behind an always-firing finding can be looked at before it is listed in known_findings.json
    static SKIP: std::sync::OnceLock<Vec<String>> = std::sync::OnceLock::new();
    let pats = SKIP.get_or_init(|| std::env::var("VERIF_C06_SKIP").map(|v| v.split(',').map(|s| s.to_string()).collect()).unwrap_or_default());
    pats.iter().any(|p| vkit::runner::key_matches(p, key))
}

fn finish(src: &mut Src, ctx: &mut Ctx, fails: Vec<Fail>) -> R {
    let mut unknown: Vec<Fail> = vec![];
    for f in fails {
        if dev_skip(&f.key) {
            continue;
        }
        if ctx.is_known(&f.key) {
            ctx.report(f)?;
        } else if !unknown.iter().any(|u| u.key == f.key) {
            unknown.push(f);
        }
    }
    if unknown.is_empty() {
        return Ok(());
    }
    // value-based choice (not index-based) so that a recorded tape keeps selecting the same key
    // when other findings of the same case get fixed or listed as known
    let mut i = 0;
    if unknown.len() > 1 {
        let v = src.u64();
        let h = |k: &str| {
            let mut d = vkit::Digest::new();
            d.str(k);
            d.finish() ^ v
        };
        for j in 1..unknown.len() {
            if h(&unknown[j].key) < h(&unknown[i].key) {
                i = j;
            }
        }
    }
    Err(unknown.swap_remove(i))
}

fn mutate(src: &mut Src, bytes: &[u8]) -> Vec<u8> {
    let mut m = bytes.to_vec();
    if m.is_empty() {
        return m;
    }
    let n = 1 + src.weighted(&[4, 1]);
    for _ in 0..n {
        let hi = m.len() - 1;
        let idx = if src.chance(3, 4) { src.usize(0, hi.min(47)) } else { src.usize(0, hi) };
        match src.draw(6) {
            0 => m[idx] ^= 1 << src.draw(7),
            1 => m[idx] = 0,
            2 => m[idx] = 0xff,
            3 => m[idx] = m[idx].wrapping_add(1),
            4 => m[idx] = m[idx].wrapping_sub(1),
            5 => m[idx] = src.u8(),
            _ => {
                let v = *src.pick(&[0u16, 1, 0x7fff, 0x8000, 0xffff, 0x00ff, 0xff00]);
                m[idx] = (v >> 8) as u8;
                if idx + 1 < m.len() {
                    m[idx + 1] = v as u8;
                }
            }
        }
    }
    m
}

/// The four oracles for one repr. Snippets get references to the repr. Evaluates to the
/// bytes emitted into the zero-filled buffer.
macro_rules! drive {
    (
        $src:ident, $ctx:ident, $name:literal, $r:expr;
        len($lr:ident) $len:block
        emit($er:ident, $eb:ident) $emit:block
        parse($pb:ident, $lenient:ident => $p:ident) { $($parse:tt)* }
        ok($okr:ident) $ok:block
        diffkey($dr:ident, $off:ident, $mask:ident, $all:ident) $dk:block
        rtkey($kr:ident) $rk:block
    ) => {{
        let r0 = $r;
        $ctx.note(|| format!("{} {:?}", $name, r0));
        let mut fails: Vec<Fail> = Vec::new();
        let inside: bool = { let $okr = r0; $ok };
        if !inside {
            $ctx.label(concat!($name, ":gen:outside-proviso"));
        }
        let len0: usize = { let $lr = r0; $len };
        let gseed = $src.u64();
        let em = emit3(len0, gseed, &mut |$eb: &mut [u8]| { let $er = r0; $emit });
        let (bytes, diffs) = match em {
            Ok(v) => v,
            Err(p) => return Err(panic_fail($name, &p, format!("{:?}", r0), len0)),
        };
        $ctx.digest.str($name);
        $ctx.digest.bytes(&bytes);
        $ctx.note(|| format!("emitted {} bytes: {}", bytes.len(), hex(&bytes)));
        // (2) buffer independence
        if !diffs.is_empty() {
            let mut keys: Vec<(String, String)> = Vec::new();
            let $all: &Diffs = &diffs;
            let _ = $all;
            for &($off, $mask) in diffs.iter() {
                let $dr = r0;
                let ks: String = $dk;
                for k in ks.split('|') {
                    if !k.is_empty() && !keys.iter().any(|x| x.0 == k) {
                        keys.push((k.to_string(), format!("byte {} mask {:#04x}", $off, $mask)));
                    }
                }
            }
            fails.extend(diff_fails($name, keys, &format!("{:?}", r0)));
        }
        // (1) emit -> parse
        if inside {
            let bad: Option<String> = {
                let $pb: &[u8] = &bytes[..];
                let $lenient: bool = false;
                let _ = $lenient;
                $($parse)*
                match &$p {
                    Some(q) if q == r0 => None,
                    other => Some(format!("{:?}", other)),
                }
            };
            if let Some(got) = bad {
                let key: String = { let $kr = r0; $rk };
                fails.push(Fail::new(
                    key,
                    format!("{}: emit->parse differs: emitted {:?} as {} parsed back {}", $name, r0, hex(&bytes), got),
                ));
            }
        }
        // (4) mutate -> parse -> emit -> parse
        let mbytes = mutate($src, &bytes);
        {
            let $pb: &[u8] = &mbytes[..];
            let $lenient: bool = true;
            let _ = $lenient;
            $($parse)*
            if let Some(r2) = &$p {
                let ok2: bool = { let $okr = r2; $ok };
                if !ok2 {
                    $ctx.label(concat!($name, ":mut:parsed-outside-proviso"));
                } else {
                    $ctx.label(concat!($name, ":mut:reparsed"));
                    let len2: usize = { let $lr = r2; $len };
                    let b2 = match emit1(len2, &mut |$eb: &mut [u8]| { let $er = r2; $emit }) {
                        Ok(b) => b,
                        Err(p) => return Err(panic_fail(concat!($name, " (re-emit of parsed repr)"), &p, format!("{:?}", r2), len2)),
                    };
                    let bad: Option<String> = {
                        let $pb: &[u8] = &b2[..];
                        let $lenient: bool = false;
                        let _ = $lenient;
                        $($parse)*
                        match &$p {
                            Some(q) if q == r2 => None,
                            other => Some(format!("{:?}", other)),
                        }
                    };
                    if let Some(got) = bad {
                        let key: String = { let $kr = r2; $rk };
                        fails.push(Fail::new(
                            key,
                            format!(
                                "{}: parse->emit->parse differs: mutated packet {} parsed to {:?}, re-emitted as {} parsed back {}",
                                $name, hex(&mbytes), r2, hex(&b2), got
                            ),
                        ));
                    }
                }
            } else {
                $ctx.label(concat!($name, ":mut:rejected"));
            }
        }
        finish($src, $ctx, fails)?;
        bytes
    }};
}

// ------------------------------------------------------------------ common generators

fn arr<const N: usize>(src: &mut Src) -> [u8; N] {
    let v = src.bytes(N);
    let mut a = [0u8; N];
    a.copy_from_slice(&v);
    a
}

fn g_len(src: &mut Src, max: usize) -> usize {
    match src.weighted(&[3, 3, 2, 1]) {
        0 => src.usize(0, 16.min(max)),
        1 => src.biased(0, max as u64) as usize,
        2 => src.usize(0, 128.min(max)),
        _ => max - src.usize(0, 3.min(max)),
    }
}

fn g_data(src: &mut Src, n: usize) -> Vec<u8> {
    match src.weighted(&[1, 2, 1]) {
        0 => vec![0; n],
        1 => {
            let s = src.u64();
            let mut v = vec![0; n];
            prng_fill(&mut v, s);
            v
        }
        _ => vec![0xff; n],
    }
}

fn g_mac(src: &mut Src) -> EthernetAddress {
    match src.weighted(&[4, 1, 1, 1]) {
        0 => EthernetAddress(arr::<6>(src)),
        1 => EthernetAddress([0; 6]),
        2 => EthernetAddress::BROADCAST,
        _ => {
            let mut a = arr::<6>(src);
            a[0] |= 1;
            EthernetAddress(a)
        }
    }
}

fn g_v4(src: &mut Src) -> Ipv4Address {
    match src.weighted(&[4, 1, 1, 1, 1, 1]) {
        0 => Ipv4Address::from(arr::<4>(src)),
        1 => Ipv4Address::from([0, 0, 0, 0]),
        2 => Ipv4Address::from([255, 255, 255, 255]),
        3 => Ipv4Address::from([127, 0, 0, 1]),
        4 => Ipv4Address::from([224 + src.draw(15) as u8, 0, 0, src.u8()]),
        _ => Ipv4Address::from([169, 254, src.u8(), src.u8()]),
    }
}

fn g_v6(src: &mut Src) -> Ipv6Address {
    match src.weighted(&[3, 1, 1, 2, 2, 2, 1]) {
        0 => Ipv6Address::from(arr::<16>(src)),
        1 => Ipv6Address::UNSPECIFIED,
        2 => Ipv6Address::LOCALHOST,
        3 => {
            let mut a = [0u8; 16];
            a[0] = 0xfe;
            a[1] = 0x80;
            a[8..].copy_from_slice(&arr::<8>(src));
            Ipv6Address::from(a)
        }
        4 => g_v6_mcast(src),
        5 => {
            let mut a = arr::<16>(src);
            a[0] = 0x20;
            a[1] = 0x01;
            a[2] = 0x0d;
            a[3] = 0xb8;
            Ipv6Address::from(a)
        }
        _ => {
            let mut a = [0u8; 16];
            a[10] = 0xff;
            a[11] = 0xff;
            a[12..].copy_from_slice(&arr::<4>(src));
            Ipv6Address::from(a)
        }
    }
}

fn g_v6_mcast(src: &mut Src) -> Ipv6Address {
    let mut a = [0u8; 16];
    a[0] = 0xff;
    match src.draw(3) {
        0 => {
            a[1] = 0x02;
            a[15] = src.u8();
        }
        1 => {
            a[1] = src.u8();
            a[13..].copy_from_slice(&arr::<3>(src));
        }
        2 => {
            a[1] = src.u8();
            a[11..].copy_from_slice(&arr::<5>(src));
        }
        _ => {
            a[1..].copy_from_slice(&arr::<15>(src));
        }
    }
    Ipv6Address::from(a)
}

fn g_proto(src: &mut Src) -> IpProtocol {
    IpProtocol::from(src.special(&[0, 1, 2, 6, 17, 43, 44, 50, 51, 58, 59, 60, 255], 0, 255) as u8)
}

fn g_caps(src: &mut Src) -> (ChecksumCapabilities, bool) {
    if src.chance(1, 4) {
        (ChecksumCapabilities::ignored(), false)
    } else {
        (ChecksumCapabilities::default(), true)
    }
}

fn lenient_caps(lenient: bool, caps: &ChecksumCapabilities) -> ChecksumCapabilities {
    if lenient {
        ChecksumCapabilities::ignored()
    } else {
        caps.clone()
    }
}

fn g_ip_pair(src: &mut Src) -> (IpAddress, IpAddress) {
    if src.bool() {
        (IpAddress::Ipv6(g_v6(src)), IpAddress::Ipv6(g_v6(src)))
    } else {
        (IpAddress::Ipv4(g_v4(src)), IpAddress::Ipv4(g_v4(src)))
    }
}

// ------------------------------------------------------------------ ethernet

/// Proviso: enum-with-unknown fields are generated through `From<raw>` so that
/// `Unknown(v)` never carries a named value (src/macros.rs:62-69 maps named values to the
/// named variant on parse). No other proviso: fixed 14-byte header (ethernet.rs:303-313).
fn ethernet(src: &mut Src, ctx: &mut Ctx) -> R {
    let r = EthernetRepr {
        src_addr: g_mac(src),
        dst_addr: g_mac(src),
        ethertype: EthernetProtocol::from(src.special(&[0x0800, 0x0806, 0x86dd, 0, 0xffff, 0x8100, 1500, 1536], 0, 65535) as u16),
    };
    let plen = g_len(src, 1500);
    ctx.nontrivial = plen > 0 || r.src_addr != EthernetAddress([0; 6]) || r.dst_addr != EthernetAddress([0; 6]);
    if matches!(r.ethertype, EthernetProtocol::Unknown(_)) {
        ctx.label("ethernet:ethertype-unknown");
    }
    drive!(src, ctx, "ethernet", &r;
        len(r) { r.buffer_len() + plen }
        emit(r, buf) {
            r.emit(&mut EthernetFrame::new_unchecked(&mut buf[..]));
            pat(&mut buf[14..]);
        }
        parse(buf, lenient => p) {
            let fr = EthernetFrame::new_unchecked(buf);
            let p = EthernetRepr::parse(&fr).ok();
        }
        ok(_r) { true }
        diffkey(_r, _off, _mask, _all) { "ethernet:buffer-dependent".to_string() }
        rtkey(_r) { "ethernet:roundtrip".to_string() }
    );
    Ok(())
}

// ------------------------------------------------------------------ arp

/// No proviso beyond canonical enum values: Repr::EthernetIpv4 is the only variant and all
/// nine fields are written (arp.rs:304-324).
fn arp(src: &mut Src, ctx: &mut Ctx) -> R {
    let r = ArpRepr::EthernetIpv4 {
        operation: ArpOperation::from(src.special(&[1, 2, 0, 3, 0xffff], 0, 65535) as u16),
        source_hardware_addr: g_mac(src),
        source_protocol_addr: g_v4(src),
        target_hardware_addr: g_mac(src),
        target_protocol_addr: g_v4(src),
    };
    ctx.nontrivial = true;
    drive!(src, ctx, "arp", &r;
        len(r) { r.buffer_len() }
        emit(r, buf) { r.emit(&mut ArpPacket::new_unchecked(&mut buf[..])); }
        parse(buf, lenient => p) {
            let pk = ArpPacket::new_unchecked(buf);
            let p = ArpRepr::parse(&pk).ok();
        }
        ok(_r) { true }
        diffkey(_r, _off, _mask, _all) { "arp:buffer-dependent".to_string() }
        rtkey(_r) { "arp:roundtrip".to_string() }
    );
    Ok(())
}

// ------------------------------------------------------------------ ipv4 / ipv6 / IpRepr

/// Proviso: payload_len <= 65515 - the total-length field is 16 bits and emit computes
/// `header_len as u16 + payload_len as u16` (ipv4.rs:593).
fn ipv4_ok(r: &Ipv4Repr) -> bool {
    r.payload_len <= 65515
}

fn ipv4(src: &mut Src, ctx: &mut Ctx) -> R {
    let payload_len = if src.chance(1, 16) { src.biased(0, 65515) as usize } else { g_len(src, 1500) };
    let r = Ipv4Repr {
        src_addr: g_v4(src),
        dst_addr: g_v4(src),
        next_header: g_proto(src),
        payload_len,
        hop_limit: src.special(&[0, 1, 64, 255], 0, 255) as u8,
    };
    let (caps, tx) = g_caps(src);
    let via_ip = src.bool();
    ctx.nontrivial = payload_len > 0;
    if !tx {
        ctx.label("ipv4:checksum-offloaded");
    }
    if via_ip {
        ctx.label("ipv4:via-IpRepr");
        let ip = IpRepr::Ipv4(r);
        vensure!(ip.header_len() == 20 && ip.buffer_len() == 20 + payload_len, "ip:buffer_len", "IpRepr lengths {} {}", ip.header_len(), ip.buffer_len());
    }
    drive!(src, ctx, "ipv4", &r;
        len(r) { r.buffer_len() + r.payload_len }
        emit(r, buf) {
            if via_ip {
                IpRepr::Ipv4(*r).emit(&mut buf[..], &caps);
            } else {
                r.emit(&mut Ipv4Packet::new_unchecked(&mut buf[..]), &caps);
            }
            pat(&mut buf[20..]);
        }
        parse(buf, lenient => p) {
            let pk = Ipv4Packet::new_unchecked(buf);
            let c = lenient_caps(lenient, &caps);
            let p = Ipv4Repr::parse(&pk, &c).ok();
        }
        ok(r) { ipv4_ok(r) }
        diffkey(_r, _off, _mask, _all) { "ipv4:buffer-dependent".to_string() }
        rtkey(_r) { "ipv4:roundtrip".to_string() }
    );
    Ok(())
}

/// Proviso: payload_len <= 65535 (16-bit field, `payload_len as u16`, ipv6.rs:634).
fn ipv6_ok(r: &Ipv6Repr) -> bool {
    r.payload_len <= 65535
}

fn ipv6(src: &mut Src, ctx: &mut Ctx) -> R {
    let payload_len = if src.chance(1, 16) { src.biased(0, 65535) as usize } else { g_len(src, 1500) };
    let r = Ipv6Repr {
        src_addr: g_v6(src),
        dst_addr: g_v6(src),
        next_header: g_proto(src),
        payload_len,
        hop_limit: src.special(&[0, 1, 64, 255], 0, 255) as u8,
    };
    let via_ip = src.bool();
    ctx.nontrivial = payload_len > 0;
    if via_ip {
        ctx.label("ipv6:via-IpRepr");
        let ip = IpRepr::Ipv6(r);
        vensure!(ip.header_len() == 40 && ip.buffer_len() == 40 + payload_len, "ip:buffer_len", "IpRepr lengths {} {}", ip.header_len(), ip.buffer_len());
    }
    let caps = ChecksumCapabilities::default();
    drive!(src, ctx, "ipv6", &r;
        len(r) { r.buffer_len() + r.payload_len }
        emit(r, buf) {
            if via_ip {
                IpRepr::Ipv6(*r).emit(&mut buf[..], &caps);
            } else {
                r.emit(&mut Ipv6Packet::new_unchecked(&mut buf[..]));
            }
            pat(&mut buf[40..]);
        }
        parse(buf, lenient => p) {
            let pk = Ipv6Packet::new_unchecked(buf);
            let p = Ipv6Repr::parse(&pk).ok();
        }
        ok(r) { ipv6_ok(r) }
        diffkey(_r, _off, _mask, _all) { "ipv6:buffer-dependent".to_string() }
        rtkey(_r) { "ipv6:roundtrip".to_string() }
    );
    Ok(())
}

// ------------------------------------------------------------------ IPv6 extension headers

/// Ipv6ExtHeaderRepr::emit writes only next-header and length (ipv6ext_header.rs:153-156,
/// header_len() == 2); the `data` is emitted by the nested repr (iface/packet.rs:102-126), here
/// by the harness. Proviso: data.len() == length*8 + 6, the size the length octet announces
/// (field::PAYLOAD, ipv6ext_header.rs:19-22) - parse always returns exactly that much.
fn ipv6_ext_hdr(src: &mut Src, ctx: &mut Ctx) -> R {
    let length = match src.weighted(&[6, 2, 1]) {
        0 => src.draw(3) as u8,
        1 => src.draw(32) as u8,
        _ => src.biased(0, 255) as u8,
    };
    let data = g_data(src, length as usize * 8 + 6);
    let r = Ipv6ExtHeaderRepr { next_header: g_proto(src), length, data: &data };
    ctx.nontrivial = length > 0;
    drive!(src, ctx, "ipv6_ext_hdr", &r;
        len(r) { r.header_len() + r.data.len() }
        emit(r, buf) {
            r.emit(&mut Ipv6ExtHeader::new_unchecked(&mut buf[..]));
            buf[2..2 + r.data.len()].copy_from_slice(r.data);
        }
        parse(buf, lenient => p) {
            let h = Ipv6ExtHeader::new_unchecked(buf);
            let p = Ipv6ExtHeaderRepr::parse(&h).ok();
        }
        ok(r) { r.data.len() == r.length as usize * 8 + 6 }
        diffkey(_r, _off, _mask, _all) { "ipv6_ext_hdr:buffer-dependent".to_string() }
        rtkey(_r) { "ipv6_ext_hdr:roundtrip".to_string() }
    );
    Ok(())
}

fn g_ipv6_option<'a>(src: &mut Src, store: &'a [u8]) -> Ipv6OptionRepr<'a> {
    match src.weighted(&[2, 2, 2, 2]) {
        0 => Ipv6OptionRepr::Pad1,
        1 => Ipv6OptionRepr::PadN(if src.chance(1, 8) { src.u8() } else { src.draw(8) as u8 }),
        2 => Ipv6OptionRepr::RouterAlert(Ipv6OptionRouterAlert::from(src.special(&[0, 1, 2, 3, 0xffff], 0, 65535) as u16)),
        _ => {
            let mut t = src.special(&[0x63, 0x1e, 0x3e, 0x7e, 0xc2, 0xff, 2, 4, 6], 0, 255) as u8;
            if t == 0 || t == 1 || t == 5 {
                t = 0x1e;
            }
            let n = if src.chance(1, 8) { src.usize(0, store.len().min(255)) } else { src.usize(0, 12.min(store.len())) };
            Ipv6OptionRepr::Unknown { type_: Ipv6OptionType::from(t), length: n as u8, data: &store[..n] }
        }
    }
}

/// Provisos for one option: `Unknown.type_` is not Pad1/PadN/RouterAlert (parse dispatches
/// on the type octet, ipv6option.rs:292-318) and `data.len() == length` (emit copies
/// `data[..length]`, ipv6option.rs:366; parse returns exactly `length` octets).
fn ipv6_option_ok(o: &Ipv6OptionRepr) -> bool {
    match o {
        Ipv6OptionRepr::Pad1 | Ipv6OptionRepr::PadN(_) | Ipv6OptionRepr::RouterAlert(_) => true,
        Ipv6OptionRepr::Unknown { type_, length, data } => {
            !matches!(type_, Ipv6OptionType::Pad1 | Ipv6OptionType::PadN | Ipv6OptionType::RouterAlert) && data.len() == *length as usize
        }
        _ => false,
    }
}

fn ipv6_option(src: &mut Src, ctx: &mut Ctx) -> R {
    let seed = src.u64();
    let mut store = vec![0u8; 255];
    prng_fill(&mut store, seed);
    let r = g_ipv6_option(src, &store);
    ctx.nontrivial = !matches!(r, Ipv6OptionRepr::Pad1);
    match r {
        Ipv6OptionRepr::Pad1 => ctx.label("ipv6_option:pad1"),
        Ipv6OptionRepr::PadN(_) => ctx.label("ipv6_option:padn"),
        Ipv6OptionRepr::RouterAlert(_) => ctx.label("ipv6_option:router-alert"),
        _ => ctx.label("ipv6_option:unknown"),
    }
    drive!(src, ctx, "ipv6_option", &r;
        len(r) { r.buffer_len() }
        emit(r, buf) { r.emit(&mut Ipv6Option::new_unchecked(&mut buf[..])); }
        parse(buf, lenient => p) {
            let o = Ipv6Option::new_unchecked(buf);
            let p = Ipv6OptionRepr::parse(&o).ok();
        }
        ok(r) { ipv6_option_ok(r) }
        diffkey(_r, _off, _mask, _all) { "ipv6_option:buffer-dependent".to_string() }
        rtkey(_r) { "ipv6_option:roundtrip".to_string() }
    );
    Ok(())
}

/// Provisos: 1..=IPV6_HBH_MAX_OPTIONS options (the Vec capacity, ipv6hbh.rs:65; parse stops
/// after that many, :83-86; an empty options area is rejected by check_len, :33-36) and each
/// option inside its own proviso.
fn ipv6_hbh(src: &mut Src, ctx: &mut Ctx) -> R {
    let seed = src.u64();
    let mut store = vec![0u8; 255];
    prng_fill(&mut store, seed);
    let mut r = Ipv6HopByHopRepr::mldv2_router_alert();
    r.options.clear();
    let n = src.usize(1, smoltcp::config::IPV6_HBH_MAX_OPTIONS);
    for _ in 0..n {
        let o = g_ipv6_option(src, &store);
        r.options.push(o).unwrap();
    }
    ctx.nontrivial = n > 1;
    if n == smoltcp::config::IPV6_HBH_MAX_OPTIONS {
        ctx.label("ipv6_hbh:max-options");
    }
    drive!(src, ctx, "ipv6_hbh", &r;
        len(r) { r.buffer_len() }
        emit(r, buf) { r.emit(&mut Ipv6HopByHopHeader::new_unchecked(&mut buf[..])); }
        parse(buf, lenient => p) {
            let h = Ipv6HopByHopHeader::new_unchecked(buf);
            let p = Ipv6HopByHopRepr::parse(&h).ok();
        }
        ok(r) { !r.options.is_empty() && r.options.iter().all(ipv6_option_ok) }
        diffkey(_r, _off, _mask, _all) { "ipv6_hbh:buffer-dependent".to_string() }
        rtkey(_r) { "ipv6_hbh:roundtrip".to_string() }
    );
    Ok(())
}

/// Proviso: frag_offset <= 0x1fff - 13-bit field in 8-octet units, `value & 0x1fff`
/// (ipv6fragment.rs:105-110).
fn ipv6_frag(src: &mut Src, ctx: &mut Ctx) -> R {
    let r = Ipv6FragmentRepr {
        frag_offset: src.biased(0, 0x1fff) as u16,
        more_frags: src.bool(),
        ident: src.special(&[0, 1, 0xffff_ffff, 0x8000_0000], 0, u32::MAX as u64) as u32,
    };
    ctx.nontrivial = r.frag_offset != 0 || r.more_frags;
    drive!(src, ctx, "ipv6_frag", &r;
        len(r) { r.buffer_len() }
        emit(r, buf) { r.emit(&mut Ipv6FragmentHeader::new_unchecked(&mut buf[..])); }
        parse(buf, lenient => p) {
            let h = Ipv6FragmentHeader::new_unchecked(buf);
            let p = Ipv6FragmentRepr::parse(&h).ok();
        }
        ok(r) { r.frag_offset <= 0x1fff }
        diffkey(_r, _off, _mask, _all) { "ipv6_frag:buffer-dependent".to_string() }
        rtkey(_r) { "ipv6_frag:roundtrip".to_string() }
    );
    Ok(())
}

/// Proviso: Rpl cmpr_i, cmpr_e and pad are 4-bit fields (`value << 4`, `value & 0xF`,
/// ipv6routing.rs:299-322).
fn ipv6_routing_ok(r: &Ipv6RoutingRepr) -> bool {
    match r {
        Ipv6RoutingRepr::Type2 { .. } => true,
        Ipv6RoutingRepr::Rpl { cmpr_i, cmpr_e, pad, .. } => *cmpr_i <= 15 && *cmpr_e <= 15 && *pad <= 15,
        _ => false,
    }
}

fn ipv6_routing(src: &mut Src, ctx: &mut Ctx) -> R {
    let n = g_len(src, 96);
    let addrs = g_data(src, n);
    let r = if src.bool() {
        ctx.label("ipv6_routing:rpl");
        Ipv6RoutingRepr::Rpl {
            segments_left: src.special(&[0, 1, 255], 0, 255) as u8,
            cmpr_i: src.draw(15) as u8,
            cmpr_e: src.draw(15) as u8,
            pad: src.draw(15) as u8,
            addresses: &addrs,
        }
    } else {
        ctx.label("ipv6_routing:type2");
        Ipv6RoutingRepr::Type2 { segments_left: src.special(&[0, 1, 255], 0, 255) as u8, home_address: g_v6(src) }
    };
    ctx.nontrivial = true;
    drive!(src, ctx, "ipv6_routing", &r;
        len(r) { r.buffer_len() }
        emit(r, buf) { r.emit(&mut Ipv6RoutingHeader::new_unchecked(&mut buf[..])); }
        parse(buf, lenient => p) {
            let h = Ipv6RoutingHeader::new_unchecked(buf);
            let p = Ipv6RoutingRepr::parse(&h).ok();
        }
        ok(r) { ipv6_routing_ok(r) }
        diffkey(_r, _off, _mask, _all) { "ipv6_routing:buffer-dependent".to_string() }
        rtkey(_r) { "ipv6_routing:roundtrip".to_string() }
    );
    Ok(())
}

// ------------------------------------------------------------------ icmpv4

/// Provisos for the error messages: `header.payload_len == data.len()` (emit copies data
/// behind the inner header with `copy_from_slice`, icmpv4.rs:527-530, parse sets
/// payload_len = payload.len(), :438) and `data.len() >= 8` (parse rejects less, :428).
fn icmpv4_ok(r: &Icmpv4Repr) -> bool {
    match r {
        Icmpv4Repr::EchoRequest { .. } | Icmpv4Repr::EchoReply { .. } => true,
        Icmpv4Repr::DstUnreachable { header, data, .. } | Icmpv4Repr::TimeExceeded { header, data, .. } => {
            header.payload_len == data.len() && data.len() >= 8 && ipv4_ok(header)
        }
        _ => false,
    }
}

fn icmpv4_diffkey(r: &Icmpv4Repr, off: usize) -> String {
    let is_err = matches!(r, Icmpv4Repr::DstUnreachable { .. } | Icmpv4Repr::TimeExceeded { .. });
    if (2..4).contains(&off) {
        "@checksum".to_string()
    } else if is_err && (4..8).contains(&off) {
        "icmpv4:buffer-dependent:unused-field".to_string()
    } else {
        "icmpv4:buffer-dependent:other".to_string()
    }
}

fn icmpv4(src: &mut Src, ctx: &mut Ctx) -> R {
    let kind = src.draw(3);
    let n = if kind < 2 { g_len(src, 1500) } else { 8 + g_len(src, 568) };
    let data = g_data(src, n);
    let inner = Ipv4Repr { src_addr: g_v4(src), dst_addr: g_v4(src), next_header: g_proto(src), payload_len: n, hop_limit: src.u8() };
    let r = match kind {
        0 => Icmpv4Repr::EchoRequest { ident: src.u16(), seq_no: src.u16(), data: &data },
        1 => Icmpv4Repr::EchoReply { ident: src.u16(), seq_no: src.u16(), data: &data },
        2 => Icmpv4Repr::DstUnreachable { reason: Icmpv4DstUnreachable::from(src.special(&[0, 1, 3, 4, 15, 16, 255], 0, 255) as u8), header: inner, data: &data },
        _ => Icmpv4Repr::TimeExceeded { reason: Icmpv4TimeExceeded::from(src.special(&[0, 1, 2, 255], 0, 255) as u8), header: inner, data: &data },
    };
    let (caps, _tx) = g_caps(src);
    ctx.nontrivial = n > 0;
    ctx.label(["icmpv4:echo-request", "icmpv4:echo-reply", "icmpv4:dst-unreachable", "icmpv4:time-exceeded"][kind as usize]);
    drive!(src, ctx, "icmpv4", &r;
        len(r) { r.buffer_len() }
        emit(r, buf) { r.emit(&mut Icmpv4Packet::new_unchecked(&mut buf[..]), &caps); }
        parse(buf, lenient => p) {
            let pk = Icmpv4Packet::new_unchecked(buf);
            let c = lenient_caps(lenient, &caps);
            let p = Icmpv4Repr::parse(&pk, &c).ok();
        }
        ok(r) { icmpv4_ok(r) }
        diffkey(r, off, _mask, _all) { icmpv4_diffkey(r, off) }
        rtkey(_r) { "icmpv4:roundtrip".to_string() }
    );
    Ok(())
}

// ------------------------------------------------------------------ icmpv6 + ndisc + mld

/// 1240 - 8 - 40: emit cuts the quoted datagram so that the error message fits the IPv6
/// minimum MTU (MAX_ERROR_PACKET_LEN, icmpv6.rs:16 and :750-754).
const ICMPV6_MAX_ERR_DATA: usize = 1280 - 40 - 8 - 40;

fn dur_ms_ok(d: Duration, max_ms: u64) -> bool {
    d.total_micros() % 1000 == 0 && d.total_millis() <= max_ms
}
fn dur_s_ok(d: Duration, max_s: u64) -> bool {
    d.total_micros() % 1_000_000 == 0 && d.secs() <= max_s
}

/// link-layer address option proviso: only 6 and 8 octet addresses are representable - the
/// option length is in units of 8 octets, parse takes min(8, len*8-2) octets
/// (ndiscoption.rs:220-224) and RawHardwareAddress::parse accepts exactly 6 (Ethernet) or 8
/// (IEEE 802.15.4) (wire/mod.rs:517-540).
fn lladdr_ok(a: &Option<RawHardwareAddress>) -> bool {
    match a {
        None => true,
        Some(a) => a.len() == 6 || a.len() == 8,
    }
}

/// redirected-header proviso: `header.payload_len == data.len()` (emit does
/// `ip_packet.payload_mut().copy_from_slice(data)`, ndiscoption.rs:571-574; parse cuts data to
/// payload_len, :488) and the option length fits its octet ((8+40+len)/8 <= 255, :570).
fn redirected_ok(h: &NdiscRedirectedHeader) -> bool {
    h.header.payload_len == h.data.len() && (8 + 40 + h.data.len()).div_ceil(8) <= 255
}

fn prefix_info_ok(pi: &NdiscPrefixInformation) -> bool {
    // lifetimes are whole seconds in 32 bits (`time.secs() as u32`, ndiscoption.rs:336-346)
    dur_s_ok(pi.valid_lifetime, u32::MAX as u64) && dur_s_ok(pi.preferred_lifetime, u32::MAX as u64)
}

/// NdiscRepr provisos: lladdr/redirected/prefix as above; RouterAdvert router_lifetime is
/// whole seconds in 16 bits, reachable/retrans whole milliseconds in 32 bits
/// (ndisc.rs:131-148).
fn ndisc_ok(r: &NdiscRepr) -> bool {
    match r {
        NdiscRepr::RouterSolicit { lladdr } => lladdr_ok(lladdr),
        NdiscRepr::RouterAdvert { router_lifetime, reachable_time, retrans_time, lladdr, prefix_info, .. } => {
            lladdr_ok(lladdr)
                && dur_s_ok(*router_lifetime, 65535)
                && dur_ms_ok(*reachable_time, u32::MAX as u64)
                && dur_ms_ok(*retrans_time, u32::MAX as u64)
                && prefix_info.as_ref().map(prefix_info_ok).unwrap_or(true)
        }
        NdiscRepr::NeighborSolicit { lladdr, .. } | NdiscRepr::NeighborAdvert { lladdr, .. } => lladdr_ok(lladdr),
        NdiscRepr::Redirect { lladdr, redirected_hdr, .. } => lladdr_ok(lladdr) && redirected_hdr.as_ref().map(redirected_ok).unwrap_or(true),
    }
}

/// MldRepr provisos: qrv is a 3-bit field (`assert!(value < 8)`, mld.rs:134);
/// ReportRecordReprs is emit-only (parse always yields Report, mld.rs:386-389) and is checked
/// by `mld_records` instead.
fn mld_ok(r: &MldRepr) -> bool {
    match r {
        MldRepr::Query { qrv, .. } => *qrv < 8,
        MldRepr::Report { .. } => true,
        MldRepr::ReportRecordReprs(_) => false,
    }
}

/// Icmpv6Repr provisos: error data fits the minimum-MTU budget (longer data is cut by design)
/// and the inner header's payload_len fits 16 bits; unlike ICMPv4 the inner payload_len is
/// taken from the wire (icmpv6.rs:645), so it need not equal data.len().
fn icmpv6_ok(r: &Icmpv6Repr) -> bool {
    match r {
        Icmpv6Repr::DstUnreachable { header, data, .. }
        | Icmpv6Repr::PktTooBig { header, data, .. }
        | Icmpv6Repr::TimeExceeded { header, data, .. }
        | Icmpv6Repr::ParamProblem { header, data, .. } => data.len() <= ICMPV6_MAX_ERR_DATA && ipv6_ok(header),
        Icmpv6Repr::EchoRequest { .. } | Icmpv6Repr::EchoReply { .. } => true,
        Icmpv6Repr::Ndisc(n) => ndisc_ok(n),
        Icmpv6Repr::Mld(m) => mld_ok(m),
        _ => false,
    }
}

const K_LLADDR_PAD: &str = "ndisc:buffer-dependent:lladdr-option-padding";
const K_REDIR_PAD: &str = "ndisc:buffer-dependent:redirected-header-padding";
const K_MTU_RESERVED: &str = "ndisc:buffer-dependent:mtu-option-reserved";

/// absolute offsets (within the ICMPv6 message) of the padding of the link-layer address
/// option and of the redirected header option
/// and of the reserved field of the MTU option
fn ndisc_pad_ranges(r: &NdiscRepr) -> (std::ops::Range<usize>, std::ops::Range<usize>, std::ops::Range<usize>) {
    let mut has_mtu = false;
    let (base, ll, redir) = match r {
        NdiscRepr::RouterSolicit { lladdr } => (8, lladdr, None),
        NdiscRepr::RouterAdvert { lladdr, mtu, .. } => {
            has_mtu = mtu.is_some();
            (16, lladdr, None)
        }
        NdiscRepr::NeighborSolicit { lladdr, .. } | NdiscRepr::NeighborAdvert { lladdr, .. } => (24, lladdr, None),
        NdiscRepr::Redirect { lladdr, redirected_hdr, .. } => (40, lladdr, redirected_hdr.as_ref()),
    };
    let mut off = base;
    let mut llr = 0..0;
    if let Some(a) = ll {
        let ol = (2 + a.len()).div_ceil(8) * 8;
        llr = off + 2 + a.len()..off + ol;
        off += ol;
    }
    let mut rr = 0..0;
    if let Some(h) = redir {
        let c = 8 + 40 + h.data.len();
        rr = off + c..off + c.div_ceil(8) * 8;
    }
    let mr = if has_mtu { off + 2..off + 4 } else { 0..0 };
    (llr, rr, mr)
}

fn icmpv6_diffkey(name: &str, r: &Icmpv6Repr, off: usize) -> String {
    if (2..4).contains(&off) {
        return "@checksum".to_string();
    }
    match r {
        Icmpv6Repr::DstUnreachable { .. } | Icmpv6Repr::TimeExceeded { .. } if (4..8).contains(&off) => {
            return "icmpv6:buffer-dependent:unused-field".to_string();
        }
        Icmpv6Repr::Ndisc(n) => {
            let (llr, rr, mr) = ndisc_pad_ranges(n);
            if llr.contains(&off) {
                return K_LLADDR_PAD.to_string();
            }
            if mr.contains(&off) {
                return K_MTU_RESERVED.to_string();
            }
            if rr.contains(&off) {
                return K_REDIR_PAD.to_string();
            }
        }
        _ => {}
    }
    format!("{}:buffer-dependent:other", name)
}

/// shared tail of the three ICMPv6-carried parts
fn drive_icmpv6(src: &mut Src, ctx: &mut Ctx, name: &'static str, r: &Icmpv6Repr) -> R {
    let sa = g_v6(src);
    let da = g_v6(src);
    let (caps, tx) = g_caps(src);
    if !tx {
        ctx.label("icmpv6:checksum-offloaded");
    }
    drive!(src, ctx, "icmpv6", r;
        len(r) { r.buffer_len() }
        emit(r, buf) { r.emit(&sa, &da, &mut Icmpv6Packet::new_unchecked(&mut buf[..]), &caps); }
        parse(buf, lenient => p) {
            let pk = Icmpv6Packet::new_unchecked(buf);
            let c = lenient_caps(lenient, &caps);
            let p = Icmpv6Repr::parse(&sa, &da, &pk, &c).ok();
        }
        ok(r) { icmpv6_ok(r) }
        diffkey(r, off, _mask, _all) { icmpv6_diffkey(name, r, off) }
        rtkey(_r) { format!("{}:roundtrip", name) }
    );
    Ok(())
}

fn icmpv6(src: &mut Src, ctx: &mut Ctx) -> R {
    let kind = src.draw(5);
    let n = if kind >= 4 {
        g_len(src, 1500)
    } else if src.chance(1, 12) {
        ctx.label("icmpv6:error-data-over-budget");
        ICMPV6_MAX_ERR_DATA + 1 + src.usize(0, 300)
    } else {
        g_len(src, ICMPV6_MAX_ERR_DATA)
    };
    let data = g_data(src, n);
    // the quoted datagram may have been longer than what is quoted
    let inner_len = if src.bool() { n } else { (n + src.biased(0, 65535) as usize).min(65535) };
    let inner = Ipv6Repr { src_addr: g_v6(src), dst_addr: g_v6(src), next_header: g_proto(src), payload_len: inner_len, hop_limit: src.u8() };
    let r = match kind {
        0 => Icmpv6Repr::DstUnreachable { reason: Icmpv6DstUnreachable::from(src.special(&[0, 1, 4, 6, 7, 255], 0, 255) as u8), header: inner, data: &data },
        1 => Icmpv6Repr::PktTooBig { mtu: src.special(&[0, 1280, 1500, 0xffff_ffff], 0, u32::MAX as u64) as u32, header: inner, data: &data },
        2 => Icmpv6Repr::TimeExceeded { reason: Icmpv6TimeExceeded::from(src.special(&[0, 1, 2, 255], 0, 255) as u8), header: inner, data: &data },
        3 => Icmpv6Repr::ParamProblem {
            reason: Icmpv6ParamProblem::from(src.special(&[0, 1, 2, 3, 255], 0, 255) as u8),
            pointer: src.special(&[0, 40, 0xffff_ffff], 0, u32::MAX as u64) as u32,
            header: inner,
            data: &data,
        },
        4 => Icmpv6Repr::EchoRequest { ident: src.u16(), seq_no: src.u16(), data: &data },
        _ => Icmpv6Repr::EchoReply { ident: src.u16(), seq_no: src.u16(), data: &data },
    };
    ctx.nontrivial = n > 0;
    ctx.label(["icmpv6:dst-unreachable", "icmpv6:pkt-too-big", "icmpv6:time-exceeded", "icmpv6:param-problem", "icmpv6:echo-request", "icmpv6:echo-reply"][kind as usize]);
    drive_icmpv6(src, ctx, "icmpv6", &r)
}

fn g_lladdr(src: &mut Src, ctx: &mut Ctx) -> Option<RawHardwareAddress> {
    match src.weighted(&[3, 4, 4, 1]) {
        0 => None,
        1 => Some(RawHardwareAddress::from_bytes(&arr::<6>(src))),
        2 => Some(RawHardwareAddress::from_bytes(&arr::<8>(src))),
        _ => {
            // not representable (see lladdr_ok): only oracles (2) and (3) apply
            ctx.label("ndisc:lladdr-odd-length");
            let n = *src.pick(&[0usize, 1, 2, 3, 4, 5, 7]);
            Some(RawHardwareAddress::from_bytes(&arr::<8>(src)[..n]))
        }
    }
}

fn g_prefix_info(src: &mut Src) -> NdiscPrefixInformation {
    NdiscPrefixInformation {
        prefix_len: src.special(&[0, 64, 128, 255], 0, 255) as u8,
        flags: NdiscPrefixInfoFlags::from_bits_truncate(src.u8()),
        valid_lifetime: Duration::from_secs(src.special(&[0, 1, 0xffff_ffff], 0, u32::MAX as u64)),
        preferred_lifetime: Duration::from_secs(src.special(&[0, 1, 0xffff_ffff], 0, u32::MAX as u64)),
        prefix: g_v6(src),
    }
}

fn ndisc(src: &mut Src, ctx: &mut Ctx) -> R {
    let kind = src.draw(4);
    let lladdr = g_lladdr(src, ctx);
    let n = g_len(src, 200);
    let data = g_data(src, n);
    let r = match kind {
        0 => NdiscRepr::RouterSolicit { lladdr },
        1 => NdiscRepr::RouterAdvert {
            hop_limit: src.u8(),
            flags: NdiscRouterFlags::from_bits_truncate(src.u8()),
            router_lifetime: Duration::from_secs(src.special(&[0, 1, 1800, 65535], 0, 65535)),
            reachable_time: Duration::from_millis(src.special(&[0, 1, 0xffff_ffff], 0, u32::MAX as u64)),
            retrans_time: Duration::from_millis(src.special(&[0, 1, 0xffff_ffff], 0, u32::MAX as u64)),
            lladdr,
            mtu: if src.bool() { Some(src.special(&[0, 1280, 1500, 0xffff_ffff], 0, u32::MAX as u64) as u32) } else { None },
            prefix_info: if src.bool() { Some(g_prefix_info(src)) } else { None },
        },
        2 => NdiscRepr::NeighborSolicit { target_addr: g_v6(src), lladdr },
        3 => NdiscRepr::NeighborAdvert { flags: NdiscNeighborFlags::from_bits_truncate(src.u8()), target_addr: g_v6(src), lladdr },
        _ => NdiscRepr::Redirect {
            target_addr: g_v6(src),
            dest_addr: g_v6(src),
            lladdr,
            redirected_hdr: if src.chance(2, 3) {
                Some(NdiscRedirectedHeader {
                    header: Ipv6Repr { src_addr: g_v6(src), dst_addr: g_v6(src), next_header: g_proto(src), payload_len: n, hop_limit: src.u8() },
                    data: &data,
                })
            } else {
                None
            },
        },
    };
    ctx.label(["ndisc:router-solicit", "ndisc:router-advert", "ndisc:neighbor-solicit", "ndisc:neighbor-advert", "ndisc:redirect"][kind as usize]);
    ctx.nontrivial = match &r {
        NdiscRepr::RouterAdvert { mtu, prefix_info, .. } => lladdr.is_some() || mtu.is_some() || prefix_info.is_some(),
        NdiscRepr::Redirect { redirected_hdr, .. } => lladdr.is_some() || redirected_hdr.is_some(),
        _ => lladdr.is_some(),
    };
    if let Some(a) = lladdr {
        if a.len() == 8 {
            ctx.label("ndisc:lladdr-8");
        } else if a.len() == 6 {
            ctx.label("ndisc:lladdr-6");
        }
    }
    drive_icmpv6(src, ctx, "ndisc", &Icmpv6Repr::Ndisc(r))
}

/// standalone NdiscOptionRepr. Extra provisos for Unknown: type_ is not one of the five known
/// types (emit writes Type::Unknown(id), parse dispatches on the octet, ndiscoption.rs:446-510),
/// length >= 1 (0 is rejected, :161) and data.len() == length*8 - 2 (`copy_from_slice`, :588).
fn ndisc_option_ok(r: &NdiscOptionRepr) -> bool {
    match r {
        NdiscOptionRepr::SourceLinkLayerAddr(a) | NdiscOptionRepr::TargetLinkLayerAddr(a) => lladdr_ok(&Some(*a)),
        NdiscOptionRepr::PrefixInformation(pi) => prefix_info_ok(pi),
        NdiscOptionRepr::RedirectedHeader(h) => redirected_ok(h),
        NdiscOptionRepr::Mtu(_) => true,
        NdiscOptionRepr::Unknown { type_, length, data } => !(1..=5).contains(type_) && *length >= 1 && data.len() == *length as usize * 8 - 2,
    }
}

fn ndisc_option(src: &mut Src, ctx: &mut Ctx) -> R {
    let kind = src.draw(5);
    let n = g_len(src, 200);
    let data = g_data(src, n);
    let ulen = 1 + if src.chance(1, 8) { src.usize(0, 254) } else { src.usize(0, 3) };
    let udata = g_data(src, ulen * 8 - 2);
    let r = match kind {
        0 | 1 => {
            let a = match g_lladdr(src, ctx) {
                Some(a) => a,
                None => RawHardwareAddress::from_bytes(&arr::<6>(src)),
            };
            if kind == 0 {
                NdiscOptionRepr::SourceLinkLayerAddr(a)
            } else {
                NdiscOptionRepr::TargetLinkLayerAddr(a)
            }
        }
        2 => NdiscOptionRepr::PrefixInformation(g_prefix_info(src)),
        3 => NdiscOptionRepr::RedirectedHeader(NdiscRedirectedHeader {
            header: Ipv6Repr { src_addr: g_v6(src), dst_addr: g_v6(src), next_header: g_proto(src), payload_len: n, hop_limit: src.u8() },
            data: &data,
        }),
        4 => NdiscOptionRepr::Mtu(src.special(&[0, 1280, 0xffff_ffff], 0, u32::MAX as u64) as u32),
        _ => {
            let mut t = src.special(&[0, 6, 14, 24, 25, 31, 255], 0, 255) as u8;
            if (1..=5).contains(&t) {
                t = 6;
            }
            NdiscOptionRepr::Unknown { type_: t, length: ulen as u8, data: &udata }
        }
    };
    ctx.label(["ndisc_option:sllao", "ndisc_option:tllao", "ndisc_option:prefix", "ndisc_option:redirected", "ndisc_option:mtu", "ndisc_option:unknown"][kind as usize]);
    ctx.nontrivial = true;
    drive!(src, ctx, "ndisc_option", &r;
        len(r) { r.buffer_len() }
        emit(r, buf) { r.emit(&mut NdiscOption::new_unchecked(&mut buf[..])); }
        parse(buf, lenient => p) {
            let o = NdiscOption::new_unchecked(buf);
            let p = NdiscOptionRepr::parse(&o).ok();
        }
        ok(r) { ndisc_option_ok(r) }
        diffkey(r, off, _mask, _all) {
            match r {
                NdiscOptionRepr::SourceLinkLayerAddr(a) | NdiscOptionRepr::TargetLinkLayerAddr(a) if off >= 2 + a.len() => K_LLADDR_PAD.to_string(),
                NdiscOptionRepr::RedirectedHeader(h) if off >= 8 + 40 + h.data.len() => K_REDIR_PAD.to_string(),
                NdiscOptionRepr::Mtu(_) if (2..4).contains(&off) => K_MTU_RESERVED.to_string(),
                _ => "ndisc_option:buffer-dependent:other".to_string(),
            }
        }
        rtkey(_r) { "ndisc_option:roundtrip".to_string() }
    );
    Ok(())
}

fn mld(src: &mut Src, ctx: &mut Ctx) -> R {
    let n = if src.bool() { 16 * src.usize(0, 8) } else { g_len(src, 300) };
    let data = g_data(src, n);
    let r = if src.bool() {
        ctx.label("mld:query");
        MldRepr::Query {
            max_resp_code: src.special(&[0, 1, 0x7fff, 0x8000, 0xffff], 0, 65535) as u16,
            mcast_addr: g_v6(src),
            s_flag: src.bool(),
            qrv: src.draw(7) as u8,
            qqic: src.u8(),
            num_srcs: src.special(&[0, 1, 0xffff], 0, 65535) as u16,
            data: &data,
        }
    } else {
        ctx.label("mld:report");
        MldRepr::Report { nr_mcast_addr_rcrds: src.special(&[0, 1, 0xffff], 0, 65535) as u16, data: &data }
    };
    ctx.nontrivial = n > 0;
    drive_icmpv6(src, ctx, "mld", &Icmpv6Repr::Mld(r))
}

fn g_mld_record<'a>(src: &mut Src, payload: &'a [u8]) -> MldAddressRecordRepr<'a> {
    MldAddressRecordRepr {
        record_type: MldRecordType::from(src.special(&[1, 2, 3, 4, 5, 6, 0, 7, 255], 0, 255) as u8),
        aux_data_len: src.special(&[0, 1, 255], 0, 255) as u8,
        num_srcs: src.special(&[0, 1, 0xffff], 0, 65535) as u16,
        mcast_addr: g_v6_mcast(src),
        payload,
    }
}

/// MldAddressRecordRepr: emit writes the 20-octet record header only (buffer_len() "not
/// including any payload data", mld.rs:334-346), parse returns everything behind it as payload
/// (:330), so the harness copies the payload. Proviso: mcast_addr is multicast
/// (`assert!(addr.is_multicast())`, mld.rs:282).
fn mld_record(src: &mut Src, ctx: &mut Ctx) -> R {
    let n = if src.bool() { 16 * src.usize(0, 4) } else { g_len(src, 100) };
    let data = g_data(src, n);
    let r = g_mld_record(src, &data);
    ctx.nontrivial = n > 0;
    drive!(src, ctx, "mld_record", &r;
        len(r) { r.buffer_len() + r.payload.len() }
        emit(r, buf) {
            r.emit(&mut MldAddressRecord::new_unchecked(&mut buf[..]));
            buf[20..20 + r.payload.len()].copy_from_slice(r.payload);
        }
        parse(buf, lenient => p) {
            let p = match MldAddressRecord::new_checked(buf) {
                Ok(rec) => MldAddressRecordRepr::parse(&rec).ok(),
                Err(_) => None,
            };
        }
        ok(r) { r.mcast_addr.is_multicast() }
        diffkey(_r, _off, _mask, _all) { "mld_record:buffer-dependent".to_string() }
        rtkey(_r) { "mld_record:roundtrip".to_string() }
    );
    Ok(())
}

/// MldRepr::ReportRecordReprs is emit-only. Its emitter writes 8 + 20*n octets while
/// `buffer_len()` returns 8 (mld.rs:399 vs :443-452); the in-tree caller adds the record lengths
/// itself (iface/interface/ipv6.rs:591-607). Checked here: (3) on a buffer of
/// `buffer_len() + sum(record.buffer_len())`, (2), and that the bytes parse to a Report whose
/// records decode to the given ones; separately that `buffer_len()` alone is enough (it is
/// not - reported under its own key).
fn mld_records(src: &mut Src, ctx: &mut Ctx) -> R {
    let n = src.usize(0, 4);
    let mut recs = vec![];
    for _ in 0..n {
        recs.push(g_mld_record(src, &[]));
    }
    let r = Icmpv6Repr::Mld(MldRepr::ReportRecordReprs(&recs));
    let sa = g_v6(src);
    let da = g_v6(src);
    let (caps, _tx) = g_caps(src);
    ctx.nontrivial = n > 0;
    ctx.note(|| format!("mld_records {:?}", r));
    let mut fails = vec![];
    let declared = r.buffer_len();
    if n > 0 {
        if let Err(p) = emit1(declared, &mut |b: &mut [u8]| r.emit(&sa, &da, &mut Icmpv6Packet::new_unchecked(&mut b[..]), &caps)) {
            fails.push(Fail::new(
                "mld:report-records:buffer_len-omits-records",
                format!(
                    "MldRepr::ReportRecordReprs with {} records: buffer_len() = {} but emit panics on a buffer of that length at {}:{}: {}",
                    n, declared, p.file, p.line, p.msg
                ),
            ));
        }
    }
    // buffer_len() now covers the records (fix 1c6e07e); before that fix the in-tree caller
    // added the record lengths itself
    let len = declared;
    let gseed = src.u64();
    let (bytes, diffs) = match emit3(len, gseed, &mut |b: &mut [u8]| r.emit(&sa, &da, &mut Icmpv6Packet::new_unchecked(&mut b[..]), &caps)) {
        Ok(v) => v,
        Err(p) => return Err(panic_fail("mld_records", &p, format!("{:?}", r), len)),
    };
    ctx.digest.str("mld_records");
    ctx.digest.bytes(&bytes);
    if !diffs.is_empty() {
        let keys = diffs
            .iter()
            .map(|&(o, m)| (if (2..4).contains(&o) { "@checksum".to_string() } else { "mld_records:buffer-dependent".to_string() }, format!("byte {} mask {:#04x}", o, m)))
            .collect();
        fails.extend(diff_fails("mld_records", keys, &format!("{:?}", r)));
    }
    let pk = Icmpv6Packet::new_unchecked(&bytes[..]);
    let parsed = Icmpv6Repr::parse(&sa, &da, &pk, &caps);
    let good = match &parsed {
        Ok(Icmpv6Repr::Mld(MldRepr::Report { nr_mcast_addr_rcrds, data })) => {
            *nr_mcast_addr_rcrds as usize == n
                && data.len() == 20 * n
                && recs.iter().enumerate().all(|(i, rec)| match MldAddressRecord::new_checked(&data[20 * i..20 * (i + 1)]) {
                    Ok(w) => MldAddressRecordRepr::parse(&w).map(|q| q == *rec).unwrap_or(false),
                    Err(_) => false,
                })
        }
        _ => false,
    };
    if !good {
        fails.push(Fail::new("mld_records:roundtrip", format!("records {:?} emitted as {} parsed back {:?}", recs, hex(&bytes), parsed)));
    }
    finish(src, ctx, fails)
}

// ------------------------------------------------------------------ igmp

/// RFC 3376 4.1.1 Max Resp Code -> tenths of a second (independent of igmp.rs)
fn igmp_code_to_ds(c: u8) -> u64 {
    if c < 128 {
        c as u64
    } else {
        let mant = (c & 0x0f) as u64;
        let exp = ((c >> 4) & 0x07) as u64;
        (mant | 0x10) << (exp + 3)
    }
}

/// Provisos: group address unspecified or multicast (parse rejects others, igmp.rs:211-214);
/// a Version1 query has max_resp_time 0 and a Version2 query a non-zero max_resp_time that the
/// 8-bit code can represent (code 0 *means* IGMPv1 on the wire, igmp.rs:219-225).
fn igmp_ok(r: &IgmpRepr) -> bool {
    let g_ok = |a: &Ipv4Address| a.is_unspecified() || a.is_multicast();
    match r {
        IgmpRepr::MembershipQuery { max_resp_time, group_addr, version } => {
            g_ok(group_addr)
                && match version {
                    IgmpVersion::Version1 => max_resp_time.total_micros() == 0,
                    IgmpVersion::Version2 => (1..=255u8).any(|c| Duration::from_millis(igmp_code_to_ds(c) * 100) == *max_resp_time),
                }
        }
        IgmpRepr::MembershipReport { group_addr, .. } | IgmpRepr::LeaveGroup { group_addr } => g_ok(group_addr),
    }
}

fn drive_igmp(src: &mut Src, ctx: &mut Ctx, r: &IgmpRepr) -> R {
    drive!(src, ctx, "igmp", r;
        len(r) { r.buffer_len() }
        emit(r, buf) { r.emit(&mut IgmpPacket::new_unchecked(&mut buf[..])); }
        parse(buf, lenient => p) {
            let pk = IgmpPacket::new_unchecked(buf);
            let p = IgmpRepr::parse(&pk).ok();
        }
        ok(r) { igmp_ok(r) }
        diffkey(r, off, _mask, _all) {
            if (2..4).contains(&off) {
                "@checksum".to_string()
            } else if off == 1 && matches!(r, IgmpRepr::LeaveGroup { .. }) {
                "igmp:buffer-dependent:leave-max-resp-byte".to_string()
            } else {
                "igmp:buffer-dependent:other".to_string()
            }
        }
        rtkey(_r) { "igmp:roundtrip".to_string() }
    );
    Ok(())
}

fn igmp(src: &mut Src, ctx: &mut Ctx) -> R {
    let group = if src.chance(1, 4) { Ipv4Address::from([0, 0, 0, 0]) } else { Ipv4Address::from([224 + src.draw(15) as u8, src.u8(), src.u8(), src.u8()]) };
    let r = match src.draw(3) {
        0 => {
            ctx.label("igmp:query-v2");
            let code = src.biased(1, 255) as u8;
            IgmpRepr::MembershipQuery { max_resp_time: Duration::from_millis(igmp_code_to_ds(code) * 100), group_addr: group, version: IgmpVersion::Version2 }
        }
        1 => {
            ctx.label("igmp:query-v1");
            IgmpRepr::MembershipQuery { max_resp_time: Duration::from_millis(0), group_addr: group, version: IgmpVersion::Version1 }
        }
        2 => {
            ctx.label("igmp:report");
            IgmpRepr::MembershipReport { group_addr: group, version: if src.bool() { IgmpVersion::Version2 } else { IgmpVersion::Version1 } }
        }
        _ => {
            ctx.label("igmp:leave");
            IgmpRepr::LeaveGroup { group_addr: group }
        }
    };
    ctx.nontrivial = true;
    drive_igmp(src, ctx, &r)
}

/// replay form of the exhaustive sweep over the 256 Max Resp Codes: [code, group kind]
fn igmp_code(src: &mut Src, ctx: &mut Ctx) -> R {
    let code = src.draw(255) as u8;
    let group = if src.bool() { [224, 0, 0, 1] } else { [0, 0, 0, 0] };
    let bytes = [0x11, code, 0, 0, group[0], group[1], group[2], group[3]];
    let pk = IgmpPacket::new_unchecked(&bytes[..]);
    let r = match IgmpRepr::parse(&pk) {
        Ok(r) => r,
        Err(_) => return Err(Fail::new("igmp:query-rejected", format!("membership query with code {} rejected", code))),
    };
    if let IgmpRepr::MembershipQuery { version, max_resp_time, .. } = &r {
        vensure!((*version == IgmpVersion::Version1) == (code == 0), "igmp:query-version", "code {} parsed as {:?}", code, version);
        vensure!(
            *max_resp_time == Duration::from_millis(igmp_code_to_ds(code) * 100),
            "igmp:max-resp-decode",
            "code {} decoded to {} (RFC 3376: {} ds)",
            code,
            max_resp_time,
            igmp_code_to_ds(code)
        );
    }
    ctx.nontrivial = true;
    drive_igmp(src, ctx, &r)
}

// ------------------------------------------------------------------ udp

/// Provisos: dst_port != 0 (parse rejects, udp.rs:246); header + payload fits the 16-bit
/// length field (`(HEADER_LEN + payload_len) as u16`, udp.rs:299). The repr carries no payload;
/// the payload bytes are compared separately through `UdpPacket::payload`.
fn udp(src: &mut Src, ctx: &mut Ctx) -> R {
    let r = UdpRepr { src_port: src.special(&[0, 1, 53, 67, 68, 0xffff], 0, 65535) as u16, dst_port: src.special(&[1, 53, 67, 68, 0xffff], 1, 65535) as u16 };
    let (sa, da) = g_ip_pair(src);
    let n = g_len(src, 1500);
    let payload = g_data(src, n);
    let (caps, tx) = g_caps(src);
    ctx.nontrivial = n > 0;
    ctx.label(if matches!(sa, IpAddress::Ipv4(_)) { "udp:over-ipv4" } else { "udp:over-ipv6" });
    if !tx {
        ctx.label("udp:checksum-offloaded");
    }
    let bytes = drive!(src, ctx, "udp", &r;
        len(r) { r.header_len() + n }
        emit(r, buf) {
            r.emit(&mut UdpPacket::new_unchecked(&mut buf[..]), &sa, &da, n, |b| b.copy_from_slice(&payload), &caps);
        }
        parse(buf, lenient => p) {
            let pk = UdpPacket::new_unchecked(buf);
            let c = lenient_caps(lenient, &caps);
            let p = UdpRepr::parse(&pk, &sa, &da, &c).ok();
        }
        ok(r) { r.dst_port != 0 }
        diffkey(_r, _off, _mask, _all) { "udp:buffer-dependent".to_string() }
        rtkey(_r) { "udp:roundtrip".to_string() }
    );
    let pk = UdpPacket::new_unchecked(&bytes[..]);
    vensure!(pk.check_len().is_ok() && pk.payload() == &payload[..], "udp:payload", "payload of {} bytes not reproduced", n);
    Ok(())
}

// ------------------------------------------------------------------ tcp

fn sack_prefix_closed(s: &[Option<(u32, u32)>; 3]) -> bool {
    !(s[0].is_none() && (s[1].is_some() || s[2].is_some())) && !(s[1].is_none() && s[2].is_some())
}

/// Provisos (all from tcp.rs): ports != 0 (parse rejects, :910-915); window scale <= 14 (parse
/// clamps, :955-966); SACK ranges are only emitted `else if` not sack_permitted and with an
/// ACK number (:1066-1072) and are written compacted (`filter(is_some)`, :794-803), so they must
/// form a prefix; the header with options fits 60 octets, the largest value of the 4-bit data
/// offset (`set_header_len`, :583-588).
fn tcp_ok(r: &TcpRepr) -> bool {
    let any_sack = r.sack_ranges.iter().any(|s| s.is_some());
    r.src_port != 0
        && r.dst_port != 0
        && r.window_scale.map(|w| w <= 14).unwrap_or(true)
        && sack_prefix_closed(&r.sack_ranges)
        && (!any_sack || (r.ack_number.is_some() && !r.sack_permitted))
        && r.header_len() <= 60
}

fn drive_tcp(src: &mut Src, ctx: &mut Ctx, r: &TcpRepr, sa: IpAddress, da: IpAddress, caps: ChecksumCapabilities) -> R {
    drive!(src, ctx, "tcp", r;
        len(r) { r.buffer_len() }
        emit(r, buf) { r.emit(&mut TcpPacket::new_unchecked(&mut buf[..]), &sa, &da, &caps); }
        parse(buf, lenient => p) {
            let pk = TcpPacket::new_unchecked(buf);
            let c = lenient_caps(lenient, &caps);
            let p = TcpRepr::parse(&pk, &sa, &da, &c).ok();
        }
        ok(r) { tcp_ok(r) }
        diffkey(_r, _off, _mask, _all) { "tcp:buffer-dependent".to_string() }
        rtkey(_r) { "tcp:roundtrip".to_string() }
    );
    Ok(())
}

const TCP_CONTROLS: [TcpControl; 5] = [TcpControl::None, TcpControl::Psh, TcpControl::Syn, TcpControl::Fin, TcpControl::Rst];

fn tcp(src: &mut Src, ctx: &mut Ctx) -> R {
    let n = g_len(src, 1500);
    let payload = g_data(src, n);
    let ack = if src.chance(3, 4) { Some(TcpSeqNumber(src.special(&[0, 1, 0x7fff_ffff, 0x8000_0000, 0xffff_ffff], 0, u32::MAX as u64) as u32 as i32)) } else { None };
    let sack_permitted = src.chance(1, 4);
    let mut sack_ranges = [None, None, None];
    if ack.is_some() && !sack_permitted && src.chance(1, 2) {
        for s in sack_ranges.iter_mut().take(src.usize(1, 3)) {
            *s = Some((src.u32(), src.u32()));
        }
    }
    let mut r = TcpRepr {
        src_port: src.special(&[1, 80, 0xffff], 1, 65535) as u16,
        dst_port: src.special(&[1, 80, 0xffff], 1, 65535) as u16,
        control: TCP_CONTROLS[src.draw(4) as usize],
        seq_number: TcpSeqNumber(src.special(&[0, 1, 0x7fff_ffff, 0x8000_0000, 0xffff_ffff], 0, u32::MAX as u64) as u32 as i32),
        ack_number: ack,
        window_len: src.special(&[0, 1, 0xffff], 0, 65535) as u16,
        window_scale: if src.chance(1, 3) { Some(src.draw(14) as u8) } else { None },
        max_seg_size: if src.chance(1, 3) { Some(src.special(&[0, 536, 1460, 0xffff], 0, 65535) as u16) } else { None },
        sack_permitted,
        sack_ranges,
        timestamp: if src.chance(1, 3) { Some(TcpTimestampRepr::new(src.u32(), src.u32())) } else { None },
        payload: &payload,
    };
    // keep the options within the 40 octets the header can describe
    let mut i = 3;
    while r.header_len() > 60 && i > 0 {
        i -= 1;
        r.sack_ranges[i] = None;
    }
    let (sa, da) = g_ip_pair(src);
    let (caps, tx) = g_caps(src);
    ctx.nontrivial = r.header_len() > 20 || n > 0;
    if r.header_len() == 60 {
        ctx.label("tcp:options-40-bytes");
    }
    if r.sack_ranges[0].is_some() {
        ctx.label("tcp:sack-ranges");
    }
    if r.timestamp.is_some() {
        ctx.label("tcp:timestamp");
    }
    if !tx {
        ctx.label("tcp:checksum-offloaded");
    }
    drive_tcp(src, ctx, &r, sa, da, caps)
}

/// replay form of the exhaustive control x option-presence sweep:
/// [control 0..4, ack, mss, ws, sack_permitted, timestamp, number of sack ranges 0..3]
fn tcp_small(src: &mut Src, ctx: &mut Ctx) -> R {
    let control = TCP_CONTROLS[src.draw(4) as usize];
    let ack = src.bool();
    let mss = src.bool();
    let ws = src.bool();
    let sp = src.bool();
    let ts = src.bool();
    let nsack = src.usize(0, 3);
    let mut sack_ranges = [None, None, None];
    for (i, s) in sack_ranges.iter_mut().enumerate().take(nsack) {
        *s = Some((1000 * (i as u32 + 1), 1000 * (i as u32 + 1) + 500));
    }
    let payload = [0xaa, 0x55, 0x01];
    let r = TcpRepr {
        src_port: 49152,
        dst_port: 80,
        control,
        seq_number: TcpSeqNumber(0x0123_4567),
        ack_number: if ack { Some(TcpSeqNumber(-2)) } else { None },
        window_len: 4096,
        window_scale: if ws { Some(7) } else { None },
        max_seg_size: if mss { Some(1460) } else { None },
        sack_permitted: sp,
        sack_ranges,
        timestamp: if ts { Some(TcpTimestampRepr::new(0x1111_2222, 0x3333_4444)) } else { None },
        payload: &payload,
    };
    if !tcp_ok(&r) {
        // outside the emit contract (e.g. options > 40 octets, ranges without ACK): not a case
        ctx.label("tcp_small:skipped-outside-proviso");
        return Ok(());
    }
    ctx.nontrivial = r.header_len() > 20;
    let sa = IpAddress::Ipv4(Ipv4Address::from([192, 168, 1, 1]));
    let da = IpAddress::Ipv4(Ipv4Address::from([192, 168, 1, 2]));
    drive_tcp(src, ctx, &r, sa, da, ChecksumCapabilities::default())
}

/// single TcpOption. Provisos: SackRange has >= 1 range and the ranges form a prefix (emit
/// compacts, parse rejects a length below 10, tcp.rs:703); Unknown.kind is not a kind that parses
/// to another variant (0..=5, and 8 with 8 data octets, tcp.rs:692-742); the option fits its
/// length octet (`length as u8`, :778).
fn tcp_option_ok(o: &TcpOption) -> bool {
    match o {
        TcpOption::SackRange(s) => s[0].is_some() && sack_prefix_closed(s),
        TcpOption::Unknown { kind, data } => !(*kind <= 5 || (*kind == 8 && data.len() == 8)) && data.len() <= 253,
        _ => true,
    }
}

fn tcp_option(src: &mut Src, ctx: &mut Ctx) -> R {
    let n = if src.chance(1, 8) { src.usize(0, 253) } else { src.usize(0, 38) };
    let data = g_data(src, n);
    let kind = src.draw(7);
    let r = match kind {
        0 => TcpOption::EndOfList,
        1 => TcpOption::NoOperation,
        2 => TcpOption::MaxSegmentSize(src.special(&[0, 536, 1460, 0xffff], 0, 65535) as u16),
        3 => TcpOption::WindowScale(src.special(&[0, 14, 15, 255], 0, 255) as u8),
        4 => TcpOption::SackPermitted,
        5 => {
            let mut s = [None, None, None];
            for x in s.iter_mut().take(src.usize(1, 3)) {
                *x = Some((src.u32(), src.u32()));
            }
            TcpOption::SackRange(s)
        }
        6 => TcpOption::TimeStamp { tsval: src.u32(), tsecr: src.u32() },
        _ => {
            let mut k = src.special(&[8, 6, 7, 28, 30, 34, 253, 254, 255], 0, 255) as u8;
            if k <= 5 || (k == 8 && n == 8) {
                k = 30;
            }
            TcpOption::Unknown { kind: k, data: &data }
        }
    };
    ctx.label(["tcp_option:eol", "tcp_option:nop", "tcp_option:mss", "tcp_option:ws", "tcp_option:sack-permitted", "tcp_option:sack-range", "tcp_option:timestamp", "tcp_option:unknown"][kind as usize]);
    ctx.nontrivial = kind >= 2;
    drive!(src, ctx, "tcp_option", &r;
        len(r) { r.buffer_len() }
        emit(r, buf) {
            let _ = r.emit(&mut buf[..]);
        }
        parse(buf, lenient => p) {
            let p = match TcpOption::parse(buf) {
                Ok((rest, o)) if rest.is_empty() => Some(o),
                _ => None,
            };
        }
        ok(r) { tcp_option_ok(r) }
        diffkey(_r, _off, _mask, _all) { "tcp_option:buffer-dependent".to_string() }
        rtkey(_r) { "tcp_option:roundtrip".to_string() }
    );
    Ok(())
}

// ------------------------------------------------------------------ dhcpv4

/// Provisos (dhcpv4.rs): renew_duration / rebind_duration are parse-only (emit never writes
/// options 58/59, :864-950) and additional_options is emit-only (parse returns &[], :834), so
/// both are empty; parameter_request_list fits an option (<= 255 octets, :75); message_type is
/// canonical. dns_servers holds at most MAX_DNS_SERVER_COUNT entries by type.
fn dhcp_ok(r: &DhcpRepr) -> bool {
    r.renew_duration.is_none()
        && r.rebind_duration.is_none()
        && r.additional_options.is_empty()
        && r.parameter_request_list.map(|l| l.len() <= 255).unwrap_or(true)
        && DhcpMessageType::from(u8::from(r.message_type)) == r.message_type
}

fn dhcpv4(src: &mut Src, ctx: &mut Ctx) -> R {
    let n = if src.chance(1, 10) { src.usize(0, 255) } else { src.usize(0, 12) };
    let prl = g_data(src, n);
    let opt = |src: &mut Src| src.chance(1, 2);
    let mut r = DhcpRepr {
        message_type: DhcpMessageType::from(src.special(&[1, 2, 3, 4, 5, 6, 7, 8, 0, 9, 255], 0, 255) as u8),
        transaction_id: src.special(&[0, 1, 0xffff_ffff], 0, u32::MAX as u64) as u32,
        secs: src.special(&[0, 1, 0xffff], 0, 65535) as u16,
        client_hardware_address: g_mac(src),
        client_ip: g_v4(src),
        your_ip: g_v4(src),
        server_ip: g_v4(src),
        router: if opt(src) { Some(g_v4(src)) } else { None },
        subnet_mask: if opt(src) { Some(g_v4(src)) } else { None },
        relay_agent_ip: g_v4(src),
        broadcast: src.bool(),
        requested_ip: if opt(src) { Some(g_v4(src)) } else { None },
        client_identifier: if opt(src) { Some(g_mac(src)) } else { None },
        server_identifier: if opt(src) { Some(g_v4(src)) } else { None },
        parameter_request_list: if opt(src) { Some(&prl[..]) } else { None },
        dns_servers: None,
        max_size: if opt(src) { Some(src.special(&[0, 576, 1500, 0xffff], 0, 65535) as u16) } else { None },
        lease_duration: if opt(src) { Some(src.special(&[0, 1, 0xffff_ffff], 0, u32::MAX as u64) as u32) } else { None },
        renew_duration: None,
        rebind_duration: None,
        additional_options: &[],
    };
    if opt(src) {
        r.dns_servers = Some(Default::default());
        let k = src.usize(0, smoltcp::wire::DHCP_MAX_DNS_SERVER_COUNT);
        for _ in 0..k {
            let a = g_v4(src);
            r.dns_servers.as_mut().unwrap().push(a).unwrap();
        }
        ctx.label(["dhcpv4:dns-0", "dhcpv4:dns-1", "dhcpv4:dns-2", "dhcpv4:dns-3"][k.min(3)]);
    }
    ctx.nontrivial = r.buffer_len() > 244;
    if matches!(r.message_type, DhcpMessageType::Unknown(_)) {
        ctx.label("dhcpv4:message-type-unknown");
    }
    // emission into a buffer of the declared length must also succeed
    {
        let mut b = vec![0u8; r.buffer_len()];
        let res = guarded(|| r.emit(&mut DhcpPacket::new_unchecked(&mut b[..])));
        match res {
            Ok(Ok(())) => {}
            Ok(Err(_)) => return Err(Fail::new("dhcpv4:emit-error", format!("emit into buffer_len()={} returned Err for {:?}", b.len(), r))),
            Err(p) => return Err(panic_fail("dhcpv4", &p, format!("{:?}", r), r.buffer_len())),
        }
    }
    drive!(src, ctx, "dhcpv4", &r;
        len(r) { r.buffer_len() }
        emit(r, buf) { let _ = r.emit(&mut DhcpPacket::new_unchecked(&mut buf[..])); }
        parse(buf, lenient => p) {
            let pk = DhcpPacket::new_unchecked(buf);
            let p = DhcpRepr::parse(&pk).ok();
        }
        ok(r) { dhcp_ok(r) }
        diffkey(_r, _off, _mask, _all) { "dhcpv4:buffer-dependent".to_string() }
        rtkey(_r) { "dhcpv4:roundtrip".to_string() }
    );
    Ok(())
}

// ------------------------------------------------------------------ dns

fn g_dns_name(src: &mut Src) -> Vec<u8> {
    g_dns_name2(src).0
}

fn g_dns_name2(src: &mut Src) -> (Vec<u8>, bool) {
    let mut v = vec![];
    let mut labels = 0;
    while labels < 6 && src.more(3, 4) {
        let n = if src.chance(1, 8) { src.usize(1, 63) } else { src.usize(1, 10) };
        v.push(n as u8);
        for _ in 0..n {
            v.push(if src.chance(1, 8) { src.u8() } else { b'a' + src.draw(25) as u8 });
        }
        labels += 1;
    }
    let ptr = src.chance(1, 5);
    if ptr {
        v.push(0xc0 | src.draw(0x3f) as u8);
        v.push(src.u8());
    } else {
        v.push(0);
    }
    (v, ptr)
}

/// wire::dns::Repr supports queries only and has no parse; "parse" is assembled from the Packet
/// accessors and Question::parse. Provisos: opcode fits its 4-bit field (`(val as u16) << 11`,
/// dns.rs:233-240); the question name is a well-formed encoded name (labels ended by 0 or by
/// a pointer, dns.rs:262-287). A packet is taken as a parsed query only if it has exactly one
/// question, no records and no trailing bytes - what Repr::emit produces (dns.rs:420-427).
fn dns_ok(r: &DnsRepr) -> bool {
    u8::from(r.opcode) <= 15 && matches!(DnsQuestion::parse_name_only(r.question.name), Some(0))
}

trait NameOnly {
    fn parse_name_only(name: &[u8]) -> Option<usize>;
}
impl NameOnly for DnsQuestion<'_> {
    /// number of octets left over after one encoded name (harness re-implementation)
    fn parse_name_only(name: &[u8]) -> Option<usize> {
        let mut i = 0;
        loop {
            let x = *name.get(i)?;
            i += 1;
            if x == 0 {
                return Some(name.len() - i);
            } else if x & 0xc0 == 0 {
                i += x as usize;
                if i > name.len() {
                    return None;
                }
            } else if x & 0xc0 == 0xc0 {
                name.get(i)?;
                return Some(name.len() - i - 1);
            } else {
                return None;
            }
        }
    }
}

fn dns(src: &mut Src, ctx: &mut Ctx) -> R {
    let (name, ends_with_ptr) = g_dns_name2(src);
    let r = DnsRepr {
        transaction_id: src.special(&[0, 1, 0xffff], 0, 65535) as u16,
        opcode: DnsOpcode::from(src.special(&[0, 1, 2, 7, 8, 15], 0, 15) as u8),
        flags: DnsFlags::from_bits_truncate(src.special(&[0, 0x0100, 0xffff], 0, 65535) as u16),
        question: DnsQuestion { name: &name, type_: DnsQueryType::from(src.special(&[1, 2, 5, 6, 28, 0, 255, 0xffff], 0, 65535) as u16) },
    };
    ctx.nontrivial = name.len() > 1;
    if ends_with_ptr {
        ctx.label("dns:name-ends-with-pointer");
    }
    if u8::from(r.opcode) >= 8 {
        ctx.label("dns:opcode-bit3");
    }
    drive!(src, ctx, "dns", &r;
        len(r) { r.buffer_len() }
        emit(r, buf) { r.emit(&mut DnsPacket::new_unchecked(&mut buf[..])); }
        parse(buf, lenient => p) {
            let pk = DnsPacket::new_unchecked(buf);
            let p = if pk.check_len().is_ok()
                && pk.question_count() == 1
                && pk.answer_record_count() == 0
                && pk.authority_record_count() == 0
                && pk.additional_record_count() == 0
            {
                match DnsQuestion::parse(pk.payload()) {
                    Ok((rest, q)) if rest.is_empty() => Some(DnsRepr { transaction_id: pk.transaction_id(), opcode: pk.opcode(), flags: pk.flags(), question: q }),
                    _ => None,
                }
            } else {
                None
            };
        }
        ok(r) { dns_ok(r) }
        diffkey(_r, off, mask, _all) {
            let mut k = String::new();
            if off == 2 {
                if mask & 0x40 != 0 { k.push_str("dns:buffer-dependent:opcode-mask-misses-bit14|"); }
                if mask & !0x40 != 0 { k.push_str("dns:buffer-dependent:other|"); }
            } else if off == 3 {
                if mask & 0x4f != 0 { k.push_str("dns:buffer-dependent:z-rcode-not-cleared|"); }
                if mask & !0x4f != 0 { k.push_str("dns:buffer-dependent:other|"); }
            } else {
                k.push_str("dns:buffer-dependent:other");
            }
            k
        }
        rtkey(_r) { "dns:roundtrip".to_string() }
    );
    Ok(())
}

/// wire::dns::Record has a parser only; a record encoded by the harness must parse to the
/// fields it was built from (no emitter in smoltcp, so oracles (2)-(4) do not apply).
fn dns_record(src: &mut Src, ctx: &mut Ctx) -> R {
    let name = g_dns_name(src);
    let ttl = src.special(&[0, 1, 0xffff_ffff], 0, u32::MAX as u64) as u32;
    let kind = src.draw(3);
    let n = src.usize(0, 40);
    let blob = g_data(src, n);
    let (ty, rdata): (u16, Vec<u8>) = match kind {
        0 => (1, arr::<4>(src).to_vec()),
        1 => (28, arr::<16>(src).to_vec()),
        2 => (5, blob.clone()),
        _ => {
            let mut t = src.special(&[2, 6, 0, 16, 0xffff], 0, 65535) as u16;
            if t == 1 || t == 28 || t == 5 {
                t = 16;
            }
            (t, blob.clone())
        }
    };
    let mut bytes = name.clone();
    bytes.extend_from_slice(&ty.to_be_bytes());
    bytes.extend_from_slice(&1u16.to_be_bytes());
    bytes.extend_from_slice(&ttl.to_be_bytes());
    bytes.extend_from_slice(&(rdata.len() as u16).to_be_bytes());
    bytes.extend_from_slice(&rdata);
    let trailing = src.usize(0, 3);
    bytes.extend(std::iter::repeat(0x5a).take(trailing));
    ctx.nontrivial = true;
    ctx.digest.str("dns_record");
    ctx.digest.bytes(&bytes);
    ctx.note(|| format!("dns record bytes {}", hex(&bytes)));
    let expect = match kind {
        0 => DnsRecordData::A(Ipv4Address::from(<[u8; 4]>::try_from(&rdata[..]).unwrap())),
        1 => DnsRecordData::Aaaa(Ipv6Address::from(<[u8; 16]>::try_from(&rdata[..]).unwrap())),
        2 => DnsRecordData::Cname(&rdata),
        _ => DnsRecordData::Other(DnsQueryType::from(ty), &rdata),
    };
    match DnsRecord::parse(&bytes) {
        Ok((rest, rec)) => {
            vensure!(
                rest.len() == trailing && rec.name == &name[..] && rec.ttl == ttl && rec.data == expect,
                "dns_record:parse",
                "record parsed to {:?} with {} bytes left, expected name {} ttl {} data {:?} and {} left",
                rec,
                rest.len(),
                hex(&name),
                ttl,
                expect,
                trailing
            );
        }
        Err(_) => return Err(Fail::new("dns_record:parse", format!("well-formed record {} rejected", hex(&bytes)))),
    }
    Ok(())
}

// ------------------------------------------------------------------ ieee 802.15.4

const IEEE_FT: [Ieee802154FrameType; 4] =
    [Ieee802154FrameType::Data, Ieee802154FrameType::Beacon, Ieee802154FrameType::MacCommand, Ieee802154FrameType::Multipurpose];
const IEEE_FV: [Ieee802154FrameVersion; 3] =
    [Ieee802154FrameVersion::Ieee802154_2003, Ieee802154FrameVersion::Ieee802154_2006, Ieee802154FrameVersion::Ieee802154];

/// The combinations the emitter supports, from ieee802154.rs: emit lays the addressing fields
/// out as [dst PAN][dst addr][src PAN unless pan_id_compression][src addr] (set_dst_pan_id
/// :751-758, set_dst_addr :762-780 always behind a 2-octet PAN, set_src_pan_id/_addr :794-835,
/// buffer_len :956-969). This coincides with the parser's table (:444-482) when
///  * the frame type has addressing fields and a sequence number in every version (Data,
///    Beacon, MacCommand, Multipurpose, :402-429) and sequence_number is Some,
///  * the version is 2003, 2006 or 2015 (Unknown versions parse to no addresses),
///  * dst_pan_id is Some and both addresses are Short or Extended,
///  * src_pan_id is Some exactly when pan_id_compression is off (emit ignores it otherwise,
///    :991),
///  * for version 2015 not both addresses Extended (there the table drops a PAN id, :469-470).
/// security_enabled needs an auxiliary security header behind the MAC header, which is
/// payload from the repr's point of view; the harness appends >= 32 payload octets then
/// (security control 1 + frame counter 4 + key identifier <= 9 + MIC <= 16).
fn ieee_ok(r: &Ieee802154Repr) -> bool {
    let sx = |a: &Option<Ieee802154Address>| matches!(a, Some(Ieee802154Address::Short(_)) | Some(Ieee802154Address::Extended(_)));
    IEEE_FT.contains(&r.frame_type)
        && r.sequence_number.is_some()
        && IEEE_FV.contains(&r.frame_version)
        && r.dst_pan_id.is_some()
        && sx(&r.dst_addr)
        && sx(&r.src_addr)
        && r.pan_id_compression == r.src_pan_id.is_none()
        && !(r.frame_version == Ieee802154FrameVersion::Ieee802154
            && matches!(r.dst_addr, Some(Ieee802154Address::Extended(_)))
            && matches!(r.src_addr, Some(Ieee802154Address::Extended(_))))
}

fn drive_ieee(src: &mut Src, ctx: &mut Ctx, r: &Ieee802154Repr, plen: usize) -> R {
    const K_OR: &str = "ieee802154:buffer-dependent:fc-flag-setters-only-set";
    const K_RES: &str = "ieee802154:buffer-dependent:fc-bits-7-9-unwritten";
    drive!(src, ctx, "ieee802154", r;
        len(r) { r.buffer_len() + if r.security_enabled { plen.max(32) } else { plen } }
        emit(r, buf) {
            r.emit(&mut Ieee802154Frame::new_unchecked(&mut buf[..]));
            let h = r.buffer_len();
            pat(&mut buf[h..]);
        }
        parse(buf, lenient => p) {
            let f = Ieee802154Frame::new_unchecked(buf);
            let p = Ieee802154Repr::parse(&f).ok();
        }
        ok(r) { ieee_ok(r) }
        diffkey(_r, off, mask, all) {
            // the PAN-id-compression bit cannot be cleared by its setter; when it sticks, emit
            // (which reads it back, ieee802154.rs:816) also misplaces the source address
            let pic_stuck = all.iter().any(|&(o, m)| o == 0 && m & 0x40 != 0);
            let mut k = String::new();
            if off == 0 {
                if mask & 0x78 != 0 { k.push_str(K_OR); k.push('|'); }
                if mask & 0x80 != 0 { k.push_str(K_RES); k.push('|'); }
                if mask & 0x07 != 0 { k.push_str("ieee802154:buffer-dependent:other|"); }
            } else if off == 1 {
                if mask & 0x03 != 0 { k.push_str(K_RES); k.push('|'); }
                if mask & 0xfc != 0 { k.push_str("ieee802154:buffer-dependent:other|"); }
            } else if off >= 3 && pic_stuck {
                k.push_str(K_OR);
            } else {
                k.push_str("ieee802154:buffer-dependent:other");
            }
            k
        }
        rtkey(_r) { "ieee802154:roundtrip".to_string() }
    );
    Ok(())
}

fn g_ieee_addr(src: &mut Src, ext: bool) -> Ieee802154Address {
    if ext {
        Ieee802154Address::Extended(arr::<8>(src))
    } else if src.chance(1, 6) {
        Ieee802154Address::BROADCAST
    } else {
        Ieee802154Address::Short(arr::<2>(src))
    }
}

fn ieee802154(src: &mut Src, ctx: &mut Ctx) -> R {
    let frame_version = IEEE_FV[src.draw(2) as usize];
    let dst_ext = src.bool();
    let mut src_ext = src.bool();
    if frame_version == Ieee802154FrameVersion::Ieee802154 && dst_ext && src_ext {
        src_ext = false;
    }
    let pic = src.bool();
    let r = Ieee802154Repr {
        frame_type: IEEE_FT[src.weighted(&[5, 1, 1, 1])],
        security_enabled: src.chance(1, 4),
        frame_pending: src.bool(),
        ack_request: src.bool(),
        sequence_number: Some(src.u8()),
        pan_id_compression: pic,
        frame_version,
        dst_pan_id: Some(Ieee802154Pan(src.special(&[0, 0xffff, 0xabcd], 0, 65535) as u16)),
        dst_addr: Some(g_ieee_addr(src, dst_ext)),
        src_pan_id: if pic { None } else { Some(Ieee802154Pan(src.special(&[0, 0xffff, 0xabcd], 0, 65535) as u16)) },
        src_addr: Some(g_ieee_addr(src, src_ext)),
    };
    let plen = src.usize(0, 40);
    ctx.nontrivial = true;
    if r.security_enabled {
        ctx.label("ieee802154:security-enabled");
    }
    drive_ieee(src, ctx, &r, plen)
}

/// replay form of the exhaustive sweep over the flag and addressing-mode space:
/// [frame type 0..3, sec|pending|ack bits 0..7, pan-id compression, version 0..2, dst extended, src extended]
fn ieee_small(src: &mut Src, ctx: &mut Ctx) -> R {
    let ft = IEEE_FT[src.draw(3) as usize];
    let flags = src.draw(7);
    let pic = src.bool();
    let fv = IEEE_FV[src.draw(2) as usize];
    let dst_ext = src.bool();
    let src_ext = src.bool();
    let a = |ext: bool, tag: u8| if ext { Ieee802154Address::Extended([tag, 2, 3, 4, 5, 6, 7, 8]) } else { Ieee802154Address::Short([tag, 0x42]) };
    let r = Ieee802154Repr {
        frame_type: ft,
        security_enabled: flags & 1 != 0,
        frame_pending: flags & 2 != 0,
        ack_request: flags & 4 != 0,
        sequence_number: Some(0x5a),
        pan_id_compression: pic,
        frame_version: fv,
        dst_pan_id: Some(Ieee802154Pan(0xabcd)),
        dst_addr: Some(a(dst_ext, 0xd1)),
        src_pan_id: if pic { None } else { Some(Ieee802154Pan(0x1234)) },
        src_addr: Some(a(src_ext, 0x51)),
    };
    if !ieee_ok(&r) {
        ctx.label("ieee_small:skipped-outside-proviso");
        return Ok(());
    }
    ctx.nontrivial = true;
    drive_ieee(src, ctx, &r, 4)
}

// ------------------------------------------------------------------ 6LoWPAN IPHC

fn eui64(ext: [u8; 8]) -> [u8; 8] {
    let mut b = ext;
    b[0] ^= 0x02;
    b
}

fn g_ll(src: &mut Src) -> Option<Ieee802154Address> {
    match src.weighted(&[2, 3, 3, 1]) {
        0 => None,
        1 => Some(Ieee802154Address::Short(arr::<2>(src))),
        2 => Some(Ieee802154Address::Extended(arr::<8>(src))),
        _ => Some(Ieee802154Address::Absent),
    }
}

fn g_iphc_unicast(src: &mut Src, ll: Option<Ieee802154Address>) -> Ipv6Address {
    let mut a = [0u8; 16];
    a[0] = 0xfe;
    a[1] = 0x80;
    match src.weighted(&[2, 2, 3, 2, 2, 1]) {
        0 => {
            let mut g = arr::<16>(src);
            g[0] = 0x20;
            return Ipv6Address::from(g);
        }
        1 => a[8..].copy_from_slice(&arr::<8>(src)),
        2 => match ll {
            // interface identifier derived from the link-layer address: can be elided
            Some(Ieee802154Address::Short(s)) => {
                a[11] = 0xff;
                a[12] = 0xfe;
                a[14] = s[0];
                a[15] = s[1];
            }
            Some(Ieee802154Address::Extended(e)) => a[8..].copy_from_slice(&eui64(e)),
            _ => a[8..].copy_from_slice(&arr::<8>(src)),
        },
        3 => {
            a[11] = 0xff;
            a[12] = 0xfe;
            a[14] = src.u8();
            a[15] = src.u8();
        }
        4 => return Ipv6Address::from(arr::<16>(src)),
        _ => return Ipv6Address::UNSPECIFIED,
    }
    Ipv6Address::from(a)
}

fn mcast_compressible(d: &[u8; 16]) -> bool {
    (d[1] == 0x02 && d[2..15] == [0; 13]) || d[2..13] == [0; 11] || d[2..11] == [0; 9]
}

/// Provisos (iphc.rs): ecn, dscp and flow_label are None - "we don't set anything from the
/// traffic flow" (:857-858, TF is always 0b11) while buffer_len() would count them; emit never
/// uses address contexts (stateless compression only, :527-528 and :593), so parsing needs none.
fn iphc(src: &mut Src, ctx: &mut Ctx) -> R {
    let lls = g_ll(src);
    let lld = g_ll(src);
    let src_addr = g_iphc_unicast(src, lls);
    let dst_addr = if src.chance(2, 5) { g_v6_mcast(src) } else { g_iphc_unicast(src, lld) };
    let r = SixlowpanIphcRepr {
        src_addr,
        ll_src_addr: lls,
        dst_addr,
        ll_dst_addr: lld,
        next_header: if src.chance(1, 3) { SixlowpanNextHeader::Compressed } else { SixlowpanNextHeader::Uncompressed(g_proto(src)) },
        hop_limit: src.special(&[1, 64, 255, 0, 2, 63, 65, 254], 0, 255) as u8,
        ecn: None,
        dscp: None,
        flow_label: None,
    };
    let plen = src.usize(0, 8);
    ctx.nontrivial = true;
    let hl = r.buffer_len();
    ctx.label(match hl {
        2..=3 => "iphc:header-2-3",
        4..=12 => "iphc:header-4-12",
        13..=21 => "iphc:header-13-21",
        _ => "iphc:header-22-plus",
    });
    if dst_addr.is_multicast() {
        ctx.label(if mcast_compressible(&dst_addr.octets()) { "iphc:dst-multicast-compressed" } else { "iphc:dst-multicast-inline" });
    }
    drive!(src, ctx, "iphc", &r;
        len(r) { r.buffer_len() + plen }
        emit(r, buf) {
            r.emit(&mut SixlowpanIphcPacket::new_unchecked(&mut buf[..]));
            let h = r.buffer_len();
            pat(&mut buf[h..]);
        }
        parse(buf, lenient => p) {
            let pk = SixlowpanIphcPacket::new_unchecked(buf);
            let p = SixlowpanIphcRepr::parse(&pk, lls, lld, &[]).ok();
        }
        ok(r) { r.ecn.is_none() && r.dscp.is_none() && r.flow_label.is_none() }
        diffkey(_r, _off, _mask, _all) { "iphc:buffer-dependent".to_string() }
        rtkey(r) {
            if r.dst_addr.is_multicast() && !mcast_compressible(&r.dst_addr.octets()) {
                "iphc:roundtrip:multicast-dst-full-inline".to_string()
            } else {
                "iphc:roundtrip".to_string()
            }
        }
    );
    Ok(())
}

// ------------------------------------------------------------------ 6LoWPAN NHC

/// ExtHeaderRepr: no proviso; the `length` octets of payload follow the header.
fn ext_nhc(src: &mut Src, ctx: &mut Ctx) -> R {
    const IDS: [SixlowpanExtHeaderId; 7] = [
        SixlowpanExtHeaderId::HopByHopHeader,
        SixlowpanExtHeaderId::RoutingHeader,
        SixlowpanExtHeaderId::FragmentHeader,
        SixlowpanExtHeaderId::DestinationOptionsHeader,
        SixlowpanExtHeaderId::MobilityHeader,
        SixlowpanExtHeaderId::Header,
        SixlowpanExtHeaderId::Reserved,
    ];
    let r = SixlowpanExtHeaderRepr {
        ext_header_id: IDS[src.draw(6) as usize],
        next_header: if src.bool() { SixlowpanNextHeader::Compressed } else { SixlowpanNextHeader::Uncompressed(g_proto(src)) },
        length: src.special(&[0, 1, 6, 255], 0, 255) as u8,
    };
    ctx.nontrivial = r.length > 0 || r.next_header != SixlowpanNextHeader::Compressed;
    drive!(src, ctx, "ext_nhc", &r;
        len(r) { r.buffer_len() + r.length as usize }
        emit(r, buf) {
            r.emit(&mut SixlowpanExtHeaderPacket::new_unchecked(&mut buf[..]));
            let h = r.buffer_len();
            pat(&mut buf[h..]);
        }
        parse(buf, lenient => p) {
            let pk = SixlowpanExtHeaderPacket::new_unchecked(buf);
            let p = SixlowpanExtHeaderRepr::parse(&pk).ok();
        }
        ok(_r) { true }
        diffkey(_r, _off, _mask, _all) { "ext_nhc:buffer-dependent".to_string() }
        rtkey(_r) { "ext_nhc:roundtrip".to_string() }
    );
    Ok(())
}

fn is_4bit(p: u16) -> bool {
    (0xf0b0..=0xf0bf).contains(&p)
}
fn is_8bit(p: u16) -> bool {
    (0xf000..=0xf0ff).contains(&p)
}

/// UdpNhcRepr: no proviso on the ports (every pair has an encoding, nhc.rs:641-673).
/// header_len() always reserves the two checksum octets (:735).
fn udp_nhc_core(src: &mut Src, ctx: &mut Ctx, sp: u16, dp: u16) -> R {
    let r = SixlowpanUdpNhcRepr(UdpRepr { src_port: sp, dst_port: dp });
    let sa = g_v6(src);
    let da = g_v6(src);
    let n = src.usize(0, 64);
    let payload = g_data(src, n);
    let (caps, tx) = g_caps(src);
    let psz = if is_4bit(sp) && is_4bit(dp) {
        ctx.label("udp_nhc:ports-4bit");
        1
    } else if is_8bit(sp) {
        ctx.label("udp_nhc:src-port-8bit");
        3
    } else if is_8bit(dp) {
        ctx.label("udp_nhc:dst-port-8bit");
        3
    } else {
        ctx.label("udp_nhc:ports-inline");
        4
    };
    if !tx {
        ctx.label("udp_nhc:checksum-offloaded");
    }
    ctx.nontrivial = psz < 4 || n > 0;
    let bytes = drive!(src, ctx, "udp_nhc", &r;
        len(r) { r.header_len() + n }
        emit(r, buf) {
            r.emit(&mut SixlowpanUdpNhcPacket::new_unchecked(&mut buf[..]), &sa, &da, n, |b| b.copy_from_slice(&payload), &caps);
        }
        parse(buf, lenient => p) {
            let pk = SixlowpanUdpNhcPacket::new_unchecked(buf);
            let c = lenient_caps(lenient, &caps);
            let p = SixlowpanUdpNhcRepr::parse(&pk, &sa, &da, &c).ok();
        }
        ok(_r) { true }
        diffkey(_r, off, mask, _all) {
            let mut k = String::new();
            if !tx && off == 0 && mask & 0x04 != 0 {
                k.push_str("udp_nhc:buffer-dependent:checksum-field-unwritten-when-tx-offloaded|");
                if mask & !0x04 != 0 { k.push_str("udp_nhc:buffer-dependent:other"); }
            } else if !tx && (1 + psz..1 + psz + 2).contains(&off) {
                k.push_str("udp_nhc:buffer-dependent:checksum-field-unwritten-when-tx-offloaded");
            } else if tx && (1 + psz..1 + psz + 2).contains(&off) {
                k.push_str("@checksum");
            } else {
                k.push_str("udp_nhc:buffer-dependent:other");
            }
            k
        }
        rtkey(r) {
            if is_4bit(r.src_port) && is_4bit(r.dst_port) {
                "udp_nhc:roundtrip:4bit-ports".to_string()
            } else if !is_8bit(r.src_port) && is_8bit(r.dst_port) {
                // P=01: 16-bit source port then 8-bit destination port
                "udp_nhc:roundtrip:dst-8bit-port-read-at-wrong-offset".to_string()
            } else {
                "udp_nhc:roundtrip".to_string()
            }
        }
    );
    // the repr holds only the ports: check the payload too (skipped for the 4-bit form, whose
    // failure is already reported above)
    if !(is_4bit(sp) && is_4bit(dp)) && !(!is_8bit(sp) && is_8bit(dp)) {
        let pk = SixlowpanUdpNhcPacket::new_unchecked(&bytes[..]);
        vensure!(pk.check_len().is_ok() && pk.payload() == &payload[..], "udp_nhc:payload", "payload of {} bytes not reproduced", n);
    }
    Ok(())
}

fn udp_nhc(src: &mut Src, ctx: &mut Ctx) -> R {
    let g4 = |src: &mut Src| 0xf0b0 + src.draw(15) as u16;
    let g8 = |src: &mut Src| 0xf000 + src.draw(255) as u16;
    let gany = |src: &mut Src| src.special(&[0, 1, 53, 0xefff, 0xf000, 0xf0af, 0xf0b0, 0xf0bf, 0xf0c0, 0xf0ff, 0xf100, 0xffff], 0, 65535) as u16;
    let (sp, dp) = match src.weighted(&[2, 2, 2, 2]) {
        0 => (gany(src), gany(src)),
        1 => (g4(src), g4(src)),
        2 => (g8(src), gany(src)),
        _ => (gany(src), g8(src)),
    };
    udp_nhc_core(src, ctx, sp, dp)
}

/// replay form of the exhaustive sweep over the compressible port classes: [src port, dst port]
fn udp_nhc_ports(src: &mut Src, ctx: &mut Ctx) -> R {
    let sp = src.u16();
    let dp = src.u16();
    udp_nhc_core(src, ctx, sp, dp)
}

/// 6LoWPAN fragment headers. Proviso: datagram_size is an 11-bit field (`(v & !0x7ff) | size`,
/// frag.rs:181-187).
fn sixlowpan_frag(src: &mut Src, ctx: &mut Ctx) -> R {
    let size = src.biased(0, 2047) as u16;
    let tag = src.special(&[0, 1, 0xffff], 0, 65535) as u16;
    let r = if src.bool() {
        SixlowpanFragRepr::Fragment { size, tag, offset: src.special(&[0, 1, 255], 0, 255) as u8 }
    } else {
        SixlowpanFragRepr::FirstFragment { size, tag }
    };
    let plen = src.usize(0, 8);
    ctx.nontrivial = true;
    drive!(src, ctx, "sixlowpan_frag", &r;
        len(r) { r.buffer_len() + plen }
        emit(r, buf) {
            r.emit(&mut SixlowpanFragPacket::new_unchecked(&mut buf[..]));
            let h = r.buffer_len();
            pat(&mut buf[h..]);
        }
        parse(buf, lenient => p) {
            let pk = SixlowpanFragPacket::new_unchecked(buf);
            let p = SixlowpanFragRepr::parse(&pk).ok();
        }
        ok(r) {
            match r {
                SixlowpanFragRepr::FirstFragment { size, .. } | SixlowpanFragRepr::Fragment { size, .. } => *size <= 2047,
            }
        }
        diffkey(_r, _off, _mask, _all) { "sixlowpan_frag:buffer-dependent".to_string() }
        rtkey(_r) { "sixlowpan_frag:roundtrip".to_string() }
    );
    Ok(())
}

// ------------------------------------------------------------------ exhaustive phases

fn run_enum(env: &RunEnv, name: &str, part: &'static str, case: CaseFn, tapes: Vec<Vec<u64>>) -> PhaseResult {
    vkit::runner::set_quiet(true);
    let mut pr = PhaseResult { name: name.to_string(), exhaustive: true, ..Default::default() };
    let mut skipped = 0u64;
    for tape in tapes {
        let mut ctx = Ctx::new(false, env.known_open.clone(), false);
        let mut s = Src::replay(&tape);
        let res = guarded(|| case(&mut s, &mut ctx));
        if ctx.labels.iter().any(|l| l.ends_with(":skipped-outside-proviso")) {
            skipped += 1;
            continue;
        }
        pr.evaluations += 1;
        if ctx.nontrivial {
            pr.nontrivial += 1;
        }
        let fail = match res {
            Ok(Ok(())) => None,
            Ok(Err(f)) => Some(f),
            Err(p) => {
                if panic_in_smoltcp(&p) {
                    Some(Fail::new(panic_key(&p), format!("panic at {}:{}: {}", p.file, p.line, p.msg)))
                } else {
                    panic!("harness bug in phase {}: {}:{}: {}", name, p.file, p.line, p.msg)
                }
            }
        };
        if let Some(f) = fail {
            if !pr.failures.iter().any(|x| x.2.key == f.key) && pr.failures.len() < 8 {
                pr.failures.push((part.to_string(), tape.clone(), f));
            }
        }
    }
    pr.extra = json!({ "skipped_outside_proviso": skipped });
    pr
}

fn phase_udp_nhc_ports(env: &RunEnv) -> PhaseResult {
    let others: [u64; 8] = [0, 1, 53, 0xf000, 0xf0af, 0xf0b0, 0xf0c0, 0xffff];
    let mut tapes = vec![];
    for s in 0xf0b0..=0xf0bfu64 {
        for d in 0xf0b0..=0xf0bfu64 {
            tapes.push(vec![s, d]);
        }
    }
    for c in 0xf000..=0xf0ffu64 {
        for o in others {
            tapes.push(vec![c, o]);
            tapes.push(vec![o, c]);
        }
    }
    let mut pr = run_enum(env, "udp-nhc: all 256 4-bit port pairs, every 8-bit-compressible port against 8 partner ports, both directions", "udp_nhc_ports", udp_nhc_ports, tapes);
    pr.samples.push(json!({"phase": "udp-nhc ports", "example": "[0xf0b1, 0xf0b2] -> 4-bit form"}));
    pr
}

fn phase_tcp_small(env: &RunEnv) -> PhaseResult {
    let mut tapes = vec![];
    for c in 0..5u64 {
        for bits in 0..32u64 {
            for ns in 0..4u64 {
                tapes.push(vec![c, bits & 1, (bits >> 1) & 1, (bits >> 2) & 1, (bits >> 3) & 1, (bits >> 4) & 1, ns]);
            }
        }
    }
    run_enum(env, "tcp: all control values x presence of ack/mss/ws/sack-permitted/timestamp x 0..3 sack ranges (inside the proviso)", "tcp_small", tcp_small, tapes)
}

fn phase_igmp_codes(env: &RunEnv) -> PhaseResult {
    let mut tapes = vec![];
    for c in 0..256u64 {
        tapes.push(vec![c, 0]);
        tapes.push(vec![c, 1]);
    }
    run_enum(env, "igmp: all 256 Max Resp Codes of a membership query, parse -> emit -> parse", "igmp_code", igmp_code, tapes)
}

fn phase_ieee_small(env: &RunEnv) -> PhaseResult {
    let mut tapes = vec![];
    for ft in 0..4u64 {
        for fl in 0..8u64 {
            for pic in 0..2u64 {
                for fv in 0..3u64 {
                    for de in 0..2u64 {
                        for se in 0..2u64 {
                            tapes.push(vec![ft, fl, pic, fv, de, se]);
                        }
                    }
                }
            }
        }
    }
    run_enum(env, "ieee802154: frame type x flags x pan-id compression x version x addressing modes (inside the proviso)", "ieee_small", ieee_small, tapes)
}

// @@NEXT@@

pub fn prop() -> Prop {
    let mut p = prop_all();
    // development aid: VERIF_C06_ONLY=<part> runs a single part without the phases
    if let Ok(only) = std::env::var("VERIF_C06_ONLY") {
        p.parts.retain(|x| x.name == only);
        p.phases.clear();
    }
    p
}

fn prop_all() -> Prop {
    Prop {
        id: "C06",
        parts: vec![
            Part { name: "ethernet", case: ethernet, quick: 10_000, thorough: 1_000_000 },
            Part { name: "arp", case: arp, quick: 10_000, thorough: 1_000_000 },
            Part { name: "ipv4", case: ipv4, quick: 10_000, thorough: 1_000_000 },
            Part { name: "ipv6", case: ipv6, quick: 10_000, thorough: 1_000_000 },
            Part { name: "ipv6_ext_hdr", case: ipv6_ext_hdr, quick: 10_000, thorough: 1_000_000 },
            Part { name: "ipv6_option", case: ipv6_option, quick: 10_000, thorough: 1_000_000 },
            Part { name: "ipv6_hbh", case: ipv6_hbh, quick: 10_000, thorough: 1_000_000 },
            Part { name: "ipv6_frag", case: ipv6_frag, quick: 10_000, thorough: 1_000_000 },
            Part { name: "ipv6_routing", case: ipv6_routing, quick: 10_000, thorough: 1_000_000 },
            Part { name: "icmpv4", case: icmpv4, quick: 10_000, thorough: 1_000_000 },
            Part { name: "icmpv6", case: icmpv6, quick: 10_000, thorough: 1_000_000 },
            Part { name: "ndisc", case: ndisc, quick: 10_000, thorough: 1_000_000 },
            Part { name: "ndisc_option", case: ndisc_option, quick: 10_000, thorough: 1_000_000 },
            Part { name: "mld", case: mld, quick: 10_000, thorough: 1_000_000 },
            Part { name: "mld_record", case: mld_record, quick: 5_000, thorough: 500_000 },
            Part { name: "mld_records", case: mld_records, quick: 5_000, thorough: 500_000 },
            Part { name: "igmp", case: igmp, quick: 10_000, thorough: 1_000_000 },
            Part { name: "igmp_code", case: igmp_code, quick: 1_000, thorough: 10_000 },
            Part { name: "udp", case: udp, quick: 10_000, thorough: 1_000_000 },
            Part { name: "tcp", case: tcp, quick: 10_000, thorough: 1_000_000 },
            Part { name: "tcp_small", case: tcp_small, quick: 1_000, thorough: 10_000 },
            Part { name: "tcp_option", case: tcp_option, quick: 10_000, thorough: 1_000_000 },
            Part { name: "dhcpv4", case: dhcpv4, quick: 10_000, thorough: 1_000_000 },
            Part { name: "dns", case: dns, quick: 10_000, thorough: 1_000_000 },
            Part { name: "dns_record", case: dns_record, quick: 5_000, thorough: 500_000 },
            Part { name: "ieee802154", case: ieee802154, quick: 10_000, thorough: 1_000_000 },
            Part { name: "iphc", case: iphc, quick: 10_000, thorough: 1_000_000 },
            Part { name: "ext_nhc", case: ext_nhc, quick: 5_000, thorough: 500_000 },
            Part { name: "udp_nhc", case: udp_nhc, quick: 10_000, thorough: 1_000_000 },
            Part { name: "sixlowpan_frag", case: sixlowpan_frag, quick: 5_000, thorough: 500_000 },
            // replay forms of the exhaustive phases (also run with random tapes)
            Part { name: "udp_nhc_ports", case: udp_nhc_ports, quick: 2_000, thorough: 100_000 },
            Part { name: "ieee_small", case: ieee_small, quick: 1_000, thorough: 10_000 },
        ],
        phases: vec![phase_udp_nhc_ports, phase_tcp_small, phase_igmp_codes, phase_ieee_small],
        smoltcp_panic_is_violation: true,
        rule: "one generator per wire Repr type (32 parts); every case emits a generated repr into 0x00-, 0xFF- and garbage-filled buffers of exactly the declared length (no panic, identical bytes), parses the bytes back (equal repr when inside the type's proviso), then mutates one or two bytes of the packet and, if it still parses to a repr inside the proviso, requires parse(emit(r)) == r; exhaustive sweeps cover the compressible UDP-NHC port pairs, TCP control x option presence, the 256 IGMP Max Resp Codes and the IEEE 802.15.4 flag/addressing-mode space; a case is non-trivial when the repr has at least one optional or variable-length part present (option, address option, payload/data bytes, compressed field; always for fixed-layout types with no optional part); distinct by digest of (type, emitted bytes)",
        assumptions: vec![
            "per-type provisos (which reprs are inside the emit contract) are taken from the smoltcp sources and written next to each generator in vcheck/src/c06.rs",
            "payload bytes that a repr does not carry (IPv4/IPv6/Ethernet payload, extension-header data, MLD record sources, 802.15.4 payload) are written by the harness, as the in-tree callers do",
            "DNS has no Repr::parse: a parsed query is assembled from the Packet accessors and Question::parse; dns::Record has no emitter and is only parsed from harness-encoded bytes",
            "RPL and IPsec reprs are not compiled in (features proto-rpl / proto-ipsec are off in the harness build)",
        ],
    }
}
