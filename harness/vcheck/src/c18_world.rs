// Part of c18.rs (textually included): oracle and one simulation step.

impl World {
    // -------------------------------------------------------------- classification of a delivered frame

    /// Decide, from the bytes about to be handed to the client and from what the client
    /// has put on the wire so far, whether the frame is a DHCPACK the statement allows
    /// the client to configure from.
    fn classify(&self, frame: &[u8]) -> Seen {
        let not = |r: &'static str| Seen { mtype: None, verdict: Err(r), offer_ok: false };
        let Ok(eth) = decode_eth(frame) else { return not("not-dhcp") };
        if eth.ethertype != ETH_IPV4 {
            return not("not-dhcp");
        }
        let Ok(ip) = decode_ip4(&eth.payload, true) else { return not("not-dhcp") };
        if ip.proto != PROTO_UDP || ip.mf || ip.frag_off != 0 || ip.payload.len() < 8 {
            return not("not-dhcp");
        }
        let sport = u16::from_be_bytes([ip.payload[0], ip.payload[1]]);
        let dport = u16::from_be_bytes([ip.payload[2], ip.payload[3]]);
        // look at the DHCP body even when the transport is wrong so that near misses are recognised
        let body = &ip.payload[8..];
        let Ok(m) = decode_dhcp(body) else { return not("not-dhcp") };
        let mtype = m.msg_type();
        let bad = |r: &'static str| Seen { mtype, verdict: Err(r), offer_ok: false };
        if eth.dst != MAC_BROADCAST && eth.dst != self.mac {
            return bad("eth-dst");
        }
        if decode_udp(&ip.payload, &Ip::V4(ip.src), &Ip::V4(ip.dst)).is_err() {
            return bad("udp-checksum");
        }
        if sport != self.sport || dport != self.cport {
            return bad("wrong-port");
        }
        if m.cookie != COOKIE {
            return bad("bad-cookie");
        }
        if m.op != 2 || m.htype != 1 || m.hlen != 6 {
            return bad("not-bootreply");
        }
        if mtype == Some(OFFER) {
            // an OFFER the client may legitimately act upon (moves it to its requesting phase)
            let offer_ok = self.sent_any && m.xid == self.last_xid && m.chaddr[..6] == self.mac && m.opt4(OPT_SERVER_ID).is_some() && v4_unicast(m.yiaddr);
            return Seen { mtype, verdict: Err("not-ack"), offer_ok };
        }
        if mtype != Some(ACK) {
            return bad("not-ack");
        }
        if !self.sent_any {
            return bad("before-any-request");
        }
        if m.xid != self.last_xid {
            return bad("xid");
        }
        if m.chaddr[..6] != self.mac {
            return bad("chaddr");
        }
        // requesting/renewing phase: the client's latest message is a REQUEST, or an acceptable OFFER
        // has reached it since its latest message (smoltcp acts on OFFER and ACK delivered in one poll)
        if !(self.last_type == REQUEST || self.offer_seen) {
            return bad("not-requesting");
        }
        if m.opt4(OPT_SERVER_ID).is_none() {
            return bad(if m.truncated { "truncated-options" } else { "no-server-id" });
        }
        let Some(mask) = m.opt4(OPT_MASK) else {
            return bad(if m.truncated { "truncated-options" } else { "mask-absent" });
        };
        let Some(prefix) = mask_prefix(mask) else { return bad("mask-noncontiguous") };
        if !v4_unicast(m.yiaddr) {
            return bad("yiaddr-not-unicast");
        }
        let lease_opt = m.opt_u32(OPT_LEASE);
        let mut lease_us = lease_opt.map(|l| l as i64 * SEC).unwrap_or(DEFAULT_LEASE_S * SEC);
        if let Some(mx) = self.max_lease_us {
            lease_us = lease_us.min(mx);
        }
        Seen {
            mtype,
            offer_ok: false,
            verdict: Ok(AckInfo {
                yi: m.yiaddr,
                prefix,
                lease_us,
                t1: m.opt_u32(OPT_T1),
                t2: m.opt_u32(OPT_T2),
                routers: m.addr_list(OPT_ROUTER),
                dns: m.addr_list(OPT_DNS),
                // also ambiguous: an IP source address that is not unicast (0.0.0.0 passes smoltcp's IPv4
                // ingress filter; whether a client should act on such a datagram is not for this statement to say)
                ambiguous: m.truncated || m.no_end || !v4_unicast(ip.src),
            }),
        }
    }

    // -------------------------------------------------------------- application (examples/dhcp_client.rs)

    fn read_event(&mut self) -> Ev {
        match self.node.sockets.get_mut::<dhcpv4::Socket>(self.h).poll() {
            None => Ev::None,
            Some(dhcpv4::Event::Deconfigured) => Ev::Deconf,
            Some(dhcpv4::Event::Configured(c)) => Ev::Conf {
                addr: ip4(c.address.address()),
                prefix: c.address.prefix_len(),
                router: c.router.map(ip4),
                dns: c.dns_servers.iter().map(|a| ip4(*a)).collect(),
            },
        }
    }

    fn apply(&mut self, ev: &Ev) {
        match ev {
            Ev::None => {}
            Ev::Conf { addr, prefix, router, .. } => {
                if !v4_unicast(*addr) {
                    // only reachable behind an already reported clause-1 finding;
                    // update_ip_addrs would panic on it (API contract), so the app skips it
                    return;
                }
                let cidr = smoltcp::wire::Ipv4Cidr::new(Ipv4Address::from(*addr), *prefix);
                self.node.iface.update_ip_addrs(|addrs| {
                    addrs.clear();
                    addrs.push(IpCidr::Ipv4(cidr)).unwrap();
                });
                if let Some(r) = router {
                    self.node.iface.routes_mut().add_default_ipv4_route(Ipv4Address::from(*r)).unwrap();
                } else {
                    self.node.iface.routes_mut().remove_default_ipv4_route();
                }
                self.applied = Some((*addr, *prefix, *router));
            }
            Ev::Deconf => {
                self.node.iface.update_ip_addrs(|addrs| addrs.clear());
                self.node.iface.routes_mut().remove_default_ipv4_route();
                self.applied = None;
            }
        }
    }

    // -------------------------------------------------------------- lease model helpers

    /// Scenario class for failure keys: "neighbor-known" when, for the whole current lease, the next hop
    /// towards the server was announced to the client before every poll (so the client never had to
    /// resolve it and was never silenced by the interface), "neighbor-unresolved" otherwise.
    fn nbr(&self) -> &'static str {
        if self.lease_gate_free && self.now >= self.gate_until {
            "neighbor-known"
        } else {
            "neighbor-unresolved"
        }
    }

    fn start_lease(&mut self, a: &AckInfo, e_hi: i64, clean_ok: bool) {
        self.lease_sched = true;
        self.configured = true;
        self.have_lease = true;
        self.e_hi = e_hi;
        self.lease_t0 = self.now;
        self.lease_renew_seen = false;
        self.lease_rebind_seen = false;
        // clause 3 applies to leases whose ACK carried no T1/T2 or both. When both are there but are not
        // ordered T1 < T2 < (effective, i.e. capped) lease - inverted, equal, 2^32-1, or beyond a lease
        // that set_max_lease_duration shortened - the client still has to renew before it rebinds
        // before the lease ends (parse_ack documents the fall-back to T1 = lease/2, T2 = 7/8 lease);
        // only the instants differ, and the liveness rules do not depend on them. A single option
        // (RFC 2131 is silent) or a zero T1/T2 (renew and rebind at the same instant) stay outside.
        self.lease_ordered = !a.ambiguous
            && match (a.t1, a.t2) {
                (None, None) => true,
                (Some(t1), Some(t2)) => ((t1 as i64) < t2 as i64 && (t2 as i64) * SEC < a.lease_us) || (t1 != 0 && t2 != 0),
                _ => false,
            };
        if !a.ambiguous && matches!((a.t1, a.t2), (Some(t1), Some(t2)) if t1 != 0 && t2 != 0 && !((t1 as i64) < t2 as i64 && (t2 as i64) * SEC < a.lease_us)) {
            self.unusable_t1_t2_leases += 1;
        }
        self.lease_clean = clean_ok && !a.ambiguous && self.routable;
        // no leftover of an earlier neighbour wait (the caller updates this for the current poll afterwards)
        self.lease_gate_free = self.now >= self.gate_until;
        self.cur = Some(a.clone());
    }

    /// generator-side estimate of (T1, T2) instants of the current lease (targets for time draws only)
    fn t1_t2(&self) -> Option<(i64, i64)> {
        let a = self.cur.as_ref()?;
        let l = a.lease_us;
        let (d1, d2) = match (a.t1.map(|x| x as i64 * SEC), a.t2.map(|x| x as i64 * SEC)) {
            (Some(x), Some(y)) if x < y && y < l => (x, y),
            (Some(x), None) if x < l => (x, x + (l - x) * 3 / 4),
            (None, Some(y)) if y < l => ((l / 2).min(y), y),
            _ => (l / 2, l / 8 * 7),
        };
        Some((self.lease_t0.saturating_add(d1), self.lease_t0.saturating_add(d2)))
    }

    // -------------------------------------------------------------- one poll

    fn step(&mut self, t_new: i64, src: &mut Src, ctx: &mut Ctx) -> Result<(), Fail> {
        assert!(t_new >= self.now);
        // ---- schedule bookkeeping
        if let Some(pa) = self.deadline {
            if let Some(d) = pa {
                if t_new > d.max(self.now) {
                    self.unconf_sched = false;
                    self.lease_clean = false;
                    self.lease_sched = false;
                    ctx.label("sched:late-poll");
                }
            }
        }
        if t_new > self.now && self.queue.iter().any(|q| q.0 == 0) {
            self.lease_clean = false;
        }
        if self.configured {
            if let Some((t1, t2)) = self.t1_t2() {
                if self.now < t1 && t_new >= t1 {
                    ctx.label("boundary:T1 crossed while bound");
                    self.crossings += 1;
                }
                if self.now < t2 && t_new >= t2 {
                    ctx.label("boundary:T2 crossed while bound");
                    self.crossings += 1;
                }
            }
            if self.now < self.e_hi && t_new >= self.e_hi {
                ctx.label("boundary:expiry crossed while bound");
                self.crossings += 1;
                if t_new == self.e_hi {
                    ctx.label("boundary:poll exactly at expiry");
                }
            }
        }
        self.now = t_new;
        let now = self.now;

        // ---- proactive environment: the next hop towards the server announces itself by ARP before every
        // poll, so the client never has to resolve it (and the interface never silences the socket)
        let mut announced = false;
        if self.arp_policy == ArpPolicy::Proactive && !self.src_varied {
            if let Some((addr, prefix, router)) = self.applied {
                let m = u32::from_be_bytes(prefix_mask(prefix));
                let on_link = |x: [u8; 4]| prefix < 32 && (u32::from_be_bytes(x) & m) == (u32::from_be_bytes(addr) & m);
                let nh = if on_link(self.plan.srv_ip) { Some(self.plan.srv_ip) } else { router.filter(|r| on_link(*r)) };
                if let Some(nh) = nh {
                    let r = Arp { op: 1, sha: self.smac, spa: nh, tha: [0; 6], tpa: addr };
                    let fr = Eth { dst: MAC_BROADCAST, src: self.smac, ethertype: ETH_ARP, payload: r.encode() }.encode();
                    self.node.inject(fr);
                    announced = true;
                }
            }
        }

        // ---- deliver what is due, classifying each frame at delivery time
        let mut batch: Vec<Seen> = vec![];
        let mut rest = vec![];
        let mut delivered_dhcp = 0;
        for (wait, frame, desc) in std::mem::take(&mut self.queue) {
            if wait > 0 {
                rest.push((wait - 1, frame, desc));
                continue;
            }
            let seen = self.classify(&frame);
            if seen.offer_ok {
                self.offer_seen = true;
            }
            if seen.mtype.is_some() || !matches!(seen.verdict, Err("not-dhcp")) {
                delivered_dhcp += 1;
                match &seen.verdict {
                    Ok(a) => {
                        ctx.label(if a.ambiguous { "deliver:ack-ambiguous-options" } else { "deliver:ack-valid" });
                    }
                    Err(r) => {
                        if seen.mtype == Some(ACK) {
                            ctx.label(&format!("deliver:ack-invalid:{}", r));
                            self.near_miss += 1;
                        } else {
                            ctx.label(&format!("deliver:{}", seen.mtype.map(type_name).unwrap_or("no-type")));
                        }
                    }
                }
            }
            ctx.note(|| {
                format!(
                    "t={} deliver {} => {}",
                    now,
                    desc,
                    match &seen.verdict {
                        Ok(a) => format!("VALID ack{} lease={}us", if a.ambiguous { " (ambiguous options)" } else { "" }, a.lease_us),
                        Err(r) => format!("not a valid ack ({})", r),
                    }
                )
            });
            batch.push(seen);
            self.node.inject(frame);
        }
        self.queue = rest;
        if delivered_dhcp >= 2 {
            ctx.label("deliver:two-replies-in-one-poll");
        }

        // ---- poll, then the application reads the event as the example does
        let frames = self.node.poll(Instant::from_micros(now), None);
        let ev = self.read_event();
        if frames.len() > 64 || self.node.dev.hard_cap_hit {
            // not this property's claim (seen with min_renew_timeout = 0: renew_at == now makes the egress loop spin)
            ctx.label("anomaly:tx-burst-in-one-poll");
            ctx.inconclusive = true;
            self.abort = true;
            return Ok(());
        }

        // ---- clauses 1 and 2
        // candidates: ACKs of this batch that may legitimately be the last one accepted
        let mut cands: Vec<AckInfo> = vec![];
        for s in &batch {
            if let Ok(a) = &s.verdict {
                if !a.ambiguous {
                    cands.clear();
                }
                cands.push(a.clone());
            }
        }
        let strict = cands.first().map_or(false, |a| !a.ambiguous);
        let was_configured = self.configured;
        let old_e = self.e_hi;
        match &ev {
            Ev::Conf { addr, prefix, router, dns } => {
                ctx.note(|| format!("t={} event Configured {}/{} router={:?} dns={}", now, ip_s(*addr), prefix, router.map(ip_s), dns.len()));
                ctx.label(if was_configured { "event:configured-again" } else { "event:configured" });
                if cands.is_empty() {
                    // the delivered message that passed most of the checks names the reason
                    const ORDER: &[&str] = &[
                        "not-dhcp", "eth-dst", "udp-checksum", "wrong-port", "bad-cookie", "not-bootreply", "not-ack", "before-any-request", "xid",
                        "chaddr", "not-requesting", "no-server-id", "truncated-options", "mask-absent", "mask-noncontiguous", "yiaddr-not-unicast",
                    ];
                    let reason = batch
                        .iter()
                        .filter_map(|s| s.verdict.as_ref().err().copied())
                        .max_by_key(|r| ORDER.iter().position(|o| o == r).unwrap_or(0))
                        .unwrap_or("no-reply-delivered");
                    rep(ctx, Fail::new(
                        format!("configured-without-valid-ack:{}", reason),
                        format!(
                            "at t={}us the socket reported Configured({}/{}) but no DHCPACK satisfying the statement was delivered since the previous event check ({} frame(s) delivered; closest: {})",
                            now, ip_s(*addr), prefix, batch.len(), reason
                        ),
                    ))?;
                    // known finding: the model cannot know which lease the client believes in; end the case here
                    self.apply(&ev);
                    self.abort = true;
                    return Ok(());
                } else {
                    let matching: Vec<&AckInfo> = cands.iter().filter(|a| a.yi == *addr && a.prefix == *prefix).collect();
                    if matching.is_empty() {
                        rep(ctx, Fail::new(
                            "configured-mismatch:address",
                            format!(
                                "Configured reports {}/{} but the valid ACK delivered last carries {}/{}",
                                ip_s(*addr), prefix, ip_s(cands.last().unwrap().yi), cands.last().unwrap().prefix
                            ),
                        ))?;
                    }
                    // router: sound only when the ACK has no router option or exactly one router
                    let router_ok = |a: &AckInfo| match &a.routers {
                        None => router.is_none(),
                        Some(Ok(v)) if v.len() == 1 => *router == Some(v[0]) || router.is_none(),
                        _ => true,
                    };
                    // dns: every reported server appears in the ACK's list, in order
                    let dns_ok = |a: &AckInfo| match &a.dns {
                        None => dns.is_empty(),
                        Some(Ok(v)) => {
                            let mut it = v.iter();
                            dns.iter().all(|d| it.any(|x| x == d))
                        }
                        Some(Err(())) => true,
                    };
                    if !matching.is_empty() && !matching.iter().any(|a| router_ok(a)) {
                        rep(ctx, Fail::new("configured-mismatch:router", format!("Configured reports router {:?} which the ACK does not carry", router.map(ip_s))))?;
                    }
                    if !matching.is_empty() && !matching.iter().any(|a| dns_ok(a)) {
                        rep(ctx, Fail::new("configured-mismatch:dns", format!("Configured reports DNS servers {:?} which are not a subsequence of the ACK's list", dns.iter().map(|d| ip_s(*d)).collect::<Vec<_>>())))?;
                    }
                    // can the client reach the server by unicast with what it was told? (precondition of the liveness check only)
                    let on_link = |x: [u8; 4]| {
                        let m = u32::from_be_bytes(prefix_mask(*prefix));
                        *prefix < 32 && (u32::from_be_bytes(x) & m) == (u32::from_be_bytes(*addr) & m)
                    };
                    self.routable = on_link(self.plan.srv_ip) || router.map_or(false, on_link);
                    let pool: Vec<&AckInfo> = if matching.is_empty() { cands.iter().collect() } else { matching };
                    let l = pool.iter().map(|a| a.lease_us).max().unwrap();
                    let a = (*pool.last().unwrap()).clone();
                    self.valid_acks += 1;
                    self.start_lease(&a, now.saturating_add(l), true);
                }
            }
            Ev::Deconf => {
                ctx.note(|| format!("t={} event Deconfigured", now));
                if was_configured {
                    ctx.label(if now >= old_e { "event:deconfigured-at-or-after-expiry" } else { "event:deconfigured-early" });
                    // clause 3, liveness half: a lease that ran out under an ideal schedule must have seen a renewal attempt
                    if now >= old_e
                        && self.lease_clean
                        && self.lease_gate_free
                        && self.lease_ordered
                        && self.cur.as_ref().map_or(false, |a| a.lease_us >= SEC)
                        && !self.lease_renew_seen
                        && !self.lease_rebind_seen
                    {
                        rep(ctx, Fail::new(
                            "no-renew-attempt-before-expiry",
                            format!(
                                "lease acquired at t={}us ran out at t={}us although every poll was made at poll_at, ARP was answered and the server was reachable, yet no DHCPREQUEST with ciaddr was ever transmitted",
                                self.lease_t0, old_e
                            ),
                        ))?;
                    }
                }
                if was_configured
                    && now >= old_e
                    && self.lease_sched
                    && self.lease_ordered
                    && self.cur.as_ref().map_or(false, |a| a.lease_us >= SEC)
                    && !self.lease_rebind_seen
                {
                    ctx.label("violation-seen:no-rebind-attempt");
                    let key = format!("no-rebind-attempt-before-expiry:{}", if self.lease_gate_free { "neighbor-known" } else { "neighbor-unresolved" });
                    rep(ctx, Fail::new(
                        key,
                        format!(
                            "lease acquired at t={}us ran out at t={}us; every poll in between was made at or before the instant named by poll_at, yet no broadcast DHCPREQUEST (rebind) was ever transmitted",
                            self.lease_t0, old_e
                        ),
                    ))?;
                }
                self.configured = false;
                self.ref_t = now;
                self.unconf_sched = true;
            }
            Ev::None => {
                if self.configured && !cands.is_empty() {
                    let l = cands.iter().map(|a| a.lease_us).max().unwrap();
                    if strict {
                        // renewal: expiry restarts from this ACK
                        let a = cands.last().unwrap().clone();
                        ctx.label("lease:renewed-by-valid-ack");
                        self.valid_acks += 1;
                        self.start_lease(&a, now.saturating_add(l), true);
                    } else {
                        self.e_hi = self.e_hi.max(now.saturating_add(l));
                        self.lease_clean = false;
                        self.lease_ordered = false;
                    }
                }
            }
        }
        self.apply(&ev);

        // ---- could the interface have put the socket into its neighbour wait during this poll?
        // (only used to name the scenario class in failure keys, never for a verdict)
        if (was_configured || self.configured) && !announced {
            let first_attempt_later = !was_configured
                && self.cur.as_ref().map_or(false, |a| a.t1 != Some(0) && a.t2 != Some(0) && a.lease_us >= 2);
            if !first_attempt_later {
                self.gate_until = now + SEC + 1;
                self.lease_gate_free = false;
            }
        }

        if self.configured && now >= self.e_hi {
            ctx.label("violation-seen:lease-overrun");
            let key = format!("lease-overrun:{}", self.nbr());
            rep(ctx, Fail::new(
                key,
                format!(
                    "Interface::poll at t={}us is at/after the expiry {}us of the lease granted by the most recent valid ACK (acquired t={}us, lease {}us), yet dhcpv4::Socket::poll() produced no Deconfigured: the address is still reported as configured",
                    now,
                    self.e_hi,
                    self.lease_t0,
                    self.cur.as_ref().map_or(0, |a| a.lease_us)
                ),
            ))?;
        }

        // ---- what the client put on the wire
        for f in &frames {
            self.observe_tx(f, src, ctx)?;
        }

        // ---- poll_at
        let pa = self.node.poll_at(Instant::from_micros(now)).map(|i| i.total_micros());
        if self.configured {
            let ok = matches!(pa, Some(x) if x <= self.e_hi);
            if !ok {
                ctx.label("violation-seen:poll_at-after-expiry");
                let key = format!("poll_at-after-expiry:{}", self.nbr());
                rep(ctx, Fail::new(
                    key,
                    format!(
                        "while configured at t={}us Interface::poll_at returned {:?} but the lease expires at {}us (acquired t={}us)",
                        now, pa, self.e_hi, self.lease_t0
                    ),
                ))?;
            }
        } else if self.unconf_sched {
            let ok = matches!(pa, Some(x) if x <= self.ref_t.saturating_add(self.bound_us));
            if !ok {
                rep(ctx, Fail::new(
                    "solicit-gap:poll_at",
                    format!(
                        "unconfigured at t={}us, last transmission/deconfiguration at t={}us, polled per poll_at so far; poll_at now returns {:?}, beyond the retry bound of {}us",
                        now, self.ref_t, pa, self.bound_us
                    ),
                ))?;
            }
        }
        self.deadline = Some(pa);
        Ok(())
    }

    // -------------------------------------------------------------- frames emitted by the client

    fn observe_tx(&mut self, f: &[u8], src: &mut Src, ctx: &mut Ctx) -> Result<(), Fail> {
        let now = self.now;
        let Ok(eth) = decode_eth(f) else { return Ok(()) };
        if eth.ethertype == ETH_ARP {
            let Ok(a) = decode_arp(&eth.payload) else { return Ok(()) };
            if a.op != 1 {
                return Ok(());
            }
            ctx.label("tx:arp-request");
            // the client lacked a neighbour entry: the interface silences the socket for up to 1 s
            self.gate_until = now + SEC + 1;
            self.lease_gate_free = false;
            let answer = match self.arp_policy {
                ArpPolicy::Answer | ArpPolicy::Proactive => true,
                ArpPolicy::Never => false,
                ArpPolicy::Sometimes => src.bool(),
            };
            ctx.note(|| format!("t={} client ARP who-has {} ({})", now, ip_s(a.tpa), if answer { "answered" } else { "ignored" }));
            if answer {
                let r = Arp { op: 2, sha: self.smac, spa: a.tpa, tha: a.sha, tpa: a.spa };
                let fr = Eth { dst: a.sha, src: self.smac, ethertype: ETH_ARP, payload: r.encode() }.encode();
                self.queue.push((0, fr, format!("ARP reply {} is-at server", ip_s(a.tpa))));
            } else {
                self.lease_clean = false;
                if self.configured {
                    ctx.label("arp unanswered during renew");
                }
            }
            return Ok(());
        }
        if eth.ethertype != ETH_IPV4 {
            return Ok(());
        }
        let Ok(ip) = decode_ip4(&eth.payload, true) else { return Ok(()) };
        if ip.proto != PROTO_UDP {
            return Ok(());
        }
        let Ok(udp) = decode_udp(&ip.payload, &Ip::V4(ip.src), &Ip::V4(ip.dst)) else { return Ok(()) };
        if udp.sport != self.cport || udp.dport != self.sport {
            return Ok(());
        }
        let Ok(m) = decode_dhcp(&udp.payload) else { return Ok(()) };
        let Some(mtype) = m.msg_type() else { return Ok(()) };
        let cm = ClientMsg { mtype, xid: m.xid, ciaddr: m.ciaddr, ip_dst: ip.dst };
        ctx.note(|| format!("t={} client {} xid={:#010x} ciaddr={} -> {}", now, type_name(mtype), cm.xid, ip_s(cm.ciaddr), ip_s(cm.ip_dst)));
        self.sent_any = true;
        self.last_xid = cm.xid;
        self.last_type = mtype;
        self.offer_seen = false;
        if self.xids.last() != Some(&cm.xid) {
            self.xids.push(cm.xid);
        }

        let renewal = mtype == REQUEST && cm.ciaddr != [0; 4];
        if renewal {
            // clause 3
            if self.have_lease && now >= self.e_hi {
                rep(ctx, Fail::new(
                    "request-after-expiry",
                    format!("DHCPREQUEST with ciaddr={} transmitted at t={}us, at/after the lease expiry {}us", ip_s(cm.ciaddr), now, self.e_hi),
                ))?;
            }
            if cm.ip_dst != BCAST {
                ctx.label("renew sent");
                if self.configured && self.lease_ordered && self.lease_rebind_seen {
                    rep(ctx, Fail::new(
                        "rebind-before-renew",
                        format!("unicast renewal REQUEST at t={}us after a broadcast rebind REQUEST had already been sent within the same lease (acquired t={}us)", now, self.lease_t0),
                    ))?;
                }
                self.lease_renew_seen = true;
            } else {
                ctx.label("rebind sent");
                // under an ideal schedule with the next hop known, T1 < T2 means a unicast renewal went out first
                if self.configured
                    && self.lease_clean
                    && self.lease_gate_free
                    && self.lease_ordered
                    && !self.lease_renew_seen
                    && !self.lease_rebind_seen
                    && self.cur.as_ref().map_or(false, |a| a.lease_us >= SEC)
                {
                    rep(ctx, Fail::new(
                        "rebind-without-renew",
                        format!(
                            "broadcast rebind REQUEST at t={}us is the first renewal message of the lease acquired at t={}us although every poll was made on schedule and the server's next hop was known: no unicast renewal was attempted before rebinding",
                            now, self.lease_t0
                        ),
                    ))?;
                }
                self.lease_rebind_seen = true;
            }
        } else {
            ctx.label(if mtype == DISCOVER { "tx:discover" } else if mtype == REQUEST { "tx:request" } else { "tx:other" });
        }

        // clause 4
        if !self.configured {
            if self.unconf_sched && now - self.ref_t > self.bound_us {
                rep(ctx, Fail::new(
                    "solicit-gap",
                    format!(
                        "unconfigured and polled per poll_at, yet {}us passed between t={}us and the next client transmission at t={}us (bound {}us)",
                        now - self.ref_t, self.ref_t, now, self.bound_us
                    ),
                ))?;
            }
            self.ref_t = now;
            self.unconf_sched = true;
        }

        self.react(&cm, src, ctx);
        Ok(())
    }
}

include!("c18_case.rs");
