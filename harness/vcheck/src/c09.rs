//! C09 - datagram sockets (UDP, ICMP, raw) preserve message boundaries, order and addressing.
//!
//! One smoltcp node on Ethernet (ARP / NDISC answered by a scripted environment
//! after a drawn delay, or never) or on Medium::Ip, dual stack, with a drawn zoo
//! of UDP / ICMP / raw sockets whose packet rings have tiny drawn geometries.
//! An operation tape sends tagged datagrams, reads them back, injects valid
//! datagrams from the environment, polls with a transmit budget of 0..3 frames
//! and advances time. Oracle: queue model (see DESIGN.md C09 and the rule text).

use smoltcp::phy::PacketMeta;
use smoltcp::socket::{icmp, raw, udp};
use smoltcp::wire::{IpEndpoint, IpListenEndpoint, IpProtocol, IpVersion};
use vkit::indep::*;
use vkit::runner::{Fail, Part, Prop};
use vkit::sim::tcpbed::prf_bytes;
use vkit::{Ctx, Src};

#[path = "c09_world.rs"]
mod world;
use world::*;

const UDP_PORTS: [u16; 3] = [7, 9, 53];
const IDENTS: [u16; 2] = [0x1111, 0x2222];

fn frag_buf() -> usize {
    smoltcp::config::FRAGMENTATION_BUFFER_SIZE
}

fn geometry(src: &mut Src) -> (usize, usize) {
    let meta = match src.weighted(&[4, 3, 2, 1]) {
        0 => 1 + src.usize(0, 1),
        1 => 3 + src.usize(0, 1),
        2 => src.usize(1, 8),
        _ => 8,
    };
    let bytes = match src.weighted(&[4, 4, 3, 2, 1]) {
        0 => src.usize(0, 40),
        1 => src.usize(41, 300),
        2 => src.usize(301, 1300),
        3 => src.usize(1301, 4096),
        _ => *src.pick(&[0usize, 1, 8, 4096]),
    };
    (meta, bytes)
}

fn payload_for(seed: u64, tag: u32, incoming: bool, len: usize) -> Vec<u8> {
    prf_bytes(seed ^ ((tag as u64) << 20) ^ if incoming { 0x5555_0000_0000 } else { 0 }, 0, len)
}

/// Size of a datagram relative to a ring of `cap` payload bytes.
fn draw_size(src: &mut Src, cap: usize, ip_mtu: usize, overhead: usize) -> usize {
    match src.weighted(&[4, 4, 2, 3, 1]) {
        0 => src.usize(0, 9.min(cap + 1)),
        1 => src.usize(0, cap + 1),
        2 => (cap + 1).saturating_sub(src.usize(0, 3)),
        3 => {
            // around and beyond what fits one frame
            let edge = ip_mtu.saturating_sub(overhead);
            let v = match src.draw(3) {
                0 => edge + src.usize(0, 2),
                1 => edge.saturating_sub(src.usize(0, 2)),
                2 => edge * 2 + src.usize(0, 40),
                _ => edge * 3 + src.usize(0, 200),
            };
            v.min(cap + 1)
        }
        _ => src.usize(0, 3.min(cap + 1)),
    }
}

fn ip_name(a: &Option<Ip>) -> String {
    match a {
        Some(a) => a.to_string(),
        None => "*".into(),
    }
}

struct Gen {
    seed: u64,
    accepted_sends: u64,
    refused_sends: u64,
}

/// Destination of an outgoing datagram.
fn draw_dst(src: &mut Src, w: &World, v6f: bool) -> (Ip, &'static str) {
    match src.weighted(&[8, 3, 2, 2, 2, 1]) {
        0 => {
            let i = match src.weighted(&[4, 2, 1]) {
                0 => 0,
                1 => src.usize(0, 1),
                _ => src.usize(0, 5),
            };
            let h = &w.net.hosts[i];
            (if v6f { Ip::V6(h.ip6) } else { Ip::V4(h.ip4) }, "on-link")
        }
        1 => {
            let i = 1 + src.draw(2) as u8;
            (if v6f { Ip::v6([0x2001, 0xdb8, 0, 0, 0, 0, 0, i as u16]) } else { Ip::V4([192, 0, 2, i]) }, "off-link")
        }
        2 => {
            if v6f {
                (Ip::v6([0xff02, 0, 0, 0, 0, 0, 0, 0xfb]), "multicast")
            } else if src.bool() {
                (Ip::V4([255, 255, 255, 255]), "broadcast")
            } else {
                (Ip::V4([10, 0, 0, 255]), "subnet-broadcast")
            }
        }
        3 => (if v6f { Ip::v6([0xff02, 0, 0, 0, 0, 0, 0, 0xfb]) } else { Ip::V4([224, 0, 0, 251]) }, "multicast"),
        4 => (if v6f { Ip::v6([0xfd00, 0, 0, 0, 0, 0, 0, 0xc8]) } else { Ip::V4([10, 0, 0, 200]) }, "silent-on-link"),
        _ => {
            if w.net.second {
                let h = &w.net.hosts[7];
                (if v6f { Ip::V6(h.ip6) } else { Ip::V4(h.ip4) }, "on-link-2nd-subnet")
            } else {
                let h = &w.net.hosts[0];
                (if v6f { Ip::V6(h.ip6) } else { Ip::V4(h.ip4) }, "on-link")
            }
        }
    }
}

fn classify(w: &World, dst: &Ip, ip_total: usize) -> (Class, bool) {
    if !w.net.resolvable(dst) {
        return (Class::Blocked, false);
    }
    if ip_total <= w.net.ip_mtu {
        (Class::Must, false)
    } else if dst.is_v4() && ip_total <= frag_buf() {
        (Class::Must, true)
    } else {
        (Class::Oversize, false)
    }
}

fn op_send(src: &mut Src, ctx: &mut Ctx, w: &mut World, g: &mut Gen, k: usize) -> Result<(), Fail> {
    let kind = w.socks[k].kind;
    let cap = w.socks[k].tx_bytes;
    let h = w.socks[k].h;
    let api = src.draw(2); // 0 send_slice, 1 send, 2 send_with
    let extra = if api == 2 { *src.pick(&[0usize, 0, 1, 8]) } else { 0 };
    let api_name = ["send_slice", "send", "send_with"][api as usize];
    let tag = w.new_tag(k);
    let hop_cfg = w.socks[k].hop;
    let rec: SendRec;
    let accepted: Result<(), String>;
    match kind {
        Kind::Udp => {
            let bound = w.socks[k].udp_ep;
            // family: a socket bound to a specific address sends within that family unless local_address overrides
            let mut v6f = src.chance(1, 3);
            let local: Option<Ip> = if src.chance(1, 4) {
                Some(if w.net.second && src.bool() { w.net.sec(v6f) } else { w.net.prim(v6f) })
            } else {
                None
            };
            if local.is_none() {
                if let Some((Some(a), _)) = bound {
                    v6f = !a.is_v4();
                }
            }
            let (dst, dclass) = draw_dst(src, w, v6f);
            let n = draw_size(src, cap, w.net.ip_mtu, if v6f { 48 } else { 28 });
            let payload = payload_for(g.seed, tag, false, n);
            let dport = TAG_PORT + tag as u16;
            let meta = udp::UdpMetadata {
                endpoint: IpEndpoint::new(dst.to_smol(), dport),
                local_address: local.map(|a| a.to_smol()),
                meta: PacketMeta::default(),
            };
            let s = w.node.sockets.get_mut::<udp::Socket>(h);
            accepted = match api {
                0 => s.send_slice(&payload, meta).map_err(|e| format!("{:?}", e)),
                1 => s.send(n, meta).map(|b| b.copy_from_slice(&payload)).map_err(|e| format!("{:?}", e)),
                _ => s
                    .send_with(n + extra, meta, |b| {
                        b[..n].copy_from_slice(&payload);
                        n
                    })
                    .map(|_| ())
                    .map_err(|e| format!("{:?}", e)),
            };
            let sport = bound.map(|b| b.1).unwrap_or(0);
            let ip_total = if v6f { 48 } else { 28 } + n;
            let (class, fragmented) = classify(w, &dst, ip_total);
            rec = SendRec {
                status: St::Queued,
                class,
                fragmented,
                src: local.or(bound.and_then(|b| b.0)),
                dst,
                proto: PROTO_UDP,
                hop: hop_cfg.unwrap_or(64),
                l4: L4::Udp { sport, dport, payload },
                desc: format!("UDP #{} {} bytes :{} -> {}:{} ({}{})", tag, n, sport, dst, dport, dclass, local.map(|a| format!(", local_address {}", a)).unwrap_or_default()),
            };
        }
        Kind::Icmp => {
            let v6f = src.chance(1, 3);
            let (dst, dclass) = draw_dst(src, w, v6f);
            let n = draw_size(src, cap, w.net.ip_mtu, if v6f { 40 } else { 20 });
            let request = !src.chance(1, 4);
            let ident = *src.pick(&[0x1111u16, 0x4242, 0]);
            let data = payload_for(g.seed, tag, false, n.saturating_sub(8));
            let msg = Icmp::echo(v6f, request, ident, tag as u16, data);
            let mut bytes = msg.encode4(); // checksum is the stack's business
            let wellformed = n >= 8;
            bytes.truncate(n);
            let dsm = dst.to_smol();
            let s = w.node.sockets.get_mut::<icmp::Socket>(h);
            accepted = match api {
                0 => s.send_slice(&bytes, dsm).map_err(|e| format!("{:?}", e)),
                1 => s.send(n, dsm).map(|b| b.copy_from_slice(&bytes)).map_err(|e| format!("{:?}", e)),
                _ => s
                    .send_with(n + extra, dsm, |b| {
                        b[..n].copy_from_slice(&bytes);
                        n
                    })
                    .map(|_| ())
                    .map_err(|e| format!("{:?}", e)),
            };
            let ip_total = if v6f { 40 } else { 20 } + n;
            let (mut class, fragmented) = classify(w, &dst, ip_total);
            if !wellformed {
                class = Class::Drop;
            }
            rec = SendRec {
                status: St::Queued,
                class,
                fragmented,
                src: None,
                dst,
                proto: if v6f { PROTO_ICMPV6 } else { PROTO_ICMP },
                hop: hop_cfg.unwrap_or(64),
                l4: L4::Icmp(msg),
                desc: format!("ICMP #{} echo {} {} bytes -> {} ({}{})", tag, if request { "request" } else { "reply" }, n, dst, dclass, if wellformed { "" } else { ", truncated message" }),
            };
        }
        Kind::Raw => {
            let v6f = w.socks[k].raw_v6;
            let proto = w.socks[k].raw_proto;
            let (dst, dclass) = draw_dst(src, w, v6f);
            let hdr = if v6f { 40 } else { 20 };
            let min_l4 = if proto == PROTO_UDP { 8 } else { 2 };
            let n = draw_size(src, cap, w.net.ip_mtu, 0);
            let wrong_proto = src.chance(1, 16);
            let ttl = if src.bool() { 64 } else { src.range(1, 255) as u8 };
            let sa = w.net.prim(v6f);
            let wellformed = n >= hdr + min_l4;
            let l4len = if wellformed { n - hdr } else { min_l4 };
            let l4: Vec<u8> = if proto == PROTO_UDP {
                Udp::new(4000 + k as u16, TAG_PORT + tag as u16, payload_for(g.seed, tag, false, l4len - 8)).encode(&sa, &dst)
            } else {
                let mut b = (tag as u16).to_be_bytes().to_vec();
                b.extend_from_slice(&payload_for(g.seed, tag, false, l4len - 2));
                b
            };
            let hdr_proto = if wrong_proto { 200 } else { proto };
            let mut pkt = IpPkt::build(sa, dst, hdr_proto, ttl, l4.clone());
            if let IpPkt::V4(p) = &mut pkt {
                p.id = src.u16();
            }
            let mut bytes = pkt.encode();
            bytes.truncate(n);
            let s = w.node.sockets.get_mut::<raw::Socket>(h);
            accepted = match api {
                0 => s.send_slice(&bytes).map_err(|e| format!("{:?}", e)),
                1 => s.send(n).map(|b| b.copy_from_slice(&bytes)).map_err(|e| format!("{:?}", e)),
                _ => s
                    .send_with(n + extra, |b| {
                        b[..n].copy_from_slice(&bytes);
                        n
                    })
                    .map(|_| ())
                    .map_err(|e| format!("{:?}", e)),
            };
            let (mut class, fragmented) = classify(w, &dst, n);
            if !wellformed || wrong_proto {
                class = Class::Drop;
            }
            rec = SendRec {
                status: St::Queued,
                class,
                fragmented,
                src: Some(sa),
                dst,
                proto,
                hop: ttl,
                l4: L4::Raw(l4),
                desc: format!(
                    "raw #{} proto {} {} bytes -> {} ({}{}{})",
                    tag,
                    proto,
                    n,
                    dst,
                    dclass,
                    if wellformed { "" } else { ", truncated packet" },
                    if wrong_proto { ", header names another protocol" } else { "" }
                ),
            };
        }
    }
    match accepted {
        Ok(()) => {
            ctx.note(|| format!("sock {} {}: {} -> accepted [{:?}{}]", k, api_name, rec.desc, rec.class, if rec.fragmented { ", needs fragmentation" } else { "" }));
            match (rec.class, rec.fragmented) {
                (Class::Must, true) => ctx.label("send:accepted:fragmentable"),
                (Class::Must, false) => ctx.label("send:accepted:fits"),
                (Class::Blocked, _) => ctx.label("send:accepted:unresolvable"),
                (Class::Drop, _) => ctx.label("send:accepted:malformed"),
                (Class::Oversize, _) => ctx.label("send:accepted:oversize"),
            }
            let len = match &rec.l4 {
                L4::Udp { payload, .. } => payload.len(),
                L4::Icmp(m) => 8 + m.body.len(),
                L4::Raw(b) => b.len() + if rec.dst.is_v4() { 20 } else { 40 },
            };
            w.socks[k].accepted_bytes += len;
            w.socks[k].sent.push(rec);
            g.accepted_sends += 1;
        }
        Err(e) => {
            ctx.note(|| format!("sock {} {}: {} -> {}", k, api_name, rec.desc, e));
            w.drop_tag();
            g.refused_sends += 1;
        }
    }
    Ok(())
}

fn op_recv(src: &mut Src, ctx: &mut Ctx, w: &mut World, k: usize) -> Result<(), Fail> {
    let kind = w.socks[k].kind;
    let h = w.socks[k].h;
    let variant = match kind {
        Kind::Icmp => src.draw(1),
        _ => src.draw(3),
    }; // 0 recv, 1 recv_slice, 2 peek, 3 peek_slice
    let head_len = w.socks[k].pending.front().map(|a| a.len);
    let limit = if variant == 1 || variant == 3 {
        let base = head_len.unwrap_or(16);
        Some(match src.weighted(&[3, 2, 3, 1]) {
            0 => base,
            1 => base + 1 + src.usize(0, 64),
            2 => base.saturating_sub(1 + src.usize(0, 3)),
            _ => src.usize(0, 9),
        })
    } else {
        None
    };
    let mut buf = vec![0xEEu8; limit.unwrap_or(0)];
    let from_udp = |m: &udp::UdpMetadata| (Ip::from_smol(m.endpoint.addr), m.endpoint.port, m.local_address.map(Ip::from_smol));
    let out: RecvOutcome = match kind {
        Kind::Udp => {
            let s = w.node.sockets.get_mut::<udp::Socket>(h);
            let r: Result<Got, udp::RecvError> = match variant {
                0 => s.recv().map(|(b, m)| Got { bytes: b.to_vec(), udp: Some(from_udp(&m)), from: None }),
                1 => s.recv_slice(&mut buf).map(|(n, m)| Got { bytes: buf[..n].to_vec(), udp: Some(from_udp(&m)), from: None }),
                2 => s.peek().map(|(b, m)| Got { bytes: b.to_vec(), udp: Some(from_udp(m)), from: None }),
                _ => match s.peek_slice(&mut buf) {
                    Ok((n, m)) => {
                        let m = from_udp(m);
                        Ok(Got { bytes: buf[..n].to_vec(), udp: Some(m), from: None })
                    }
                    Err(e) => Err(e),
                },
            };
            match r {
                Ok(g) => RecvOutcome::Item(g),
                Err(udp::RecvError::Exhausted) => RecvOutcome::Exhausted,
                Err(udp::RecvError::Truncated) => RecvOutcome::Truncated,
            }
        }
        Kind::Icmp => {
            let s = w.node.sockets.get_mut::<icmp::Socket>(h);
            let r: Result<Got, icmp::RecvError> = match variant {
                0 => s.recv().map(|(b, a)| Got { bytes: b.to_vec(), udp: None, from: Some(Ip::from_smol(a)) }),
                _ => s.recv_slice(&mut buf).map(|(n, a)| Got { bytes: buf[..n].to_vec(), udp: None, from: Some(Ip::from_smol(a)) }),
            };
            match r {
                Ok(g) => RecvOutcome::Item(g),
                Err(icmp::RecvError::Exhausted) => RecvOutcome::Exhausted,
                Err(icmp::RecvError::Truncated) => RecvOutcome::Truncated,
            }
        }
        Kind::Raw => {
            let s = w.node.sockets.get_mut::<raw::Socket>(h);
            let r: Result<Got, raw::RecvError> = match variant {
                0 => s.recv().map(|b| Got { bytes: b.to_vec(), udp: None, from: None }),
                1 => s.recv_slice(&mut buf).map(|n| Got { bytes: buf[..n].to_vec(), udp: None, from: None }),
                2 => s.peek().map(|b| Got { bytes: b.to_vec(), udp: None, from: None }),
                _ => s.peek_slice(&mut buf).map(|n| Got { bytes: buf[..n].to_vec(), udp: None, from: None }),
            };
            match r {
                Ok(g) => RecvOutcome::Item(g),
                Err(raw::RecvError::Exhausted) => RecvOutcome::Exhausted,
                Err(raw::RecvError::Truncated) => RecvOutcome::Truncated,
            }
        }
    };
    let name = ["recv", "recv_slice", "peek", "peek_slice"][variant as usize];
    let op = match limit {
        Some(l) => format!("{}({} byte buffer)", name, l),
        None => format!("{}()", name),
    };
    ctx.note(|| {
        format!(
            "sock {} {} -> {}",
            k,
            op,
            match &out {
                RecvOutcome::Item(g) => format!("{} bytes {:?}{:?}", g.bytes.len(), g.udp, g.from),
                RecvOutcome::Exhausted => "Exhausted".to_string(),
                RecvOutcome::Truncated => "Truncated".to_string(),
            }
        )
    });
    match &out {
        RecvOutcome::Item(_) => ctx.label(&format!("rx:{}:item", name)),
        RecvOutcome::Exhausted => {}
        RecvOutcome::Truncated => ctx.label(&format!("rx:{}:truncated", name)),
    }
    w.on_recv(k, variant <= 1, limit, out, &op)
}

fn op_inject(src: &mut Src, ctx: &mut Ctx, w: &mut World, g: &mut Gen) {
    let v6f = src.chance(1, 3);
    // who sends it
    let from: Ip = match src.weighted(&[5, 2]) {
        0 => {
            let hst = &w.net.hosts[src.usize(0, 2)];
            if v6f {
                Ip::V6(hst.ip6)
            } else {
                Ip::V4(hst.ip4)
            }
        }
        _ => {
            if v6f {
                Ip::v6([0x2001, 0xdb8, 0, 0, 0, 0, 0, 9])
            } else {
                Ip::V4([192, 0, 2, 9])
            }
        }
    };
    // to which address
    let (to, toname): (Ip, &str) = match src.weighted(&[8, 2, 2, 2, 2]) {
        0 => (w.net.prim(v6f), "primary address"),
        1 => {
            if w.net.second {
                (w.net.sec(v6f), "secondary address")
            } else {
                (w.net.prim(v6f), "primary address")
            }
        }
        2 => {
            if v6f {
                (Ip::v6([0xff02, 0, 0, 0, 0, 0, 0, 1]), "all-nodes multicast")
            } else if src.bool() {
                (Ip::V4([255, 255, 255, 255]), "broadcast")
            } else {
                (Ip::V4([10, 0, 0, 255]), "subnet broadcast")
            }
        }
        3 => (if v6f { Ip::v6([0xff02, 0, 0, 0, 0, 0, 0, 1]) } else { Ip::V4([224, 0, 0, 1]) }, "all-systems multicast"),
        _ => (if v6f { Ip::v6([0xfd00, 0, 0, 0, 0, 0, 0, 0x77]) } else { Ip::V4([10, 0, 0, 77]) }, "another host's address"),
    };
    w.itags += 1;
    let itag = w.itags;
    // aim at one of the sockets so that sizes relate to its receive ring
    let k = src.usize(0, w.socks.len() - 1);
    let cap = w.socks[k].rx_bytes;
    let ttl = if src.bool() { 64 } else { src.range(1, 255) as u8 };
    let size = |src: &mut Src, overhead: usize| -> usize {
        let n = match src.weighted(&[4, 4, 2, 1]) {
            0 => src.usize(0, 9.min(cap + 1)),
            1 => src.usize(0, cap + 1),
            2 => (cap + 1).saturating_sub(src.usize(0, 2)),
            _ => src.usize(0, 3.min(cap + 1)),
        };
        // keep the environment's own frames unfragmented
        n.saturating_sub(overhead).min(1400)
    };
    let style = match w.socks[k].kind {
        Kind::Udp => 0,
        Kind::Icmp => match w.socks[k].icmp_ep {
            Some(IcmpEp::Udp(..)) => 2,
            _ => 1,
        },
        Kind::Raw => {
            if w.socks[k].raw_proto == PROTO_UDP {
                0
            } else {
                3
            }
        }
    };
    let (pkt, desc): (IpPkt, String) = match style {
        0 => {
            let dport = match src.weighted(&[6, 2, 1]) {
                0 => match w.socks[k].udp_ep {
                    Some((_, p)) => p,
                    None => *src.pick(&UDP_PORTS),
                },
                1 => *src.pick(&UDP_PORTS),
                _ => 9999,
            };
            let n = size(src, 0);
            let sport = ITAG_PORT + itag as u16;
            let mut l4 = Udp::new(sport, dport, payload_for(g.seed, itag, true, n)).encode(&from, &to);
            // one datagram in eight travels in an IP packet that is 1..=8 octets longer than the UDP
            // length field says (decided from bits of the case seed: no further draw); those octets
            // are not part of the datagram
            let sl = g.seed.rotate_right((itag as u32 % 16) * 4 + 7);
            let slack = if sl & 7 == 0 { 1 + ((sl >> 3) & 7) as usize } else { 0 };
            if slack > 0 {
                l4.extend(std::iter::repeat(0xEE).take(slack));
                ctx.label("rx:udp-with-octets-beyond-its-length-field");
            }
            (IpPkt::build(from, to, PROTO_UDP, ttl, l4), format!("UDP i#{} {} bytes (+{} beyond the UDP length) {}:{} -> {}:{} ({})", itag, n, slack, from, sport, to, dport, toname))
        }
        1 => {
            let ident = match src.weighted(&[6, 2, 1]) {
                0 => match w.socks[k].icmp_ep {
                    Some(IcmpEp::Ident(i)) => i,
                    _ => *src.pick(&IDENTS),
                },
                1 => *src.pick(&IDENTS),
                _ => 0x7777,
            };
            let request = src.bool();
            let n = size(src, 8);
            let m = Icmp::echo(v6f, request, ident, ITAG_SEQ + itag as u16, payload_for(g.seed, itag, true, n));
            let l4 = if v6f { m.encode6(&from, &to) } else { m.encode4() };
            (
                IpPkt::build(from, to, if v6f { PROTO_ICMPV6 } else { PROTO_ICMP }, ttl, l4),
                format!("ICMP i#{} echo {} ident {:#06x} {} data bytes {} -> {} ({})", itag, if request { "request" } else { "reply" }, ident, n, from, to, toname),
            )
        }
        2 => {
            // ICMP error about a UDP datagram the SUT "sent" from one of its ports
            let port = match src.weighted(&[6, 2, 1]) {
                0 => match w.socks[k].icmp_ep {
                    Some(IcmpEp::Udp(_, p)) => p,
                    _ => *src.pick(&UDP_PORTS),
                },
                1 => *src.pick(&UDP_PORTS),
                _ => 9999,
            };
            let inner_src = w.net.prim(v6f);
            let inner_dst = if v6f { Ip::v6([0x2001, 0xdb8, 0, 0, 0, 0, 0, 1]) } else { Ip::V4([192, 0, 2, 1]) };
            let n = src.usize(0, 40).min(cap);
            let inner_udp = Udp::new(port, ITAG_PORT + itag as u16, payload_for(g.seed, itag, true, n)).encode(&inner_src, &inner_dst);
            let inner = IpPkt::build(inner_src, inner_dst, PROTO_UDP, 1, inner_udp).encode();
            let (ty, code) = if v6f {
                *src.pick(&[(1u8, 4u8), (3, 0), (1, 0)])
            } else {
                *src.pick(&[(3u8, 3u8), (11, 0), (3, 1)])
            };
            let m = Icmp { ty, code, rest: [0; 4], body: inner };
            let l4 = if v6f { m.encode6(&from, &to) } else { m.encode4() };
            (
                IpPkt::build(from, to, if v6f { PROTO_ICMPV6 } else { PROTO_ICMP }, ttl, l4),
                format!("ICMP i#{} error {}/{} about UDP from port {} ({} data bytes) {} -> {} ({})", itag, ty, code, port, n, from, to, toname),
            )
        }
        _ => {
            let proto = if src.chance(1, 4) { *src.pick(&[253u8, 254]) } else { w.socks[k].raw_proto };
            let n = size(src, if v6f { 42 } else { 22 });
            let mut l4 = (ITAG_SEQ + itag as u16).to_be_bytes().to_vec();
            l4.extend_from_slice(&payload_for(g.seed, itag, true, n));
            (IpPkt::build(from, to, proto, ttl, l4), format!("proto-{} i#{} {} bytes {} -> {} ({})", proto, itag, n + 2, from, to, toname))
        }
    };
    // sometimes as two in-order IPv4 fragments (reassembled by the SUT before demultiplexing)
    let l4len = pkt.payload().len();
    if !v6f && l4len >= 16 && src.chance(1, 6) {
        let cut = 8 * src.usize(1, (l4len - 1) / 8);
        ctx.note(|| format!("env injects {} as fragments 0..{} and {}..{}", desc, cut, cut, l4len));
        ctx.label("rx:injected-as-fragments");
        w.inject_fragmented(Inj { itag, pkt, desc }, cut);
        return;
    }
    ctx.note(|| format!("env injects {}", desc));
    w.inject(Inj { itag, pkt, desc });
}

fn bind_udp(src: &mut Src, ctx: &mut Ctx, w: &mut World, k: usize) {
    let port = *src.pick(&UDP_PORTS);
    let addr: Option<Ip> = match src.weighted(&[4, 1, 1, 1]) {
        0 => None,
        1 => Some(w.net.prim(false)),
        2 => Some(w.net.prim(true)),
        _ => {
            if w.net.second {
                Some(w.net.sec(src.bool()))
            } else {
                None
            }
        }
    };
    let h = w.socks[k].h;
    let ep = IpListenEndpoint {
        addr: addr.map(|a| a.to_smol()),
        port,
    };
    let r = w.node.sockets.get_mut::<udp::Socket>(h).bind(ep);
    ctx.note(|| format!("sock {} bind({}:{}) -> {:?}", k, ip_name(&addr), port, r));
    if r.is_ok() {
        w.socks[k].udp_ep = Some((addr, port));
    }
}

fn bind_icmp(src: &mut Src, ctx: &mut Ctx, w: &mut World, k: usize) {
    let ep = match src.weighted(&[3, 2]) {
        0 => IcmpEp::Ident(*src.pick(&IDENTS)),
        _ => {
            let addr = match src.weighted(&[3, 1, 1]) {
                0 => None,
                1 => Some(w.net.prim(false)),
                _ => Some(w.net.prim(true)),
            };
            IcmpEp::Udp(addr, *src.pick(&UDP_PORTS))
        }
    };
    let sm = match ep {
        IcmpEp::Ident(i) => icmp::Endpoint::Ident(i),
        IcmpEp::Udp(a, p) => icmp::Endpoint::Udp(IpListenEndpoint {
            addr: a.map(|a| a.to_smol()),
            port: p,
        }),
    };
    let h = w.socks[k].h;
    let r = w.node.sockets.get_mut::<icmp::Socket>(h).bind(sm);
    ctx.note(|| format!("sock {} bind({:?}) -> {:?}", k, ep, r));
    if r.is_ok() {
        w.socks[k].icmp_ep = Some(ep);
    }
}

fn case(src: &mut Src, ctx: &mut Ctx) -> Result<(), Fail> {
    // development aid: C09_ASSUME_KNOWN=key1,key2 lets the search continue behind findings
    // that are not (yet) registered in known_findings.json; never set by ./check
    if !ctx.strict {
        if let Ok(v) = std::env::var("C09_ASSUME_KNOWN") {
            let mut ks: Vec<String> = ctx.known_open.iter().cloned().collect();
            ks.extend(v.split(',').filter(|s| !s.is_empty()).map(|s| s.to_string()));
            ctx.known_open = std::sync::Arc::new(ks);
        }
    }
    // ---- network
    let eth = src.chance(3, 4);
    let mtu = *src.pick(&[1500usize, 200, 576, 120, 1280, 100]);
    let second = src.bool();
    let gw4 = src.chance(7, 8);
    let gw6 = src.chance(7, 8);
    let mut delays = vec![];
    for _ in 0..8 {
        delays.push(match src.weighted(&[5, 2, 2, 2]) {
            0 => Some(0),
            1 => Some(50),
            2 => Some(1500),
            _ => None,
        });
    }
    let seed = src.u64();
    let net = Net {
        eth,
        mtu,
        ip_mtu: if eth { mtu - 14 } else { mtu },
        second,
        gw4,
        gw6,
        hosts: make_hosts(&delays, second),
    };
    ctx.note(|| {
        format!(
            "{} mtu={} second-subnet={} default-route v4={} v6={} neighbour answer delays (ms; None = never) hosts {:?} gateway {:?}",
            if eth { "ethernet" } else { "medium-ip" },
            mtu,
            second,
            gw4,
            gw6,
            &delays[..6],
            delays[6]
        )
    });
    let mut w = World::new(net, seed);
    let mut g = Gen {
        seed,
        accepted_sends: 0,
        refused_sends: 0,
    };

    // ---- sockets
    while w.socks.len() < 5 && (w.socks.is_empty() || src.more(3, 4)) {
        let kind = match src.weighted(&[6, 2, 2]) {
            0 => Kind::Udp,
            1 => Kind::Icmp,
            _ => Kind::Raw,
        };
        let (rx_meta, rx_bytes) = geometry(src);
        let (tx_meta, tx_bytes) = geometry(src);
        let hop = if src.chance(1, 3) { Some(src.range(1, 255) as u8) } else { None };
        let k = w.socks.len();
        let mut raw_v6 = false;
        let mut raw_proto = 0u8;
        let h = match kind {
            Kind::Udp => {
                let mut s = udp::Socket::new(
                    udp::PacketBuffer::new(vec![udp::PacketMetadata::EMPTY; rx_meta], vec![0u8; rx_bytes]),
                    udp::PacketBuffer::new(vec![udp::PacketMetadata::EMPTY; tx_meta], vec![0u8; tx_bytes]),
                );
                s.set_hop_limit(hop);
                w.node.sockets.add(s)
            }
            Kind::Icmp => {
                let mut s = icmp::Socket::new(
                    icmp::PacketBuffer::new(vec![icmp::PacketMetadata::EMPTY; rx_meta], vec![0u8; rx_bytes]),
                    icmp::PacketBuffer::new(vec![icmp::PacketMetadata::EMPTY; tx_meta], vec![0u8; tx_bytes]),
                );
                s.set_hop_limit(hop);
                w.node.sockets.add(s)
            }
            Kind::Raw => {
                raw_v6 = src.chance(1, 3);
                raw_proto = *src.pick(&[253u8, PROTO_UDP, 254]);
                let s = raw::Socket::new(
                    Some(if raw_v6 { IpVersion::Ipv6 } else { IpVersion::Ipv4 }),
                    Some(IpProtocol::from(raw_proto)),
                    raw::PacketBuffer::new(vec![raw::PacketMetadata::EMPTY; rx_meta], vec![0u8; rx_bytes]),
                    raw::PacketBuffer::new(vec![raw::PacketMetadata::EMPTY; tx_meta], vec![0u8; tx_bytes]),
                );
                w.node.sockets.add(s)
            }
        };
        w.socks.push(Sock {
            h,
            kind,
            rx_meta,
            rx_bytes,
            tx_meta,
            tx_bytes,
            hop: if kind == Kind::Raw { None } else { hop },
            udp_ep: None,
            icmp_ep: None,
            raw_v6,
            raw_proto,
            sent: vec![],
            next_idx: 0,
            accepted_bytes: 0,
            pending: Default::default(),
            known_empty: true,
            delivered: Default::default(),
        });
        ctx.note(|| {
            format!(
                "sock {}: {:?}{} rx ring {} slots / {} bytes, tx ring {} slots / {} bytes, hop limit {:?}",
                k,
                kind,
                if kind == Kind::Raw { format!(" ipv{} proto {}", if raw_v6 { 6 } else { 4 }, raw_proto) } else { String::new() },
                rx_meta,
                rx_bytes,
                tx_meta,
                tx_bytes,
                hop
            )
        });
        let bind_now = !src.chance(1, 8);
        if bind_now {
            match kind {
                Kind::Udp => bind_udp(src, ctx, &mut w, k),
                Kind::Icmp => bind_icmp(src, ctx, &mut w, k),
                Kind::Raw => {}
            }
        }
        ctx.digest.u64(kind as u64);
        ctx.digest.u64((rx_meta * 10000 + rx_bytes) as u64);
        ctx.digest.u64((tx_meta * 10000 + tx_bytes) as u64);
    }
    ctx.digest.u64(eth as u64 * 10000 + mtu as u64);

    // ---- operation tape
    let mut steps = 0;
    let mut polls = 0u64;
    while steps < 150 && src.more(49, 50) {
        steps += 1;
        let k = src.usize(0, w.socks.len() - 1);
        match src.weighted(&[10, 8, 6, 6, 3, 1]) {
            0 => op_send(src, ctx, &mut w, &mut g, k)?,
            1 => {
                let budget = match src.weighted(&[3, 3, 2, 1, 1]) {
                    0 => None,
                    1 => Some(1),
                    2 => Some(2),
                    3 => Some(3),
                    _ => Some(0),
                };
                let waiting = w.anything_queued();
                let before = w.arp_requests;
                let n = w.poll(budget, ctx)?;
                if w.dead {
                    ctx.label("ended-by-known-panic");
                    return Ok(());
                }
                polls += 1;
                if waiting && (w.arp_requests > before || (w.net.eth && n == 0 && budget != Some(0))) {
                    w.pending_neighbour_polls += 1;
                }
                ctx.note(|| format!("poll(budget {:?}) at {} ms -> {} frames", budget, w.now_ms, n));
            }
            2 => op_recv(src, ctx, &mut w, k)?,
            3 => op_inject(src, ctx, &mut w, &mut g),
            4 => {
                let d = *src.pick(&[1i64, 100, 1100, 40, 3000, 61_000]);
                w.now_ms += d;
                ctx.note(|| format!("time +{} ms", d));
            }
            _ => match w.socks[k].kind {
                Kind::Udp => {
                    if w.socks[k].udp_ep.is_some() {
                        let h = w.socks[k].h;
                        w.node.sockets.get_mut::<udp::Socket>(h).close();
                        w.on_close(k);
                        ctx.label("close-with-state");
                        ctx.note(|| format!("sock {} close()", k));
                    } else {
                        bind_udp(src, ctx, &mut w, k);
                    }
                }
                Kind::Icmp => {
                    if w.socks[k].icmp_ep.is_none() {
                        bind_icmp(src, ctx, &mut w, k);
                    }
                }
                Kind::Raw => {}
            },
        }
    }

    // ---- tail phase: every neighbour that answers at all answers at once, unlimited budget, time moves past retry timers
    ctx.note(|| "tail phase".to_string());
    w.tail = true;
    for r in w.replies.iter_mut() {
        r.0 = r.0.min(w.now_ms);
    }
    let mut idle_rounds = 0;
    let mut rounds = 0;
    let mut exhausted = false;
    while idle_rounds < 3 {
        rounds += 1;
        if rounds > 80 {
            exhausted = true;
            break;
        }
        let before = w.progress;
        let mut inner = 0;
        loop {
            inner += 1;
            let n = w.poll(None, ctx)?;
            if w.dead {
                ctx.label("ended-by-known-panic");
                return Ok(());
            }
            // keep polling while the interface itself asks for it (poll_at <= now): e.g. a socket
            // dropping malformed buffers or the fragmenter make one step per poll without emitting
            let now = vkit::sim::ms(w.now_ms);
            let due = w.node.poll_at(now).map(|t| t <= now).unwrap_or(false);
            if (n == 0 && w.replies.is_empty() && !due) || inner > 400 {
                break;
            }
        }
        if w.progress == before {
            idle_rounds += 1;
        } else {
            idle_rounds = 0;
        }
        w.now_ms += 1100;
    }
    if exhausted {
        ctx.inconclusive = true;
        ctx.label("tail-budget-exhausted");
        return Ok(());
    }
    w.final_tx_check(ctx)?;
    if w.reasm.pending() > 0 {
        ctx.label("tx:incomplete-reassembly-at-end");
    }

    // ---- drain every receive buffer: whatever is known to be stored must come out, whole and in order
    for k in 0..w.socks.len() {
        let h = w.socks[k].h;
        for _ in 0..40 {
            let out = match w.socks[k].kind {
                Kind::Udp => match w.node.sockets.get_mut::<udp::Socket>(h).recv() {
                    Ok((b, m)) => RecvOutcome::Item(Got {
                        bytes: b.to_vec(),
                        udp: Some((Ip::from_smol(m.endpoint.addr), m.endpoint.port, m.local_address.map(Ip::from_smol))),
                        from: None,
                    }),
                    Err(_) => RecvOutcome::Exhausted,
                },
                Kind::Icmp => match w.node.sockets.get_mut::<icmp::Socket>(h).recv() {
                    Ok((b, a)) => RecvOutcome::Item(Got {
                        bytes: b.to_vec(),
                        udp: None,
                        from: Some(Ip::from_smol(a)),
                    }),
                    Err(_) => RecvOutcome::Exhausted,
                },
                Kind::Raw => match w.node.sockets.get_mut::<raw::Socket>(h).recv() {
                    Ok(b) => RecvOutcome::Item(Got { bytes: b.to_vec(), udp: None, from: None }),
                    Err(_) => RecvOutcome::Exhausted,
                },
            };
            let done = matches!(out, RecvOutcome::Exhausted);
            w.on_recv(k, true, None, out, "final recv()")?;
            if done {
                break;
            }
        }
    }

    // ---- classification
    let wrapped = w.socks.iter().any(|s| s.sent.len() >= 2 && (s.accepted_bytes > s.tx_bytes || s.sent.len() > s.tx_meta));
    let pressure = w.backpressure_polls > 0 || w.pending_neighbour_polls > 0;
    if w.backpressure_polls > 0 {
        ctx.label("poll-under-backpressure");
    }
    if w.pending_neighbour_polls > 0 {
        ctx.label("poll-with-neighbour-pending");
    }
    if wrapped {
        ctx.label("tx-ring-wrapped");
    }
    if w.fragments_out > 0 {
        ctx.label("fragments-on-wire");
    }
    if w.must_arrivals > 0 {
        ctx.label("rx:arrival-at-empty-buffer");
    }
    if w.delivered_count > 0 {
        ctx.label("rx:delivered");
    }
    if w.stack_originated > 0 {
        ctx.label("stack-originated-traffic");
    }
    if w.socks.iter().any(|s| s.sent.iter().any(|r| r.status == St::Discarded)) {
        ctx.label("close-discarded-queued-datagrams");
    }
    if w.socks.iter().any(|s| s.sent.iter().any(|r| r.status == St::Queued && r.class == Class::Must)) {
        ctx.label("resolvable-datagram-behind-blocked-head");
    }
    for (c, _) in w.classes.iter() {
        ctx.label(c);
    }
    // several UDP sockets on one port: the first-match rule decides
    for (i, a) in w.socks.iter().enumerate() {
        for b in w.socks.iter().skip(i + 1) {
            if let (Some(x), Some(y)) = (a.udp_ep, b.udp_ep) {
                if x.1 == y.1 {
                    ctx.label("udp-sockets-share-a-port");
                }
            }
        }
    }
    for s in &w.socks {
        ctx.label(match s.kind {
            Kind::Udp => "sock:udp",
            Kind::Icmp => "sock:icmp",
            Kind::Raw => "sock:raw",
        });
    }
    ctx.label(if eth { "medium:ethernet" } else { "medium:ip" });
    if g.accepted_sends >= 3 && wrapped && pressure {
        ctx.nontrivial = true;
    }
    ctx.count("accepted_sends", g.accepted_sends);
    ctx.count("refused_sends", g.refused_sends);
    ctx.count("datagrams_on_wire", w.datagrams_out);
    ctx.count("fragments_on_wire", w.fragments_out);
    ctx.count("frames_out", w.frames_out);
    ctx.count("datagrams_delivered", w.delivered_count);
    ctx.count("arrivals_at_known_empty_buffer", w.must_arrivals);
    ctx.count("truncated_errors", w.truncated_errors);
    ctx.count("polls", polls);
    ctx.count("tail_rounds", rounds);
    ctx.digest.u64(g.accepted_sends);
    ctx.digest.u64(w.datagrams_out);
    ctx.digest.u64(w.delivered_count);
    ctx.digest.u64(w.frames_out);
    ctx.digest.u64(steps);
    Ok(())
}

pub fn prop() -> Prop {
    Prop {
        id: "C09",
        parts: vec![Part { name: "datagram", case, quick: 40_000, thorough: 2_000_000 }],
        phases: vec![],
        smoltcp_panic_is_violation: true,
        rule: "one dual-stack node on Ethernet (ARP/NDISC answered by a scripted environment after 0/50/1500 ms or never, 6 on-link hosts + gateway against a 4-entry neighbour cache) or Medium::Ip, MTU in {100,120,200,576,1280,1500}, 1-5 sockets (UDP with overlapping ports bound to any or one address, ICMP bound by ident or UDP port, raw per version+protocol) with drawn ring geometries (1-8 metadata slots, 0-4096 payload bytes, small favoured); an operation tape of send/send_slice/send_with (size 0..capacity+1, on-link / off-link / silent / broadcast / multicast destinations, optional local_address), recv/recv_slice/peek/peek_slice with user buffers smaller/equal/larger, bind/close, poll with transmit budget 0..3 or unlimited, injection of valid datagrams (matching and non-matching ports, idents, addresses, broadcast/multicast, ICMP errors about local UDP ports, sometimes as two in-order IPv4 fragments), time steps; every outgoing datagram carries a unique tag (UDP destination port / echo sequence number / first payload bytes) plus PRF fill, everything emitted is decoded by the independent codec (IPv4 fragments reassembled by the reference reassembler); sender oracle: per socket the wire shows an in-order, duplicate-free subsequence of the accepted datagrams with payload, ports, addresses, protocol and hop limit unchanged, nothing discarded by close() appears, and after a tail phase (all answering neighbours answer at once, unlimited budget, time advanced past the 1 s retry timers until 3 idle rounds) every accepted datagram that is resolvable, fits the MTU or the fragmentation buffer and is not queued behind an unresolvable one has appeared exactly once; receiver oracle: a model of SUT demultiplexing (first matching UDP socket, every matching ICMP / raw socket) gives the arrivals per socket, what a socket returns must be an in-order subsequence of them, each once, whole, with the right source endpoint and local_address, a datagram that arrived at a buffer known to be empty and large enough (or that peek has shown) must be returned, a short user buffer must give Truncated and never shortened data; non-trivial = at least 3 accepted sends, a socket whose accepted bytes exceed its tx payload ring or whose accepted datagrams exceed its metadata ring (wrap-around) and at least one poll under transmit back-pressure or with neighbour resolution pending; distinct by digest of (medium, MTU, socket kinds and geometries, totals)",
        assumptions: vec![
            "independent Ethernet/ARP/NDISC/IPv4/IPv6/UDP/ICMP codec and reference IPv4 reassembler in vkit::indep",
            "a datagram queued behind one whose next hop can never be resolved (silent neighbour, no route) may stay queued for ever: the socket queue is FIFO and smoltcp keeps an undeliverable head (head-of-line blocking is treated as permitted)",
            "documented silent drops are permitted: UDP/ICMP/raw datagram larger than the MTU over IPv6 or larger than the fragmentation buffer over IPv4, malformed buffers handed to raw/ICMP sockets, raw packet whose header names another protocol than the socket's, incoming datagram when the receive ring cannot hold it",
            "ICMP socket payloads are compared as messages (type, code, identifier, sequence, data; embedded packet of an error as addresses + protocol + data) because the stack re-serialises them; raw socket payloads as addresses + protocol + hop limit + payload",
            "after a Truncated error from recv_slice the head datagram may be consumed (documented) or kept; IPv4 packets not addressed to the node may or may not reach IPv4 raw sockets (they do in this implementation)",
            "order on the wire is judged by the first fragment of each datagram",
            "hop limit is configured once per socket before any send",
        ],
    }
}
